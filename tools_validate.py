import json, sys, jsonschema, glob
es = json.load(open('/root/.vp/EVIDENCE.schema.json'))
ms = json.load(open('/root/.vp/MANIFEST.schema.json'))
m = json.load(open('MANIFEST.json'))
jsonschema.validate(m, ms)
print("MANIFEST valid;", len(m["checks"]), "checks,", len(m.get("not_applicable", [])), "not_applicable")
for c in m["checks"]:
    p = c["evidence_file"]
    p = p if p.startswith('/') else '/verif/' + p
    try:
        ev = json.load(open(p)); jsonschema.validate(ev, es)
        assert ev["level"] == c["level_claimed"]["category"], (ev["level"], c["level_claimed"]["category"])
        print(" ", c["property_id"], "evidence valid", ev["coverage"].get("obligations"), ev["coverage"].get("discharged"))
    except Exception as e:
        print(" ", c["property_id"], "EVIDENCE PROBLEM", repr(e)[:200])
