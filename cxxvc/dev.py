"""development runner: python3-vt -m cxxvc.dev <module> [KernelClass ...]"""
import importlib, sys, time, traceback
from . import extract, solve
from .interp import Gap

def main():
    mod = importlib.import_module(sys.argv[1])
    names = sys.argv[2:]
    ks = [k() for k in mod.KERNELS if not names or k.__name__ in names]
    t0 = time.time()
    reqs = []
    for k in ks: reqs += k.requests()
    dumps = extract.dump_many(reqs)
    print("extract %.1fs" % (time.time() - t0))
    for k in ks:
        try:
            k.locate(dumps)
            obs, st = k.run_all()
        except Gap as g:
            print("GAP", k.kid, g); (traceback.print_exc() if __import__("os").environ.get("TB") else None); continue
        print(k.kid, st, len(obs), "obligation instances")
        res = solve.discharge_all(obs, scope=getattr(k, "scope", None))
        agg = {}
        for ob, r in zip(obs, res):
            agg.setdefault(ob.name, []).append(r)
        for nm, rs in agg.items():
            sts = sorted(set(r["status"] for r in rs))
            print("  %-70s %s n=%d t=%.2f" % (nm, sts, len(rs), sum(r["time_s"] for r in rs)))
            for ob2, r in [(o, r) for o, r in zip(obs, res) if o.name == nm]:
                if r["status"] != "discharged":
                    print("     ", r["status"], r["solver"], r["detail"])
                    print("      path:", ob2.path)
                    for k_, v_ in sorted((r["model"] or {}).items()):
                        print("        %s = %s" % (k_, " ".join(str(v_).split())))
                    break
    for lc in getattr(mod, "LEMMAS", []):
        if names and lc.__name__ not in names: continue
        l = lc(); obs = l.obligations()
        res = solve.discharge_all(obs, scope=l.scope)
        for ob, r in zip(obs, res):
            print("  LEMMA %-60s %s %s t=%.2f" % (ob.name, r["status"], r["solver"], r["time_s"]))
            if r["status"] != "discharged":
                for k_, v_ in sorted((r["model"] or {}).items()):
                    print("        %s = %s" % (k_, " ".join(str(v_).split())))
    print("total %.1fs" % (time.time() - t0))
main()
