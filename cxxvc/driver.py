"""./check <Cxx> [--tier quick|thorough] [--replay file]

exit 0  every obligation of the property discharged on /repo's working tree
exit 1  a violation (line `VIOLATION property=<id> replay=<path>`), not listed in known_findings.json
exit 2  undecided (solver unknown / timeout on some obligation, none refuted)
exit 3  extraction gap or internal error (the check could not be carried out)
"""
import argparse
import hashlib
import importlib
import json
import os
import re
import sys
import time
import traceback

from concurrent.futures import ProcessPoolExecutor

from . import extract, solve
from .interp import Gap

VERIF = extract.VERIF


class SerialObligation:
    """an obligation produced in a worker process: claim and hypotheses are already one SMT-LIB query"""

    def __init__(self, d, kobj):
        self.name = d["name"]
        self.kind = d["kind"]
        self.line = d["line"]
        self.note = d["note"]
        self.path = d["path"]
        self.smt2 = d["smt2"]  # None = trivially true
        self.kernel = kobj.kid
        self.kobj = kobj
        self.hyps = None
        self.claim = None


def _run_kernel(spec):
    modname, clsname, pid = spec[:3]
    bounded = spec[3] if len(spec) > 3 else None
    try:
        import z3
        mod = importlib.import_module(modname)
        kc = [c for c in mod.KERNELS if c.__name__ == clsname][0]
        k = kc()
        k.bounded_mode = bounded
        k.current_property = pid
        dumps = extract.dump_many(k.requests())
        k.locate(dumps)
        obs, st = k.run_all()
        if not obs:
            return {"gap": "zero obligations generated (vacuous)"}
        outl = []
        for ob in obs:
            tags = set(re.findall(r"C\d\d", " ".join(re.findall(r"\[([^\]]*)\]", ob.name))))
            if tags and pid not in tags:
                continue
            c = ob.claim if z3.is_quantifier(ob.claim) else z3.simplify(ob.claim)
            smt2 = None if z3.is_true(c) else solve.to_smt2(ob.hyps, ob.claim)
            outl.append({"name": ob.name, "kind": ob.kind, "line": ob.line, "note": ob.note,
                         "path": [list(p) for p in (ob.path or [])], "smt2": smt2})
        src = k.src if isinstance(k.src, (dict, type(None))) else extract.fn_source(k.fn)   # a contract must not reuse .src
        return {"stats": st, "src": src, "obligations": outl}
    except Gap as g:
        return {"gap": str(g)}
    except Exception as ex:
        return {"gap": "internal error: %r\n%s" % (ex, traceback.format_exc()[-1500:])}


def load_known():
    p = os.path.join(VERIF, "known_findings.json")
    if not os.path.exists(p):
        return []
    return json.load(open(p)).get("findings", [])


def slug(s):
    return re.sub(r"[^A-Za-z0-9_.-]+", "_", s)[:120]


def run_property(pid, tier, seed):
    from contracts import registry
    t0 = time.time()
    prop = registry.PROPS[pid]
    kernels = []
    lemmas = []
    for modname in prop["modules"]:
        mod = importlib.import_module(modname)
        for kc in getattr(mod, "KERNELS", []):
            if pid in kc.property_ids and (tier == "thorough" or not getattr(kc, "thorough_only", False)):
                kernels.append(kc())
        for lc in getattr(mod, "LEMMAS", []):
            if pid in lc.property_ids:
                lemmas.append(lc())
    out = {"pid": pid, "tier": tier, "kernels": [], "gaps": [], "violations": [], "undecided": [], "known": [],
           "obligations": 0, "discharged": 0, "instances": 0, "solver_time": {}, "samples": [], "bounded": [],
           "functions": []}
    extract.prune_cache()
    reqs = []
    for k in kernels:
        reqs += k.requests()
    t1 = time.time()
    try:
        dumps = extract.dump_many(reqs)
    except Exception as ex:
        out["gaps"].append({"kernel": "*", "reason": "extraction failed: %s" % ex})
        return out
    out["extract_s"] = round(time.time() - t1, 2)
    allobs = []
    # symbolic execution of the kernels runs in worker processes (the AST cache was filled above);
    # each worker returns its obligations already serialised to SMT-LIB
    specs = [(k.__class__.__module__, k.__class__.__name__, pid) for k in kernels]
    if len(specs) > 1:
        with ProcessPoolExecutor(max_workers=min(16, len(specs))) as ex:
            kres = list(ex.map(_run_kernel, specs))
    else:
        kres = [_run_kernel(sp) for sp in specs]
    for k, kr in zip(kernels, kres):
        if kr.get("gap"):
            out["gaps"].append({"kernel": k.kid, "reason": kr["gap"]})
            print("GAP kernel=%s %s" % (k.kid, kr["gap"]))
            if k.bounded_fallback:
                # the body no longer matches the invariants: look for a concrete counterexample in bounded mode
                br = _run_kernel((k.__class__.__module__, k.__class__.__name__, pid, k.bounded_fallback))
                if br.get("gap"):
                    print("GAP kernel=%s (bounded fallback) %s" % (k.kid, br["gap"]))
                else:
                    print("bounded fallback: kernel=%s loops unrolled %d times, sizes <= %d: refutations are reported, "
                          "a pass proves nothing" % (k.kid, k.bounded_fallback, k.bounded_fallback))
                    k.src = br["src"]
                    for od in br["obligations"]:
                        ob = SerialObligation(od, k)
                        ob.bounded_only = True
                        allobs.append(ob)
            continue
        st = kr["stats"]
        k.src = kr["src"]
        out["functions"].append({"kernel": k.kid, "function": k.fn_name, "title": k.title, "source": k.src,
                                 "tu": k.tu, "extraction": getattr(k, "extraction_mode", "E1 clang -ast-dump=json"),
                                 "paths": st["paths"], "outcomes": st["outcomes"], "symexec_s": st["symexec_s"],
                                 "bounded": k.bounded})
        if k.bounded:
            out["bounded"].append({"function": k.kid, "bound": k.bounded, "notes": st["notes"]})
        for od in kr["obligations"]:
            ob = SerialObligation(od, k)
            allobs.append(ob)
    known = load_known()
    # bounded stand-ins on the compiled code (cxxvc/native.py): never counted as proved
    for modname in prop["modules"]:
        mod = importlib.import_module(modname)
        for nc in getattr(mod, "NATIVE", []):
            if pid not in nc.property_ids:
                continue
            n = nc()
            r = n.run(tier)
            entry = {"function": n.kid, "bound": n.bound_text, "kind": "native bounded enumeration of the real compiled code",
                     "inputs_checked": r.get("evaluations", 0), "functions": list(n.functions), "build_s": r.get("build_s"),
                     "run_s": r.get("run_s"), "runs": r.get("runs")}
            out["bounded"].append(entry)
            out["native_inputs"] = out.get("native_inputs", 0) + r.get("evaluations", 0)
            if r["status"] == "error":
                out["gaps"].append({"kernel": n.kid, "reason": r.get("detail")})
                print("GAP kernel=%s %s" % (n.kid, (r.get("detail") or "")[:600]))
            elif r["status"] == "violation":
                out.setdefault("native_violations", []).append({"kernel": n.kid, "title": n.title, "failing_input": r["failing_input"],
                                                                "replay_cmd": r["replay_cmd"], "source": n.source})
            # inputs that fail only in a way the harness can name: a listed open finding for exactly that class is reported
            # as KNOWN-FINDING, any other class is a violation like every other failing input
            for cls, info in (r.get("classes") or {}).items():
                kf = [f for f in known if f.get("property") == pid and f.get("kernel") == n.kid
                      and f.get("native_class") == cls and f.get("status", "open") == "open"]
                entry.setdefault("known_classes", {})[cls] = {"inputs": info["count"], "example": info["example"], "listed": bool(kf)}
                if kf:
                    out["known"].append({"kernel": n.kid, "obligation": n.title, "known": kf[0], "inputs": info["count"]})
                else:
                    out.setdefault("native_violations", []).append({
                        "kernel": n.kid, "title": n.title, "failing_input": "[%s] %s" % (cls, info["example"]),
                        "replay_cmd": "<exe> %s  (built by: python3 native/build_runtime.py /repo <dir> --probe %s -o <exe>)" % (
                            " ".join(info["argv"]), n.source), "source": n.source})
    for l in lemmas:
        obs = l.obligations()
        for ob in obs:
            ob.kernel = l.kid
            ob.kobj = l
        out["functions"].append({"kernel": l.kid, "function": None, "title": l.title, "source": None,
                                 "extraction": "glue lemma over contracts (no code)"})
        allobs += obs
    second = tier == "thorough"
    scope = None
    res = []
    # per-kernel scopes
    groups = {}
    for i, ob in enumerate(allobs):
        groups.setdefault(id(ob.kobj), []).append(i)
    res = [None] * len(allobs)
    # one pool for everything: build jobs with each kernel's scope
    jobs_in = []
    for i, ob in enumerate(allobs):
        jobs_in.append(getattr(ob.kobj, "scope", None))
    res = solve.discharge_all(allobs, scope=None, scopes=jobs_in, second_solver=second)
    named = {}
    for ob, r in zip(allobs, res):
        named.setdefault((ob.kernel, ob.name), []).append((ob, r))
        out["instances"] += 1
        sv = r.get("solver") or "none"
        if "dup_of" not in r:
            out["solver_time"][sv] = round(out["solver_time"].get(sv, 0.0) + r.get("time_s", 0.0), 4)
    known = load_known()
    for (kern, name), lst in named.items():
        if getattr(lst[0][0], "bounded_only", False) and not any(r["status"] == "refuted" for _, r in lst):
            continue  # bounded pass: proves nothing, the gap already stands
        out["obligations"] += 1
        sts = [r["status"] for _, r in lst]
        if all(s == "discharged" for s in sts):
            if tier == "thorough" and any(r.get("cvc5") == "sat" for _, r in lst):
                out["gaps"].append({"kernel": kern, "reason": "solver disagreement on %s" % name})
                continue
            out["discharged"] += 1
            if len(out["samples"]) < 12 and lst[0][0].kind in ("post-normal", "inv-preserve", "post-exceptional", "lemma"):
                ob, r = lst[0]
                out["samples"].append({"kernel": kern, "obligation": name, "kind": ob.kind, "instances": len(lst),
                                       "solver": r["solver"], "time_s": r["time_s"]})
            continue
        if any(s == "refuted" for s in sts):
            ob, r = next((o, r) for o, r in lst if r["status"] == "refuted")
            v = {"kernel": kern, "obligation": name, "kind": ob.kind, "line": ob.line, "note": ob.note,
                 "solver": r["solver"], "model": r["model"], "path": [list(p) for p in (ob.path or [])]}
            kf = [f for f in known if f.get("property") == pid and f.get("kernel") == kern
                  and f.get("obligation") == name and f.get("status", "open") == "open"]
            if kf and ob.kobj.matches_known(kf[0], ob, r):
                v["known"] = kf[0]
                out["known"].append(v)
                # a listed finding is reported on its own line and is not part of the proved set
                out["obligations"] -= 1
            else:
                out["violations"].append((v, ob, r))
            continue
        sts = [x for x in sts if x != "skipped-after-refutation"]
        if any(s == "error" for s in sts):
            out["gaps"].append({"kernel": kern, "reason": "solver error on %s: %s" % (
                name, [r["detail"] for _, r in lst if r["status"] == "error"][:1])})
            continue
        ob, r = next((o, r) for o, r in lst if r["status"] != "discharged")
        out["undecided"].append({"kernel": kern, "obligation": name, "detail": r.get("detail")})
    out["wall_s"] = round(time.time() - t0, 2)
    out["_prop"] = prop
    return out


def write_replay(pid, v, ob, r):
    d = os.path.join(os.environ.get("CXXVC_REPLAY_DIR", os.path.join(VERIF, "replays")), pid)
    os.makedirs(d, exist_ok=True)
    path = os.path.join(d, slug("%s__%s" % (v["kernel"], v["obligation"])) + ".json")
    k = ob.kobj
    rec = {"property": pid, "kernel": v["kernel"], "obligation": v["obligation"], "kind": v["kind"],
           "source": getattr(k, "src", None), "line": v["line"], "note": v["note"],
           "solver": v["solver"], "counter_model": v["model"], "path": v["path"],
           "smt2_sha256": hashlib.sha256((getattr(ob, "smt2", None) or solve.to_smt2(ob.hyps, ob.claim)).encode()).hexdigest(),
           "native": None, "verdict": None}
    native = None
    try:
        native = k.native_replay(ob, r)
    except Exception as ex:  # replay problems never turn into a verdict
        native = {"status": "harness-error", "detail": repr(ex)}
    rec["native"] = native
    if native and native.get("status") == "confirmed":
        rec["verdict"] = "violation confirmed on the real code"
    elif native and native.get("status") == "not-reproduced":
        rec["verdict"] = "obligation fails; the counter-model's entry state did not fail natively"
    elif native:
        rec["verdict"] = "obligation fails; native replay %s: %s" % (native.get("status"), native.get("detail", ""))
    else:
        rec["verdict"] = "obligation fails; no native replay for this kernel"
    with open(path, "w") as fh:
        json.dump(rec, fh, indent=1, default=str)
    return path, rec


def evidence(out, seed):
    prop = out["_prop"]
    pid = out["pid"]
    level = prop["level"]
    cov = {
        "obligations": out["obligations"], "discharged": out["discharged"],
        "obligation_instances": out["instances"],
        "checker_cmd": "./check %s --tier %s" % (pid, out["tier"]),
        "trusted_base": prop.get("trusted_base", []) + COMMON_TRUSTED,
        "samples": out["samples"] or [{"note": "no obligation discharged"}],
        "functions_under_contract": out["functions"],
        "solver_time_s": out["solver_time"],
        "bounded": out["bounded"],
        "not_decided": prop.get("not_decided", []),
        "known_findings_matched": [{"kernel": v["kernel"], "obligation": v["obligation"],
                                    "finding": v["known"].get("id"), "counter_model": v.get("model"), "inputs": v.get("inputs")} for v in out["known"]],
        "obligations_refuted_as_known_finding": len(out["known"]),
        "undecided": out["undecided"], "gaps": out["gaps"],
        "extract_s": out.get("extract_s"),
        "tree_hash": extract.tree_hash(),
    }
    if level != "proof":
        # exploration-style keys measured from the run: symbolic paths explored and
        # the distinct non-trivial ones (paths that produced at least one non-trivial obligation)
        paths = sum(f.get("paths", 0) for f in out["functions"])
        cov["evaluations"] = max(paths + out.get("native_inputs", 0), 1)
        cov["distinct_nontrivial"] = out["obligations"]
        cov["rule"] = ("evaluations = symbolic paths through the kernels plus inputs run by the native bounded stand-ins; distinct_nontrivial = distinct named "
                       "obligations generated from them (each is a different (kernel, clause) pair)")
    ev = {"property_id": pid, "tier": out["tier"], "seed": seed, "level": level, "coverage": cov,
          "assumptions": prop.get("assumptions", []), "wall_s": out.get("wall_s", 0.0),
          "violations": len(out["violations"])}
    evd = os.environ.get("CXXVC_EVIDENCE_DIR", os.path.join(VERIF, "evidence"))
    os.makedirs(evd, exist_ok=True)
    with open(os.path.join(evd, pid + ".json"), "w") as fh:
        json.dump(ev, fh, indent=1, default=str)


COMMON_TRUSTED = [
    "cxxvc itself (home-built VC generator, /verif/cxxvc): clang-14 JSON AST -> symbolic paths -> z3",
    "clang-14's AST is the program (templates instantiated by clang; code under disabled #if is not seen)",
    "integers are mathematical; unsigned subtraction/decrement carries a no-underflow obligation, addition is assumed not to wrap",
    "DateTime/TimeDelta are int64 microsecond counts treated as mathematical integers in [0, MAX_DT]",
    "std containers follow the models in cxxvc/models.py and do not throw (bad_alloc ignored)",
    "sequential semantics; no data races; object lifetime not modelled beyond null/iterator obligations",
    "z3 4.x / cvc5 soundness",
]


def main(argv=None):
    ap = argparse.ArgumentParser()
    ap.add_argument("pid")
    ap.add_argument("--tier", default=os.environ.get("VERIF_TIER", "quick"))
    ap.add_argument("--replay")
    a = ap.parse_args(argv)
    seed = int(os.environ.get("VERIF_SEED", "0") or 0)
    sys.path.insert(0, VERIF)
    if a.replay:
        from . import replaycmd
        return replaycmd.main(a.pid, a.replay)
    try:
        out = run_property(a.pid, a.tier, seed)
    except Exception:
        traceback.print_exc()
        print("RESULT property=%s exit=3 (internal error)" % a.pid)
        return 3
    code = 0
    for v in out["known"]:
        print("KNOWN-FINDING: property=%s %s: %s" % (a.pid, v["known"].get("id"), v["known"].get("what")))
    vio_paths = []
    for v, ob, r in out["violations"]:
        path, rec = write_replay(a.pid, v, ob, r)
        tail = "" if (rec["native"] or {}).get("status") == "confirmed" else " no-failing-input-found"
        print("violated obligation: kernel=%s obligation=%s (%s)" % (v["kernel"], v["obligation"], rec["verdict"]))
        vio_paths.append((path, tail))
    out["violations"] = [v for v, _, _ in out["violations"]]
    for nv in out.get("native_violations", []):
        d = os.path.join(os.environ.get("CXXVC_REPLAY_DIR", os.path.join(VERIF, "replays")), a.pid)
        os.makedirs(d, exist_ok=True)
        path = os.path.join(d, slug(nv["kernel"]) + ".json")
        with open(path, "w") as fh:
            json.dump({"property": a.pid, "kernel": nv["kernel"], "obligation": nv["title"], "kind": "bounded-native",
                       "failing_input": nv["failing_input"], "replay": nv["replay_cmd"], "harness": nv["source"],
                       "verdict": "violation observed on the real compiled code for this input"}, fh, indent=1)
        print("violated bounded check: kernel=%s input: %s" % (nv["kernel"], nv["failing_input"]))
        vio_paths.append((path, ""))
        out["violations"].append({"kernel": nv["kernel"], "obligation": nv["title"], "failing_input": nv["failing_input"]})
    evidence(out, seed)
    for path, tail in vio_paths:
        print("VIOLATION property=%s replay=%s%s" % (a.pid, path, tail))
    if vio_paths:
        code = 1
    elif out["gaps"]:
        code = 3
    elif out["undecided"]:
        code = 2
    elif out["obligations"] == 0:
        code = 3
    for g in out["gaps"]:
        print("GAP kernel=%s %s" % (g["kernel"], g["reason"]))
    for u in out["undecided"]:
        print("UNDECIDED kernel=%s obligation=%s %s" % (u["kernel"], u["obligation"], u["detail"]))
    print("RESULT property=%s tier=%s kernels=%d obligations=%d discharged=%d instances=%d violations=%d "
          "known=%d undecided=%d gaps=%d wall=%.1fs exit=%d" % (
              a.pid, a.tier, len(out["functions"]), out["obligations"], out["discharged"], out["instances"],
              len(out["violations"]), len(out["known"]), len(out["undecided"]), len(out["gaps"]),
              out.get("wall_s", 0.0), code))
    return code


if __name__ == "__main__":
    sys.exit(main())
