"""Discharging obligations.

1. prove:   z3 on  axioms /\\ hyps /\\ not claim   (unsat = discharged), cvc5 on z3's `unknown`
2. refute:  the same formula with every quantifier expanded over a small finite
            universe and every free Int constant bounded to it; `sat` gives a
            concrete counter-model of the real function's encoded semantics
3. neither: undecided -- never a pass, never a violation
"""
import os
import subprocess
import tempfile
import time
from concurrent.futures import ProcessPoolExecutor

import z3

from .interp import MAX_DT, MAX_DT_VALUE

# symbolic constants with one value in proof mode and a scaled-down value in the finite scope
INVALID_CURSOR = z3.Int("INVALID_CURSOR")
SPECIAL = {"MAX_DT": (MAX_DT, MAX_DT_VALUE, lambda lo, hi: hi),
           "INVALID_CURSOR": (INVALID_CURSOR, 2 ** 64 - 1, lambda lo, hi: hi + 2),
           "NPOS": (z3.Int("NPOS"), 2 ** 64 - 1, lambda lo, hi: hi + 2)}

PROVE_MS = int(os.environ.get("CXXVC_PROVE_MS", "20000"))
QUICK_MS = int(os.environ.get("CXXVC_QUICK_MS", "4000"))
REFUTE_MS = int(os.environ.get("CXXVC_REFUTE_MS", "20000"))
CVC5_BIN = "/usr/bin/cvc5"


def to_smt2(hyps, claim, extra=()):
    s = z3.Solver()
    for h in hyps:
        s.add(h)
    for h in extra:
        s.add(h)
    s.add(z3.Not(claim))
    return s.to_smt2()


def _parse(smt2):
    s = z3.Solver()
    s.from_string(smt2)
    return list(s.assertions())


def _expand(e, uni, cache):
    """expand quantifiers over the finite universe `uni` (list of ints)"""
    key = e.get_id()
    if key in cache:
        return cache[key][1]
    if z3.is_quantifier(e):
        n = e.num_vars()
        body = e.body()
        if e.is_lambda():
            raise ValueError("lambda")
        sorts = [e.var_sort(i) for i in range(n)]
        insts = []
        import itertools
        doms = []
        for srt in sorts:
            if srt == z3.IntSort():
                doms.append([z3.IntVal(v) for v in uni])
            elif srt == z3.BoolSort():
                doms.append([z3.BoolVal(False), z3.BoolVal(True)])
            else:
                raise ValueError("quantifier over sort %s" % srt)
        for combo in itertools.product(*doms):
            # de Bruijn: variable 0 is the LAST bound variable
            inst = z3.substitute_vars(body, *reversed(combo))
            insts.append(_expand(inst, uni, cache))
        r = z3.And(*insts) if e.is_forall() else z3.Or(*insts)
    elif z3.is_app(e) and e.num_args() > 0:
        ch = [_expand(c, uni, cache) for c in e.children()]
        r = e.decl()(*ch) if not (z3.is_and(e) or z3.is_or(e)) else (z3.And(*ch) if z3.is_and(e) else z3.Or(*ch))
    else:
        r = e
    cache[key] = (e, r)  # keep `e` alive: z3 reuses ids of collected ASTs
    return r


def _free_consts(e, acc, seen):
    if e.get_id() in seen:
        return
    seen.add(e.get_id())
    if z3.is_quantifier(e):
        _free_consts(e.body(), acc, seen)
        return
    if z3.is_app(e):
        if e.num_args() == 0 and e.decl().kind() == z3.Z3_OP_UNINTERPRETED:
            acc[str(e)] = e
        for c in e.children():
            _free_consts(c, acc, seen)


def _model_dict(m):
    out = {}
    for d in m.decls():
        try:
            out[d.name()] = str(m[d])
        except Exception:
            out[d.name()] = "?"
    return out


def work(job):
    """runs in a worker process.  job = dict(id, smt2, scope, prove_ms, refute_ms, want_refute)"""
    t0 = time.time()
    res = {"id": job["id"], "status": None, "solver": None, "time_s": 0.0, "model": None, "detail": ""}
    smt2 = job["smt2"]
    try:
        asserts = _parse(smt2)
    except Exception as ex:  # pragma: no cover
        res.update(status="error", detail="parse: %r" % (ex,))
        return res
    # ---- prove
    s = z3.Solver()
    s.set("timeout", job.get("prove_ms", PROVE_MS))
    if job.get("seed"):
        s.set("random_seed", int(job["seed"]))
    for a in asserts:
        s.add(a)
    for nm, (c, real, _) in SPECIAL.items():
        s.add(c == real)
    r = s.check()
    res["time_s"] = round(time.time() - t0, 4)
    if r == z3.unsat:
        res.update(status="discharged", solver="z3")
        return res
    if job.get("mode") == "prove":
        res.update(status="undecided", detail="phase A: %s" % r)
        return res
    proof_model = None
    if r == z3.sat:
        # quantifier-free or MBQI-complete: genuine counter-model already
        try:
            proof_model = _model_dict(s.model())
        except Exception:
            proof_model = None
    else:
        # try cvc5 on unknown
        c = cvc5_check(smt2, job.get("prove_ms", PROVE_MS))
        if c == "unsat":
            res.update(status="discharged", solver="cvc5", time_s=round(time.time() - t0, 4))
            return res
    if not job.get("want_refute", True):
        res.update(status="undecided" if proof_model is None else "refuted", solver="z3", model=proof_model,
                   detail="z3: %s" % r)
        return res
    # ---- refute over a finite scope
    scope = job.get("scope") or {}
    lo, hi = scope.get("lo", 0), scope.get("hi", 4)
    last = None
    for (lo_, hi_) in [(lo, hi)] + list(scope.get("more", [])):
        uni = list(range(lo_ - 2, hi_ + 3))
        try:
            cache = {}
            ex = [_expand(a, uni, cache) for a in asserts]
        except ValueError as ve:
            res.update(status="undecided", detail="finite expansion failed: %s" % ve)
            return res
        s2 = z3.Solver()
        s2.set("timeout", job.get("refute_ms", REFUTE_MS))
        consts = {}
        seen = set()
        for a in ex:
            s2.add(a)
            _free_consts(a, consts, seen)
        for nm, c in consts.items():
            if c.sort() == z3.IntSort() and nm not in SPECIAL:
                s2.add(c >= lo_ - 1, c <= hi_ + 1)
            elif z3.is_array(c):
                # array contents stay inside the universe as well (values and nested values)
                def bound(term, srt):
                    if srt == z3.IntSort():
                        s2.add(term >= lo_ - 2, term <= hi_ + 2)
                    elif isinstance(srt, z3.ArraySortRef) and srt.domain() == z3.IntSort():
                        for v in uni:
                            bound(term[v], srt.range())
                bound(c, c.sort())
        for nm, (c, _, scaled) in SPECIAL.items():
            s2.add(c == scaled(lo_, hi_))
        r2 = s2.check()
        last = r2
        if r2 == z3.sat:
            m = s2.model()
            res.update(status="refuted", solver="z3-finite-scope[%d..%d]" % (lo_, hi_), model=_model_dict(m),
                       time_s=round(time.time() - t0, 4))
            return res
    if proof_model is not None:
        res.update(status="refuted", solver="z3", model=proof_model, time_s=round(time.time() - t0, 4))
        return res
    res.update(status="undecided", detail="prove: %s, finite scope: %s" % (r, last), time_s=round(time.time() - t0, 4))
    return res


def cvc5_check(smt2, ms):
    if not os.path.exists(CVC5_BIN):
        return "unknown"
    with tempfile.NamedTemporaryFile("w", suffix=".smt2", delete=False) as fh:
        fh.write("(set-logic ALL)\n")
        fh.write("(define-fun MAX_DT_fix () Bool (= MAX_DT %d))\n" % MAX_DT_VALUE if False else "")
        fixes = ""
        for nm, (c, real, _) in SPECIAL.items():
            if ("declare-fun %s " % nm) in smt2:
                fixes += "(assert (= %s %d))\n" % (nm, real)
        fh.write(smt2.replace("(check-sat)", fixes + "(check-sat)"))
        path = fh.name
    try:
        p = subprocess.run([CVC5_BIN, "--lang=smt2", "--tlimit=%d" % ms, path], capture_output=True, text=True,
                           timeout=ms / 1000.0 + 5)
        out = p.stdout.strip().splitlines()
        return out[0].strip() if out else "unknown"
    except Exception:
        return "unknown"
    finally:
        try:
            os.unlink(path)
        except OSError:
            pass


class HardPool:
    """N worker processes fed one job at a time.  z3's own timeout is not honoured inside some of its loops (seen: array
    extensionality under model-based quantifier instantiation spinning for 30 minutes on an obligation that normally takes
    milliseconds), so every job also has a wall-clock limit: a worker that overruns it is killed and replaced, and the job is
    retried with another solver seed; a job that never returns is 'undecided' -- never a pass, never a violation."""

    def __init__(self, n):
        import multiprocessing as mp
        self.mp = mp.get_context("fork")
        self.n = max(1, n)
        self.workers = []

    @staticmethod
    def _loop(conn):
        while True:
            try:
                job = conn.recv()
            except EOFError:
                return
            if job is None:
                return
            try:
                r = work(job)
            except Exception as ex:  # pragma: no cover
                r = {"id": job["id"], "status": "error", "solver": None, "time_s": 0.0, "model": None, "detail": "worker: %r" % (ex,)}
            conn.send(r)

    def _spawn(self):
        a, b = self.mp.Pipe()
        p = self.mp.Process(target=HardPool._loop, args=(b,), daemon=True)
        p.start()
        b.close()
        return {"proc": p, "conn": a, "job": None, "t0": 0.0}

    def map(self, jobs, hard_s):
        import multiprocessing.connection as mpc
        jobs = list(jobs)
        results = {}
        pending = list(range(len(jobs)))[::-1]
        tries = {}
        while len(self.workers) < min(self.n, max(1, len(jobs))):
            self.workers.append(self._spawn())
        busy = 0
        while pending or busy:
            for w in self.workers:
                if w["job"] is None and pending:
                    i = pending.pop()
                    j = dict(jobs[i])
                    if tries.get(i):
                        j["seed"] = tries[i]
                    w["job"], w["t0"] = i, time.time()
                    w["conn"].send(j)
                    busy += 1
            ready = mpc.wait([w["conn"] for w in self.workers if w["job"] is not None], timeout=1.0)
            now = time.time()
            for k, w in enumerate(self.workers):
                if w["job"] is None:
                    continue
                i = w["job"]
                if w["conn"] in ready:
                    try:
                        results[i] = w["conn"].recv()
                    except (EOFError, OSError):
                        results[i] = {"id": jobs[i]["id"], "status": "undecided", "solver": None, "time_s": round(now - w["t0"], 1),
                                      "model": None, "detail": "solver process died"}
                        w["proc"].kill()
                        self.workers[k] = self._spawn()
                        w = self.workers[k]
                    w["job"] = None
                    busy -= 1
                elif now - w["t0"] > hard_s:
                    w["proc"].kill()
                    w["proc"].join(1)
                    self.workers[k] = self._spawn()
                    busy -= 1
                    tries[i] = tries.get(i, 0) + 1
                    if tries[i] <= 2:
                        pending.append(i)       # retry with another seed
                    else:
                        results[i] = {"id": jobs[i]["id"], "status": "undecided", "solver": None, "time_s": round(now - w["t0"], 1),
                                      "model": None, "detail": "solver did not return within the hard limit of %ds (3 seeds)" % hard_s}
        return [results[i] for i in range(len(jobs))]

    def shutdown(self):
        for w in self.workers:
            try:
                w["conn"].send(None)
            except Exception:
                pass
        for w in self.workers:
            w["proc"].join(0.5)
            if w["proc"].is_alive():
                w["proc"].kill()
        self.workers = []


def discharge_all(obligs, scope=None, jobs=16, want_refute=True, second_solver=False, scopes=None):
    """obligs: list of interp.Obligation.  Returns list of result dicts (same order).

    Phase A proves every (unique) query with a short budget; phase B gives the ones left the full
    budget plus finite-scope refutation, one obligation name at a time, stopping a name at its first
    refuted instance (the remaining instances of that name are reported as 'skipped-after-refutation')."""
    jl = []
    for i, ob in enumerate(obligs):
        if hasattr(ob, "smt2"):
            if ob.smt2 is None:
                jl.append(None)
                continue
            smt2 = ob.smt2
        else:
            s = ob.claim if z3.is_quantifier(ob.claim) else z3.simplify(ob.claim)
            if z3.is_true(s):
                jl.append(None)
                continue
            smt2 = to_smt2(ob.hyps, ob.claim)
        jl.append({"id": i, "smt2": smt2, "scope": scopes[i] if scopes else scope,
                   "want_refute": want_refute, "name": (getattr(ob, "kernel", ""), ob.name)})
    first = {}
    dup = {}
    for j in jl:
        if j is None:
            continue
        key = hash(j["smt2"])
        if key in first and first[key]["smt2"] == j["smt2"]:
            dup[j["id"]] = first[key]["id"]
        else:
            first[key] = j
    todo = [j for j in jl if j is not None and j["id"] not in dup]
    results = [None] * len(obligs)
    for i, j in enumerate(jl):
        if j is None:
            results[i] = {"id": i, "status": "discharged", "solver": "simplifier", "time_s": 0.0, "model": None,
                          "detail": "trivial"}
    if todo:
        ex = HardPool(jobs) if jobs > 1 else None
        hard_a = 3 * QUICK_MS / 1000.0 + 20
        hard_b = (2 * PROVE_MS + REFUTE_MS * (1 + len((scope or {}).get("more", [])))) / 1000.0 + 60
        try:
            # ---- phase A
            a_jobs = [dict(j, mode="prove", prove_ms=QUICK_MS) for j in todo]
            if ex is not None:
                ares = ex.map(a_jobs, hard_a)
            else:
                ares = [work(j) for j in a_jobs]
            left = []
            for j, r in zip(todo, ares):
                if r["status"] == "discharged":
                    results[j["id"]] = r
                else:
                    left.append(j)
            # ---- phase B
            groups = {}
            for j in left:
                groups.setdefault(j["name"], []).append(j)
            pending = {nm: list(js) for nm, js in groups.items()}
            refuted = set()
            while any(pending.values()):
                batch = []
                for nm, js in pending.items():
                    if nm in refuted:
                        continue
                    batch += js[:2]
                    pending[nm] = js[2:]
                for nm in refuted:
                    for j in pending.get(nm, []):
                        results[j["id"]] = {"id": j["id"], "status": "skipped-after-refutation", "solver": None,
                                            "time_s": 0.0, "model": None, "detail": "same obligation already refuted"}
                    pending[nm] = []
                if not batch:
                    break
                b_jobs = [dict(j, mode="full") for j in batch]
                bres = ex.map(b_jobs, hard_b) if ex is not None else [work(j) for j in b_jobs]
                for j, r in zip(batch, bres):
                    results[j["id"]] = r
                    if r["status"] == "refuted":
                        refuted.add(j["name"])
            for nm in refuted:
                for j in pending.get(nm, []):
                    results[j["id"]] = {"id": j["id"], "status": "skipped-after-refutation", "solver": None,
                                        "time_s": 0.0, "model": None, "detail": "same obligation already refuted"}
        finally:
            if ex is not None:
                ex.shutdown()
    for i, src in dup.items():
        r = dict(results[src])
        r["id"] = i
        r["dup_of"] = src
        results[i] = r
    if second_solver:
        for i, j in enumerate(jl):
            if j is None or results[i]["status"] != "discharged" or i in dup:
                continue
            c = cvc5_check(j["smt2"], PROVE_MS)
            results[i]["cvc5"] = c
    return results
