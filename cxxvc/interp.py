"""cxxvc symbolic interpreter: forward symbolic execution of clang's JSON AST.

One *path* at a time (re-execution with a decision oracle).  Loops are cut at
their invariant, callees are replaced by contracts (Python handlers that
assert `pre`, havoc the frame and assume `post`), scope guards run on both
exits.  Anything the interpreter or the contract file does not classify is an
extraction gap (class Gap) -- never skipped, never counted as discharged.
"""
import itertools
import re

import z3

from . import extract

# Time constants (include/hgraph/util/date_time.h).  MAX_DT is a symbol so that the
# finite-scope refutation can scale it down; proof mode fixes it to its real value.
MAX_DT_VALUE = 10413792000000000  # 2300-01-01T00:00:00 in microseconds since the epoch
MIN_DT = z3.IntVal(0)
MIN_TD = z3.IntVal(1)
MIN_ST = z3.IntVal(1)
MAX_DT = z3.Int("MAX_DT")
MAX_ET = MAX_DT - 1

GLOBAL_CONSTS = {"MIN_DT": MIN_DT, "MIN_TD": MIN_TD, "MIN_ST": MIN_ST, "MAX_DT": MAX_DT, "MAX_ET": MAX_ET}


class Gap(Exception):
    """extraction gap: construct / callee / lvalue not classified."""


class Impure(Exception):
    """raised inside a speculative (pure-mode) evaluation when the expression has an effect"""


class PathEnd(Exception):
    """path cut (infeasible, or end of a loop body after the invariant was re-asserted)."""


class ReturnEx(Exception):
    def __init__(self, value):
        self.value = value


class BreakEx(Exception):
    pass


class ContinueEx(Exception):
    pass


class ThrowEx(Exception):
    def __init__(self, exc):
        self.exc = exc


# ------------------------------------------------------------------ values

class Void:
    def __repr__(self):
        return "void"


VOID = Void()
DEFAULT_ARG = Void()  # a defaulted argument whose expression clang does not print (allocators etc.)


class Loc:
    """A storage location holding a scalar (z3 term) or a value object."""
    __slots__ = ("key", "const")

    def __init__(self, key, const=False):
        self.key = key
        self.const = const

    def __repr__(self):
        return "Loc(%r)" % (self.key,)


class ArrLoc(Loc):
    """element `index` of an array-valued location (z3 Array term stored under key)"""
    __slots__ = ("index",)

    def __init__(self, key, index):
        Loc.__init__(self, key)
        self.index = index

    def __repr__(self):
        return "ArrLoc(%r,%s)" % (self.key, self.index)


class Obj:
    """An object whose mutable fields live in the store under (oid, field)."""
    _ids = itertools.count(1)
    cls = "obj"

    def __init__(self, cls=None, name=None):
        self.oid = next(Obj._ids)
        if cls:
            self.cls = cls
        self.name = name or ("%s#%d" % (self.cls, self.oid))

    def loc(self, field):
        return Loc((self.oid, field))

    # default hooks; model classes override
    def member(self, ctx, name, node):
        return self.loc(name)

    def __repr__(self):
        return "<%s>" % self.name


class Ptr:
    """pointer to a known object, with a symbolic null flag"""

    def __init__(self, target, null=None):
        self.target = target
        self.null = z3.BoolVal(target is None) if null is None else null

    def __repr__(self):
        return "Ptr(%r,null=%s)" % (self.target, self.null)


class AnyPtr(Ptr):
    """a pointer about which nothing is known (an unmodelled field): every comparison is unconstrained"""

    def __init__(self, ctx, name):
        Ptr.__init__(self, Obj("unknown", name), ctx.fresh(name + "_null", "bool"))
        self.ctx = ctx


class Pair:
    def __init__(self, first, second):
        self.first = first
        self.second = second

    def member(self, ctx, name, node):
        if name == "first":
            return self.first
        if name == "second":
            return self.second
        raise Gap("pair member %s" % name)

    def __repr__(self):
        return "Pair(%s,%s)" % (self.first, self.second)


class Opt:
    """std::optional<T> as (has, value)"""

    def __init__(self, has, value):
        self.has = has
        self.value = value


class OpaqueFn:
    """a local lambda the contract declares irrelevant (message formatting): calling it yields an opaque token"""
    is_value = True

    def __init__(self, name):
        self.name = name

    def havoc(self, ctx, name):
        return self

    def call(self, I, args, n):
        return I.ctx.fresh(self.name + "_result")


class InitList(list):
    """a braced list of values (array temporary behind std::initializer_list)"""


class Closure:
    def __init__(self, node, frame, this=None):
        self.node = node
        self.frame = frame


class ExcVal:
    """a C++ exception object: class name is concrete when thrown by the body
    itself, 'unknown' when it comes out of an opaque callee"""

    def __init__(self, cls, what=None, origin=None, tags=None):
        self.cls = cls
        self.what = what
        self.origin = origin
        self.tags = dict(tags or {})

    def what_term(self, ctx):
        """an opaque identifier of this exception's message (what())"""
        if "what_id" not in self.tags:
            w = self.what if isinstance(self.what, z3.ExprRef) else None
            self.tags["what_id"] = w if w is not None else ctx.fresh("what_id")
        return self.tags["what_id"]

    def __repr__(self):
        return "Exc(%s from %s)" % (self.cls, self.origin)


STD_EXC_BASES = {
    "std::logic_error": "std::exception", "std::runtime_error": "std::exception",
    "std::invalid_argument": "std::logic_error", "std::out_of_range": "std::logic_error",
    "std::domain_error": "std::logic_error", "std::length_error": "std::logic_error",
    "std::range_error": "std::runtime_error", "std::overflow_error": "std::runtime_error",
    "std::bad_alloc": "std::exception", "std::exception": None,
}


def exc_is_a(cls, base):
    c = cls
    while c is not None:
        if c == base:
            return True
        c = STD_EXC_BASES.get(c)
    return False


class Frame:
    def __init__(self, fn, this=None, parent=None):
        self.fn = fn
        self.this = this
        self.parent = parent  # lexical parent (for lambdas capturing by reference)
        self.vars = {}  # decl id -> Loc or value (for references / objects)
        self.fid = next(Obj._ids)

    def lookup(self, did):
        f = self
        while f is not None:
            if did in f.vars:
                return f.vars[did]
            f = f.parent
        return None


class Obligation:
    def __init__(self, name, kind, hyps, claim, line=None, note=None):
        self.name = name
        self.kind = kind
        self.hyps = hyps
        self.claim = claim
        self.line = line
        self.note = note
        self.path = None


def has_quantifier(e, _seen=None):
    if _seen is None:
        _seen = set()
    if e.get_id() in _seen:
        return False
    _seen.add(e.get_id())
    if z3.is_quantifier(e):
        return True
    return any(has_quantifier(c, _seen) for c in e.children())


def strip_type(qt):
    qt = qt.strip()
    qt = re.sub(r"^(const|volatile)\s+", "", qt)
    qt = re.sub(r"\s+(const|volatile)$", "", qt)
    qt = qt.rstrip("&").strip()
    qt = re.sub(r"\s+(const|volatile)$", "", qt)
    qt = re.sub(r"^(const|volatile)\s+", "", qt)
    return qt


UNSIGNED = {"std::size_t", "size_t", "unsigned long", "unsigned int", "unsigned", "std::uint64_t", "uint64_t",
            "std::uint32_t", "uint32_t", "unsigned long long", "std::uint8_t", "uint8_t", "std::uint16_t",
            "unsigned char", "unsigned short", "std::vector::size_type", "size_type"}
SIGNED = {"int", "long", "long long", "std::int64_t", "int64_t", "std::int32_t", "int32_t", "short", "char",
          "std::ptrdiff_t", "ptrdiff_t", "std::int8_t", "std::int16_t", "Int", "hgraph::Int", "std::chrono::duration::rep",
          "rep"}


def type_of(node):
    t = node.get("type") or {}
    return t.get("qualType", "")


def desugared(node):
    t = node.get("type") or {}
    return t.get("desugaredQualType", t.get("qualType", ""))


def is_unsigned_type(qt):
    return strip_type(qt) in UNSIGNED


def is_time_type(qt):
    s = strip_type(qt)
    return s in ("DateTime", "hgraph::DateTime", "TimeDelta", "hgraph::TimeDelta", "engine_time_t", "engine_time_delta_t") \
        or s.startswith("std::chrono::time_point<") or s.startswith("std::chrono::duration<") \
        or s.startswith("time_point<") or s.startswith("duration<") or s in ("std::chrono::microseconds",)


def is_bool_type(qt):
    return strip_type(qt) == "bool"


def is_int_type(qt):
    s = strip_type(qt)
    return s in UNSIGNED or s in SIGNED


# ------------------------------------------------------------------ context


class Ctx:
    """One symbolic path."""

    def __init__(self, kernel, decisions):
        self.kernel = kernel
        self.decisions = list(decisions)
        self.dpos = 0
        self.new_alternatives = []
        self.store = {}
        self.hyps = []  # path condition + assumptions
        self.obligs = []
        self.solver = z3.Solver()
        self.solver.set("timeout", kernel.feas_timeout_ms)
        self.uncaught = 0
        self.handler_stack = []  # exceptions being handled (for `throw;`)
        self.frames = []
        self.fresh_n = itertools.count()
        self.loop_ordinal = 0
        self.loop_frames = []  # active loop body frames (for frame checking)
        self.trace = []
        self.ghost = {}
        self.loops_seen = {}
        self.notes = []
        self.inline_depth = 0
        self.dead = False
        self.pure_depth = 0
        self.loop_entry = {}

    # -- symbols
    def fresh(self, name, sort=None):
        n = "%s!%d" % (name, next(self.fresh_n))
        if sort is None or (isinstance(sort, str) and sort == "int"):
            return z3.Int(n)
        if isinstance(sort, str) and sort == "bool":
            return z3.Bool(n)
        return z3.Const(n, sort)

    # -- store
    def load(self, loc):
        if loc.key not in self.store:
            raise Gap("read of unmapped location %r" % (loc.key,))
        if isinstance(loc, ArrLoc):
            return self.store[loc.key][loc.index]
        return self.store[loc.key]

    def write(self, loc, v):
        if self.pure_depth:
            raise Impure()
        for lf in self.loop_frames:
            if lf is not None:
                lf.note_write(self, loc)
        h = getattr(loc, "on_write", None)
        if h is not None:
            h(self, v)           # ghost instrumentation attached to a container model (e.g. last-written position of a value)
        if isinstance(loc, ArrLoc):
            self.store[loc.key] = z3.Store(self.store[loc.key], loc.index, v)
        else:
            self.store[loc.key] = v

    def rv(self, x):
        return self.load(x) if isinstance(x, Loc) else x

    # -- path condition
    def assume(self, c):
        if self.pure_depth:
            raise Impure()
        if isinstance(c, bool):
            c = z3.BoolVal(c)
        c = z3.simplify(c) if not z3.is_quantifier(c) else c
        if z3.is_false(c):
            raise PathEnd()
        if z3.is_true(c):
            return
        self.hyps.append(c)
        self._feas_add(c)

    def _feas_add(self, c):
        # the feasibility solver only sees quantifier-free facts: it over-approximates
        # feasibility (extra paths carry contradictory hypotheses and discharge trivially)
        if not has_quantifier(c):
            self.solver.add(c)

    def feasible(self):
        r = self.solver.check()
        return r != z3.unsat

    def decide(self, cond, why=""):
        """fork on a symbolic boolean; returns the concrete choice for this path"""
        if isinstance(cond, bool):
            return cond
        c = z3.simplify(cond)
        if z3.is_true(c):
            return True
        if z3.is_false(c):
            return False
        if self.pure_depth:
            raise Impure()
        if self.dpos < len(self.decisions):
            ch = self.decisions[self.dpos]
            self.dpos += 1
            self.assume(c if ch else z3.Not(c))
            self.trace.append((why, ch))
            return ch
        # new decision point: check feasibility of both sides
        self.solver.push()
        self.solver.add(c)
        t_ok = self.solver.check() != z3.unsat
        self.solver.pop()
        self.solver.push()
        self.solver.add(z3.Not(c))
        f_ok = self.solver.check() != z3.unsat
        self.solver.pop()
        if not t_ok and not f_ok:
            raise PathEnd()
        if t_ok and f_ok:
            self.new_alternatives.append(self.decisions[:self.dpos] + [False])
            ch = True
        else:
            ch = t_ok
        self.decisions.append(ch)
        self.dpos += 1
        self.assume(c if ch else z3.Not(c))
        self.trace.append((why, ch))
        return ch

    def choose(self, n, why=""):
        """n-way nondeterministic choice (opaque callee outcomes); returns index"""
        for i in range(n - 1):
            b = self.fresh("choice_" + why.replace(" ", "_"), "bool")
            if self.decide(b, why + "#%d" % i):
                return i
        return n - 1

    # -- obligations
    def oblige(self, name, claim, kind="assert", line=None, note=None):
        if isinstance(claim, bool):
            claim = z3.BoolVal(claim)
        pid = getattr(self.kernel, "current_property", None)
        if pid is not None and "[" in name:
            # an obligation whose name carries property tags ("[C03 ...; C18 ...]") belongs to those properties only:
            # under another property it is neither asserted nor assumed (so it cannot mask anything)
            tags = set(re.findall(r"C\d\d", " ".join(re.findall(r"\[([^\]]*)\]", name))))
            if tags and pid not in tags:
                return
        if self.pure_depth:
            s0 = claim if z3.is_quantifier(claim) else z3.simplify(claim)
            if z3.is_true(s0):
                return
            raise Impure()
        s = claim if z3.is_quantifier(claim) else z3.simplify(claim)
        if not z3.is_true(s) and any(h.eq(claim) or h.eq(s) for h in self.hyps):
            claim = s = z3.BoolVal(True)
        ob = Obligation(name, kind, list(self.hyps), claim, line=line, note=note)
        ob.path = list(self.trace)
        self.obligs.append(ob)
        if not z3.is_true(s):
            # continue under the claim so one failure does not cascade
            self.hyps.append(claim)
            self._feas_add(claim)

    # -- frames
    @property
    def frame(self):
        return self.frames[-1]


class LoopFrame:
    def __init__(self, spec, ordinal):
        self.spec = spec
        self.ordinal = ordinal
        self.allowed = None

    def note_write(self, ctx, loc):
        # writes to locals declared inside the loop are always fine; heap writes must be in the frame
        k = loc.key
        if isinstance(k, tuple) and k and k[0] == "L":
            return
        if self.allowed is not None and k not in self.allowed:
            ctx.oblige("loop%s.frame" % self.ordinal, False, kind="frame",
                       note="write to %r outside the declared loop frame" % (k,))


# ------------------------------------------------------------------ interpreter


def kids(n):
    return [c for c in n.get("inner", ()) if isinstance(c, dict)]


def _as_bool01(v):
    if not isinstance(v, z3.ExprRef):
        return None
    if z3.is_bool(v):
        return v
    if z3.is_app(v) and v.decl().kind() == z3.Z3_OP_ITE and z3.is_int_value(v.arg(1)) and z3.is_int_value(v.arg(2)) \
            and v.arg(1).as_long() == 1 and v.arg(2).as_long() == 0:
        return v.arg(0)
    return None


class Interp:
    def __init__(self, kernel, ctx):
        self.k = kernel
        self.ctx = ctx

    # ---------------------------------------------------------- statements
    def exec_fn(self, fn, frame):
        ctx = self.ctx
        ctx.frames.append(frame)
        try:
            body = [c for c in kids(fn) if c["kind"] in ("CompoundStmt", "CXXTryStmt")]
            if not body:
                raise Gap("function %s has no body" % fn.get("name"))
            try:
                self.stmt(body[0])
            except ReturnEx as r:
                return r.value
            return VOID
        finally:
            ctx.last_frame = ctx.frames.pop()

    def stmt(self, n):
        k = n["kind"]
        m = getattr(self, "s_" + k, None)
        if m is None:
            # expression statement
            if k.endswith("Expr") or k.endswith("Operator") or k in ("ExprWithCleanups",) or k.endswith("Literal"):
                self.expr(n)
                return
            raise Gap("statement kind %s at line %s" % (k, extract.line_of(n)))
        return m(n)

    def s_NullStmt(self, n):
        return

    def s_CompoundStmt(self, n):
        ctx = self.ctx
        scope = []
        ctx.frame.scopes = getattr(ctx.frame, "scopes", [])
        ctx.frame.scopes.append(scope)
        try:
            try:
                for c in kids(n):
                    self.stmt(c)
            except ThrowEx:
                self.run_dtors(scope, unwinding=True)
                raise
            except (ReturnEx, BreakEx, ContinueEx):
                self.run_dtors(scope, unwinding=False)
                raise
            except PathEnd:
                raise
            else:
                self.run_dtors(scope, unwinding=False)
        finally:
            ctx.frame.scopes.pop()

    def run_dtors(self, scope, unwinding):
        # reverse declaration order; a destructor that throws during normal exit still
        # lets the remaining ones run (C++: they run as part of that new unwinding)
        pending = None
        while scope:
            obj = scope.pop()
            d = getattr(obj, "destroy", None)
            if d is None:
                continue
            try:
                d(self)
            except ThrowEx as t:
                if unwinding or pending is not None:
                    # a second exception during unwinding = std::terminate
                    self.ctx.oblige("no-terminate", False, kind="terminate",
                                    note="destructor of %r throws during unwinding" % obj)
                    raise PathEnd()
                pending = t
                unwinding = True
        if pending is not None:
            raise pending

    def s_DeclStmt(self, n):
        for d in kids(n):
            if d["kind"] == "VarDecl":
                self.var_decl(d)
            elif d["kind"] in ("TypedefDecl", "TypeAliasDecl", "StaticAssertDecl", "UsingDecl", "CXXRecordDecl",
                               "UsingDirectiveDecl"):
                continue
            elif d["kind"] == "DecompositionDecl":
                self.decomp_decl(d)
            else:
                raise Gap("declaration kind %s at line %s" % (d["kind"], extract.line_of(d)))

    def var_decl(self, d):
        ctx = self.ctx
        qt = type_of(d)
        init = [c for c in kids(d) if c["kind"] not in ("FullComment",) and not c["kind"].endswith("Attr")]
        is_ref = qt.rstrip().endswith("&")
        name = d.get("name", "_")
        if not init:
            v = self.k.default_value(self, qt, d)
            if v is None:
                raise Gap("uninitialised local %s of type %s (line %s)" % (name, qt, extract.line_of(d)))
        elif name in getattr(self.k, "opaque_lambdas", ()) and init[0].get("kind") in ("LambdaExpr", "ExprWithCleanups"):
            v = OpaqueFn(name)
        else:
            v = self.expr(init[0])
        if is_ref:
            # bind the reference: keep the Loc / object itself
            if not isinstance(v, Loc):
                v = self.materialize(v, name)
            ctx.frame.vars[d["id"]] = v
            return
        v = ctx.rv(v)
        v = self.k.on_local_init(self, d, v)
        if isinstance(v, (z3.ExprRef, Ptr, Pair, Opt, Closure, ExcVal)) or v is None or isinstance(v, Void) \
                or getattr(v, "is_value", False) or hasattr(v, "havoc"):
            loc = Loc(("L", ctx.frame.fid, d["id"], name))
            ctx.store[loc.key] = v
            ctx.frame.vars[d["id"]] = loc
        else:
            # object with identity (guards, containers, views)
            try:
                v.decl_name = name
            except AttributeError:
                pass
            ctx.frame.vars[d["id"]] = v
            if hasattr(v, "destroy"):
                ctx.frame.scopes[-1].append(v)

    def decomp_decl(self, d):
        # auto [a, b] = expr;  -> bindings
        ctx = self.ctx
        init = [c for c in kids(d) if c["kind"] != "BindingDecl"]
        binds = [c for c in kids(d) if c["kind"] == "BindingDecl"]
        v = ctx.rv(self.expr(init[0]))
        parts = self.k.decompose(self, v, len(binds))
        for b, p in zip(binds, parts):
            loc = Loc(("L", ctx.frame.fid, b["id"], b.get("name")))
            ctx.store[loc.key] = p
            ctx.frame.vars[b["id"]] = loc

    def materialize(self, v, name="tmp"):
        ctx = self.ctx
        if isinstance(v, (z3.ExprRef, Ptr, Pair, Opt, Closure)):
            loc = Loc(("L", ctx.frame.fid, "tmp%d" % next(ctx.fresh_n), name))
            ctx.store[loc.key] = v
            return loc
        return v

    def s_IfStmt(self, n):
        ctx = self.ctx
        ks = kids(n)
        # optional init statement / condition variable
        idx = 0
        if n.get("hasInit"):
            self.stmt(ks[0])
            idx = 1
        if n.get("hasVar"):
            self.stmt(ks[idx])  # DeclStmt of the condition variable
            idx += 1
        cond = ks[idx]
        then = ks[idx + 1]
        els = ks[idx + 2] if len(ks) > idx + 2 else None
        if n.get("isConstexpr") and cond["kind"] == "ConstantExpr" and "value" in cond:
            c = cond["value"] in ("true", "1")
        else:
            c = self.truth(self.expr(cond))
            c = ctx.decide(c, "if@%s" % extract.line_of(n))
        if c:
            self.stmt(then)
        elif els is not None:
            self.stmt(els)

    def truth(self, v):
        v = self.ctx.rv(v)
        if isinstance(v, bool):
            return z3.BoolVal(v)
        if isinstance(v, Ptr):
            return z3.Not(v.null)
        if isinstance(v, Opt):
            return v.has
        if z3.is_bool(v):
            return v
        if z3.is_int(v):
            return v != 0
        t = getattr(v, "truth", None)
        if t is not None:
            return t(self)
        raise Gap("truth value of %r" % (v,))

    def s_ReturnStmt(self, n):
        ks = kids(n)
        if not ks:
            raise ReturnEx(VOID)
        v = self.ctx.rv(self.expr(ks[0]))
        raise ReturnEx(v)

    def s_BreakStmt(self, n):
        raise BreakEx()

    def s_ContinueStmt(self, n):
        raise ContinueEx()

    # ---- loops
    def _loop(self, n, init, cond, inc, body, var_scan_nodes):
        """generic invariant-cut loop"""
        ctx = self.ctx
        ordinal = self.k.loop_ordinal_of(n, ctx)
        spec = self.k.loop_spec(ordinal, n)
        if spec is None:
            raise Gap("loop #%s at line %s has no invariant" % (ordinal, extract.line_of(n)))
        tag = "loop%s" % ordinal
        if init is not None:
            self.stmt(init)
        if spec.unroll is not None:
            return self._loop_unrolled(n, cond, inc, body, spec, tag)
        # 1. invariant holds on entry
        ctx.loop_entry[ordinal] = dict(ctx.store)
        for nm, cl in spec.inv(self, ctx):
            ctx.oblige("%s.init.%s" % (tag, nm), cl, kind="inv-init", line=extract.line_of(n))
        # 2. havoc what the loop may modify
        entry_store = dict(ctx.store)
        modified_locals = self.scan_modified_locals(var_scan_nodes)
        for did in modified_locals:
            b = ctx.frame.lookup(did)
            if isinstance(b, Loc) and b.key in ctx.store:
                old = ctx.store[b.key]
                ctx.store[b.key] = self.havoc_like(old, "h_" + str(b.key[-1]))
        allowed = set()
        for loc in spec.frame(self, ctx):
            old = ctx.store[loc.key]
            ctx.store[loc.key] = self.havoc_like(old, "h_" + str(loc.key[-1]))
            allowed.add(loc.key)
        spec.after_havoc(self, ctx, entry_store)
        for nm, cl in spec.inv(self, ctx):
            ctx.assume(cl)
        # 3. evaluate guard
        lf = LoopFrame(spec, ordinal)
        lf.allowed = allowed
        if cond is not None:
            ctx.loop_frames.append(lf)
            try:
                c = self.truth(self.expr(cond))
            finally:
                ctx.loop_frames.pop()
            go = ctx.decide(c, "%s.guard" % tag)
        else:
            go = ctx.decide(ctx.fresh("loop_enter", "bool"), "%s.enter" % tag)
        if not go:
            return  # exits with inv & !guard
        ctx.loop_frames.append(lf)
        broke = False
        try:
            try:
                self.stmt(body)
            except ContinueEx:
                pass
            except BreakEx:
                broke = True
            if not broke and inc is not None:
                self.expr(inc)
        finally:
            ctx.loop_frames.pop()
        if broke:
            return
        for nm, cl in spec.inv(self, ctx):
            ctx.oblige("%s.preserve.%s" % (tag, nm), cl, kind="inv-preserve", line=extract.line_of(n))
        if spec.variant is not None:
            pass
        raise PathEnd()

    def _loop_unrolled(self, n, cond, inc, body, spec, tag):
        ctx = self.ctx
        for i in range(spec.unroll + 1):
            if cond is not None:
                c = self.truth(self.expr(cond))
                go = ctx.decide(c, "%s.guard[%d]" % (tag, i))
            else:
                go = True
            if not go:
                return
            if i == spec.unroll:
                if getattr(spec, "unwind_assert", False):
                    # unwinding assertion: the bound is proved sufficient, so the unrolling is complete
                    ctx.oblige("%s.unwinding-assertion(%d iterations suffice)" % (tag, spec.unroll), False,
                               kind="unwinding", line=extract.line_of(n))
                else:
                    ctx.notes.append("bounded: %s unrolled %d times" % (tag, spec.unroll))
                raise PathEnd()
            try:
                self.stmt(body)
            except ContinueEx:
                pass
            except BreakEx:
                return
            if inc is not None:
                self.expr(inc)

    def havoc_like(self, old, name):
        ctx = self.ctx
        if isinstance(old, z3.ExprRef):
            return ctx.fresh(name, old.sort())
        if isinstance(old, Ptr):
            return old
        if isinstance(old, Pair):
            return Pair(self.havoc_like(old.first, name + "_1"), self.havoc_like(old.second, name + "_2"))
        if isinstance(old, Opt):
            return Opt(ctx.fresh(name + "_has", "bool"), self.havoc_like(old.value, name + "_v"))
        if old is None or isinstance(old, Void):
            return old
        hv = getattr(old, "havoc", None)
        if hv is not None:
            return hv(ctx, name)
        raise Gap("cannot havoc value %r" % (old,))

    def scan_modified_locals(self, nodes):
        """ids of variables that occur inside `nodes` other than as a plain rvalue read"""
        mod = set()

        def rec(n, parent_read):
            k = n.get("kind")
            if k == "DeclRefExpr":
                r = n.get("referencedDecl", {})
                if r.get("kind") in ("VarDecl", "ParmVarDecl", "BindingDecl") and not parent_read:
                    qt = r.get("type", {}).get("qualType", "")
                    readonly = qt.startswith("const ") and "*" not in qt      # const T / const T & : nothing to modify through it
                    if not readonly:
                        mod.add(r.get("id"))
                return
            read = False
            if k == "ImplicitCastExpr" and n.get("castKind") == "LValueToRValue":
                read = True
            elif k == "ImplicitCastExpr" and n.get("castKind") == "NoOp" and type_of(n).startswith("const "):
                read = True
            elif k == "MemberExpr":
                # field of a local struct: propagate the parent's read-ness
                read = parent_read
            for c in kids(n):
                if k == "LambdaExpr" and c.get("kind") == "DeclRefExpr":
                    continue  # capture list entry; uses inside the body are scanned below
                rec(c, read)

        for n in nodes:
            if n is not None:
                rec(n, False)
        return mod

    def s_WhileStmt(self, n):
        ks = kids(n)
        cond, body = ks[0], ks[1]
        return self._loop(n, None, cond, None, body, [cond, body])

    def s_ForStmt(self, n):
        ks = n.get("inner", [])
        # init, condvar, cond, inc, body  (empty dicts for missing parts)
        def part(i):
            p = ks[i]
            return p if isinstance(p, dict) and p.get("kind") else None
        init, cond, inc, body = part(0), part(2), part(3), part(4)
        scope = []
        self.ctx.frame.scopes = getattr(self.ctx.frame, "scopes", [])
        self.ctx.frame.scopes.append(scope)
        try:
            return self._loop(n, init, cond, inc, body, [cond, inc, body])
        finally:
            self.ctx.frame.scopes.pop()

    def s_SwitchStmt(self, n):
        """switch with fall-through: items of the body in order, entry at the first matching label"""
        ctx = self.ctx
        ks = kids(n)
        idx = 0
        if n.get("hasInit"):
            self.stmt(ks[0])
            idx = 1
        if n.get("hasVar"):
            self.stmt(ks[idx])
            idx += 1
        v = ctx.rv(self.expr(ks[idx]))
        body = ks[idx + 1]
        if body["kind"] != "CompoundStmt":
            raise Gap("switch body of kind %s" % body["kind"])
        items = []  # (labels: list of int or 'default', stmt)
        for c in kids(body):
            labels = []
            cur = c
            while cur["kind"] in ("CaseStmt", "DefaultStmt"):
                ck = kids(cur)
                if cur["kind"] == "CaseStmt":
                    lab = ck[0]
                    if lab.get("kind") != "ConstantExpr" or "value" not in lab:
                        raise Gap("case label without a constant value at line %s" % extract.line_of(cur))
                    labels.append(int(lab["value"]))
                    cur = ck[-1]
                else:
                    labels.append("default")
                    cur = ck[-1]
            items.append((labels, cur))
        start = None
        default_at = None
        for i, (labels, st) in enumerate(items):
            for lab in labels:
                if lab == "default":
                    default_at = i
                elif start is None and ctx.decide(v == lab, "case %s@%s" % (lab, extract.line_of(n))):
                    start = i
            if start is not None:
                break
        if start is None:
            start = default_at
        if start is None:
            return
        scope = []
        ctx.frame.scopes = getattr(ctx.frame, "scopes", [])
        ctx.frame.scopes.append(scope)
        try:
            try:
                for labels, st in items[start:]:
                    self.stmt(st)
            except BreakEx:
                pass
        finally:
            ctx.frame.scopes.pop()

    def s_DoStmt(self, n):
        raise Gap("do-while loop at line %s" % extract.line_of(n))

    def s_CXXForRangeStmt(self, n):
        """for (decl : range) == { range/begin/end decls; for (; begin != end; ++begin) { decl = *begin; body } }
        executed on the iterator models of the range's container"""
        h = self.k.range_for(self, n)
        if h is not NotImplemented:
            return h
        ks = n.get("inner", [])
        parts = [p if isinstance(p, dict) and p.get("kind") else None for p in ks]
        if len(parts) != 8:
            raise Gap("range-for shape (%d parts) at line %s" % (len(parts), extract.line_of(n)))
        init, rng, beg, end, cond, inc, var, body = parts
        scope = []
        self.ctx.frame.scopes = getattr(self.ctx.frame, "scopes", [])
        self.ctx.frame.scopes.append(scope)
        try:
            for d in (init, rng, beg, end):
                if d is not None:
                    self.stmt(d)
            wrapped = {"kind": "CompoundStmt", "inner": [var, body], "id": n.get("id", "") + ":body"}
            return self._loop(n, None, cond, inc, wrapped, [cond, inc, var, body])
        finally:
            self.ctx.frame.scopes.pop()

    # ---- exceptions
    def s_CXXTryStmt(self, n):
        ctx = self.ctx
        ks = kids(n)
        body = ks[0]
        handlers = ks[1:]
        try:
            self.stmt(body)
        except ThrowEx as t:
            exc = t.exc
            for h in handlers:
                hk = kids(h)
                decl = hk[0] if len(hk) == 2 else None
                hbody = hk[-1]
                matches = self.catch_matches(exc, decl)
                if matches:
                    ctx.uncaught -= 1
                    ctx.handler_stack.append(exc)
                    try:
                        if decl is not None and decl.get("kind") == "VarDecl" and decl.get("name"):
                            ctx.frame.vars[decl["id"]] = exc
                        self.stmt(hbody)
                    finally:
                        ctx.handler_stack.pop()
                    return
            raise

    def catch_matches(self, exc, decl):
        ctx = self.ctx
        if decl is None or decl.get("kind") != "VarDecl":
            return True  # catch (...)
        want = strip_type(type_of(decl))
        want = {"std::exception": "std::exception"}.get(want, want)
        if exc.cls == "unknown":
            key = "is_" + want
            if key not in exc.tags:
                exc.tags[key] = ctx.fresh("exc_" + want.replace(":", "_"), "bool")
            return ctx.decide(exc.tags[key], "catch %s" % want)
        return exc_is_a(exc.cls, want)

    # ---------------------------------------------------------- expressions
    def expr(self, n):
        k = n["kind"]
        m = getattr(self, "e_" + k, None)
        if m is None:
            raise Gap("expression kind %s at line %s" % (k, extract.line_of(n)))
        return m(n)

    def e_ParenExpr(self, n):
        return self.expr(kids(n)[0])

    e_ConstantExpr = e_ParenExpr
    e_ExprWithCleanups = e_ParenExpr
    e_MaterializeTemporaryExpr = e_ParenExpr
    e_CXXBindTemporaryExpr = e_ParenExpr
    e_SubstNonTypeTemplateParmExpr = e_ParenExpr
    e_CXXDefaultArgExpr = None

    def e_CXXDefaultArgExpr(self, n):
        ks = kids(n)
        if ks:
            return self.expr(ks[0])
        return DEFAULT_ARG

    def e_CXXDefaultInitExpr(self, n):
        ks = kids(n)
        if ks:
            return self.expr(ks[0])
        return DEFAULT_ARG  # clang does not print the initialiser: the contract's constructor model supplies the default

    def e_IntegerLiteral(self, n):
        return z3.IntVal(int(n["value"]))

    def e_CXXBoolLiteralExpr(self, n):
        return z3.BoolVal(bool(n["value"]))

    def e_CXXNullPtrLiteralExpr(self, n):
        return Ptr(None)

    def e_GNUNullExpr(self, n):
        return Ptr(None)

    def e_StringLiteral(self, n):
        v = n.get("value", "")
        if len(v) >= 2 and v[0] == '"' and v[-1] == '"':
            v = v[1:-1]  # clang prints the literal with its quotes
        return self.k.string_literal(self, v)

    def e_CharacterLiteral(self, n):
        return z3.IntVal(int(n["value"]))

    def e_CXXThisExpr(self, n):
        f = self.ctx.frame
        while f is not None and f.this is None:
            f = f.parent
        if f is None:
            raise Gap("this outside a method")
        return Ptr(f.this)

    def e_DeclRefExpr(self, n):
        r = n["referencedDecl"]
        kind = r.get("kind")
        if kind in ("VarDecl", "ParmVarDecl", "BindingDecl"):
            b = self.ctx.frame.lookup(r["id"])
            if b is not None:
                return b
            nm = r.get("name")
            if nm in GLOBAL_CONSTS:
                return GLOBAL_CONSTS[nm]
            v = self.k.global_var(self, r, n)
            if v is None:
                raise Gap("reference to unmapped variable %s (line %s)" % (nm, extract.line_of(n)))
            return v
        if kind in ("FunctionDecl", "CXXMethodDecl"):
            return ("fn", r.get("name"), r.get("type", {}).get("qualType", ""), r.get("id"))
        if kind == "EnumConstantDecl":
            return self.k.enum_const(self, r)
        raise Gap("DeclRefExpr to %s %s" % (kind, r.get("name")))

    def e_MemberExpr(self, n):
        ctx = self.ctx
        base = self.expr(kids(n)[0])
        name = n["name"]
        if n.get("isArrow"):
            base = ctx.rv(base)
            if isinstance(base, Ptr):
                ctx.oblige("nonnull@%s.%s" % (extract.line_of(n), name), z3.Not(base.null), kind="null-deref",
                           line=extract.line_of(n))
                base = base.target
                if base is None:
                    raise PathEnd()
            elif hasattr(base, "arrow"):
                base = base.arrow(self)
            elif isinstance(base, z3.ExprRef) and hasattr(self.k, "deref_int"):
                base = self.k.deref_int(self, base, n)
            else:
                raise Gap("-> on %r (line %s)" % (base, extract.line_of(n)))
        if isinstance(base, Loc):
            base = ctx.load(base)
        if hasattr(base, "member"):
            r = base.member(ctx, name, n)
            if isinstance(r, Loc) and not isinstance(r, ArrLoc) and r.key not in ctx.store and type(base).member is Obj.member:
                # a field the contract does not model (e.g. newly added to the struct): any value at all
                qt = type_of(n)
                st = strip_type(qt)
                if is_bool_type(qt):
                    v = ctx.fresh("unmodelled_" + name, "bool")
                elif is_int_type(qt) or is_time_type(qt):
                    v = ctx.fresh("unmodelled_" + name)
                elif st.endswith("*"):
                    v = AnyPtr(ctx, "unmodelled_" + name)
                else:
                    raise Gap("read of unmodelled field %s of type %s (line %s)" % (name, qt, extract.line_of(n)))
                ctx.store[r.key] = v
                ctx.notes.append("unmodelled field %s.%s treated as arbitrary" % (getattr(base, "cls", "?"), name))
            return r
        raise Gap("member %s of %r (line %s)" % (name, base, extract.line_of(n)))

    def e_ImplicitCastExpr(self, n):
        ck = n.get("castKind")
        sub = kids(n)[0]
        if ck == "LValueToRValue":
            return self.ctx.rv(self.expr(sub))
        if ck in ("NoOp", "FunctionToPointerDecay", "ConstructorConversion", "UserDefinedConversion",
                  "DerivedToBase", "UncheckedDerivedToBase", "ArrayToPointerDecay", "BitCast", "BuiltinFnToFnPtr"):
            return self.expr(sub)
        if ck in ("IntegralCast",):
            v = self.ctx.rv(self.expr(sub))
            if z3.is_bool(v):
                return z3.If(v, z3.IntVal(1), z3.IntVal(0))
            return v
        if ck == "IntegralToBoolean":
            v = self.ctx.rv(self.expr(sub))
            return v != 0 if z3.is_int(v) else v
        if ck == "PointerToBoolean":
            return self.truth(self.expr(sub))
        if ck == "NullToPointer":
            return Ptr(None)
        raise Gap("cast kind %s at line %s" % (ck, extract.line_of(n)))

    def e_CXXStaticCastExpr(self, n):
        sub = kids(n)[0]
        v = self.expr(sub)
        qt = type_of(n)
        if is_bool_type(qt):
            return self.truth(v)
        return v

    e_CXXFunctionalCastExpr = e_CXXStaticCastExpr
    e_CStyleCastExpr = e_CXXStaticCastExpr
    e_CXXConstCastExpr = e_CXXStaticCastExpr

    def e_UnaryOperator(self, n):
        ctx = self.ctx
        op = n["opcode"]
        sub = kids(n)[0]
        if op == "__extension__":
            return self.expr(sub)     # GNU marker (glibc's assert expansion): no semantics
        if op == "!":
            return z3.Not(self.truth(self.expr(sub)))
        if op in ("++", "--"):
            loc = self.expr(sub)
            if not isinstance(loc, Loc):
                raise Gap("++/-- on non-location")
            old = ctx.load(loc)
            if op == "--" and is_unsigned_type(type_of(n)):
                ctx.oblige("no-underflow@%s" % extract.line_of(n), old >= 1, kind="no-overflow", line=extract.line_of(n))
            new = old + 1 if op == "++" else old - 1
            ctx.write(loc, new)
            return old if n.get("isPostfix") else loc
        if op == "-":
            return -ctx.rv(self.expr(sub))
        if op == "+":
            return ctx.rv(self.expr(sub))
        if op == "*":
            v = ctx.rv(self.expr(sub))
            if isinstance(v, Ptr):
                ctx.oblige("nonnull@%s" % extract.line_of(n), z3.Not(v.null), kind="null-deref", line=extract.line_of(n))
                if v.target is None:
                    raise PathEnd()
                return v.target
            if hasattr(v, "deref"):
                return v.deref(self)
            raise Gap("deref of %r" % (v,))
        if op == "&":
            v = self.expr(sub)
            if isinstance(v, Loc):
                return Ptr(v)
            return Ptr(v)
        if op == "~":
            v = ctx.rv(self.expr(sub))
            h = getattr(v, "invert", None)
            if h is not None:
                return h()
        raise Gap("unary operator %s" % op)

    def e_BinaryOperator(self, n):
        ctx = self.ctx
        op = n["opcode"]
        a, b = kids(n)
        if op == "&&":
            l = self.truth(self.expr(a))
            r = self.try_pure(b)
            if r is not None:
                return z3.And(l, self.truth(r))
            if not ctx.decide(l, "&&@%s" % extract.line_of(n)):
                return z3.BoolVal(False)
            return self.truth(self.expr(b))
        if op == "||":
            l = self.truth(self.expr(a))
            r = self.try_pure(b)
            if r is not None:
                return z3.Or(l, self.truth(r))
            if ctx.decide(l, "||@%s" % extract.line_of(n)):
                return z3.BoolVal(True)
            return self.truth(self.expr(b))
        if op == "=":
            loc = self.expr(a)
            v = ctx.rv(self.expr(b))
            return self.assign(loc, v, n)
        if op == ",":
            self.expr(a)
            return self.expr(b)
        la = self.expr(a)
        lv = ctx.rv(la)
        rv = ctx.rv(self.expr(b))
        return self.binop(op, lv, rv, n)

    def assign(self, loc, v, n):
        ctx = self.ctx
        if isinstance(v, Ptr) and v.target is None and getattr(self.k, "int_pointers", False):
            v = z3.IntVal(0)      # pointers modelled as integer ids: nullptr is id 0
        if isinstance(loc, Loc):
            if not isinstance(loc, ArrLoc) and isinstance(ctx.store.get(loc.key), Opt) and not isinstance(v, Opt):
                v = Opt(z3.BoolVal(True), v)  # optional<T> = T
            ctx.write(loc, v)
            return loc
        if hasattr(loc, "assign"):
            loc.assign(self, v)
            return loc
        raise Gap("assignment to %r (line %s)" % (loc, extract.line_of(n)))

    def binop(self, op, lv, rv, n):
        ctx = self.ctx
        if getattr(lv, "custom_binop", False):
            return lv.binop(self, op, rv)
        if getattr(rv, "custom_binop", False):
            return rv.rbinop(self, op, lv)
        if isinstance(lv, Ptr) or isinstance(rv, Ptr):
            # pointers modelled as integer ids (0 = nullptr) compared with the nullptr literal
            for a_, b_ in ((lv, rv), (rv, lv)):
                if isinstance(a_, Ptr) and a_.target is None and isinstance(b_, z3.ExprRef) and z3.is_int(b_) \
                        and op in ("==", "!="):
                    return (b_ == 0) if op == "==" else (b_ != 0)
            if op in ("==", "!="):
                e = self.ptr_eq(lv, rv)
                return e if op == "==" else z3.Not(e)
            raise Gap("pointer arithmetic %s" % op)
        if isinstance(lv, bool):
            lv = z3.BoolVal(lv)
        if isinstance(rv, bool):
            rv = z3.BoolVal(rv)
        if not isinstance(lv, z3.ExprRef) or not isinstance(rv, z3.ExprRef):
            h = getattr(lv, "binop", None)
            if h is not None:
                return h(self, op, rv)
            raise Gap("binary %s on %r, %r (line %s)" % (op, lv, rv, extract.line_of(n)))
        if op in ("&", "|", "^"):
            # operands that are bools promoted to int 0/1: the 0/1 result is the logical connective
            bl, br = _as_bool01(lv), _as_bool01(rv)
            if bl is not None and br is not None:
                r = {"&": z3.And, "|": z3.Or, "^": z3.Xor}[op](bl, br)
                return r if (z3.is_bool(lv) and z3.is_bool(rv)) else z3.If(r, z3.IntVal(1), z3.IntVal(0))
        if z3.is_bool(lv) and z3.is_int(rv):
            lv = z3.If(lv, z3.IntVal(1), z3.IntVal(0))
        if z3.is_bool(rv) and z3.is_int(lv):
            rv = z3.If(rv, z3.IntVal(1), z3.IntVal(0))
        if op == "+":
            return lv + rv
        if op == "-":
            if n is not None and is_unsigned_type(type_of(n)):
                ctx.oblige("no-underflow@%s" % extract.line_of(n), lv >= rv, kind="no-overflow", line=extract.line_of(n))
            return lv - rv
        if op == "*":
            return lv * rv
        if op == "/":
            ctx.oblige("div-nonzero@%s" % extract.line_of(n), rv != 0, kind="div-zero", line=extract.line_of(n))
            return self.cdiv(lv, rv)
        if op == "%":
            ctx.oblige("div-nonzero@%s" % extract.line_of(n), rv != 0, kind="div-zero", line=extract.line_of(n))
            return self.cmod(lv, rv)
        if op == "<":
            return lv < rv
        if op == "<=":
            return lv <= rv
        if op == ">":
            return lv > rv
        if op == ">=":
            return lv >= rv
        if op == "==":
            return lv == rv
        if op == "!=":
            return lv != rv
        if op in ("<<", ">>", "&", "|", "^"):
            return self.k.bitop(self, op, lv, rv, n)
        raise Gap("binary operator %s" % op)

    def cdiv(self, a, b):
        # C++ truncating division; for non-negative operands equals z3's div
        return z3.If(z3.And(a >= 0, b > 0), a / b,
                     z3.If(z3.And(a < 0, b > 0), -((-a) / b),
                           z3.If(z3.And(a >= 0, b < 0), -(a / (-b)), (-a) / (-b))))

    def cmod(self, a, b):
        if getattr(self.k, "mod_wrap", False) and not self.ctx.pure_depth:
            # ring-buffer index arithmetic: when the path condition implies 0 <= a < 2b the remainder is a
            # conditional subtraction (an equivalent linear form the solver can reason about)
            sv = self.ctx.solver
            sv.push()
            sv.add(z3.Not(z3.And(a >= 0, b > 0, a < 2 * b)))
            r = sv.check()
            sv.pop()
            if r == z3.unsat:
                return z3.If(a < b, a, a - b)
        return a - self.cdiv(a, b) * b

    def ptr_eq(self, a, b):
        if not isinstance(a, Ptr) or not isinstance(b, Ptr):
            raise Gap("pointer comparison with non-pointer")
        if isinstance(a, AnyPtr) or isinstance(b, AnyPtr):
            other = b if isinstance(a, AnyPtr) else a
            if other.target is None:
                return (a if isinstance(a, AnyPtr) else b).null
            return self.ctx.fresh("unknown_ptr_eq", "bool")
        if a.target is None:
            return b.null
        if b.target is None:
            return a.null
        if a.target is b.target:
            return z3.BoolVal(True)
        same = getattr(a.target, "same_as", None)
        if same is not None:
            return z3.And(z3.Not(a.null), z3.Not(b.null), same(b.target))
        return z3.And(a.null, b.null)

    def e_CompoundAssignOperator(self, n):
        ctx = self.ctx
        op = n["opcode"][:-1]
        a, b = kids(n)
        loc = self.expr(a)
        rv = ctx.rv(self.expr(b))
        if not isinstance(loc, Loc):
            raise Gap("compound assignment to non-location")
        cur = ctx.load(loc)
        new = self.binop(op, cur, rv, n)
        if isinstance(cur, z3.ExprRef) and z3.is_bool(cur) and isinstance(new, z3.ExprRef) and z3.is_int(new):
            new = new != 0      # the implicit conversion back to the bool lvalue
        ctx.write(loc, new)
        return loc

    def try_pure(self, node):
        """speculatively evaluate `node`; None if it has any effect (write, assumption,
        non-trivial obligation, symbolic fork) -- then the caller forks instead"""
        ctx = self.ctx
        ctx.pure_depth += 1
        store_before = ctx.store
        ctx.store = dict(store_before)
        nfresh = ctx.fresh_n
        try:
            v = ctx.rv(self.expr(node))
            if isinstance(v, (z3.ExprRef,)):
                return v
            return None
        except (Impure, ThrowEx, PathEnd, ReturnEx):
            return None
        finally:
            ctx.pure_depth -= 1
            ctx.store = store_before

    def e_ConditionalOperator(self, n):
        c, a, b = kids(n)
        cv = self.truth(self.expr(c))
        if not (z3.is_true(z3.simplify(cv)) or z3.is_false(z3.simplify(cv))):
            va, vb = self.try_pure(a), self.try_pure(b)
            if va is not None and vb is not None and va.sort() == vb.sort():
                return z3.If(cv, va, vb)
        if self.ctx.decide(cv, "?:@%s" % extract.line_of(n)):
            return self.ctx.rv(self.expr(a))
        return self.ctx.rv(self.expr(b))

    def e_CXXRewrittenBinaryOperator(self, n):
        # (a <=> b) OP 0  ->  a OP b
        inner = kids(n)[0]
        ks = kids(inner)
        if inner["kind"] == "CXXOperatorCallExpr":
            opname = self.callee_name(ks[0])
            args = ks[1:]
            if opname.startswith("operator") and len(args) == 2:
                op = opname[len("operator"):]
                sw = args[0]
                while sw["kind"] in ("ImplicitCastExpr", "ParenExpr", "MaterializeTemporaryExpr"):
                    sw = kids(sw)[0]
                if sw["kind"] in ("CXXOperatorCallExpr", "BinaryOperator"):
                    if sw["kind"] == "CXXOperatorCallExpr":
                        sks = kids(sw)
                        if self.callee_name(sks[0]) == "operator<=>":
                            l = self.ctx.rv(self.expr(sks[1]))
                            r = self.ctx.rv(self.expr(sks[2]))
                            return self.compare(op, l, r, n)
                        if self.callee_name(sks[0]) == "operator==":
                            l = self.ctx.rv(self.expr(sks[1]))
                            r = self.ctx.rv(self.expr(sks[2]))
                            e = self.compare("==", l, r, n)
                            return z3.Not(e) if op in ("!=", "!") else e
                    elif sw.get("opcode") == "<=>":
                        l = self.ctx.rv(self.expr(kids(sw)[0]))
                        r = self.ctx.rv(self.expr(kids(sw)[1]))
                        return self.compare(op, l, r, n)
            if opname == "operator!" or True:
                pass
        if inner["kind"] == "UnaryOperator" and inner.get("opcode") == "!":
            # a != b rewritten as !(a == b)
            return z3.Not(self.truth(self.expr(kids(inner)[0])))
        raise Gap("rewritten operator shape at line %s" % extract.line_of(n))

    def compare(self, op, l, r, n):
        if isinstance(l, z3.ExprRef) and isinstance(r, z3.ExprRef):
            return self.binop(op, l, r, None)
        h = getattr(l, "compare", None)
        if h is not None:
            return h(self, op, r)
        if isinstance(l, Ptr) or isinstance(r, Ptr):
            return self.binop(op, l, r, n)
        raise Gap("comparison %s of %r and %r (line %s)" % (op, l, r, extract.line_of(n)))

    def callee_name(self, n):
        while n["kind"] in ("ImplicitCastExpr", "ParenExpr"):
            n = kids(n)[0]
        if n["kind"] == "DeclRefExpr":
            return n["referencedDecl"].get("name", "")
        if n["kind"] == "MemberExpr":
            return n.get("name", "")
        return ""

    def e_CXXOperatorCallExpr(self, n):
        ctx = self.ctx
        ks = kids(n)
        opname = self.callee_name(ks[0])
        argn = ks[1:]
        if opname == "operator()":
            f = ctx.rv(self.expr(argn[0]))
            args = [self.expr(a) for a in argn[1:]]
            return self.call_value(f, args, n)
        if opname in ("operator&&", "operator||"):
            raise Gap("overloaded logical operator")
        a0 = self.expr(argn[0])
        rest = [self.expr(a) for a in argn[1:]]
        if opname == "operator+" and "basic_string" in strip_type(desugared(n)) + strip_type(type_of(n)):
            return self.ctx.fresh("str_concat")  # message text: an opaque string
        return self.operator_call(opname, a0, rest, n)

    def operator_call(self, opname, a0, rest, n):
        ctx = self.ctx
        op = opname[len("operator"):]
        v0 = ctx.rv(a0) if isinstance(a0, Loc) and op not in ("=", "+=", "-=", "++", "--") else a0
        # user/model objects first
        tgt = v0 if not isinstance(v0, Loc) else ctx.load(v0)
        h = getattr(tgt, "op", None)
        if h is not None and not isinstance(tgt, z3.ExprRef):
            r = h(self, op, [ctx.rv(x) if op not in ("=",) else x for x in rest], n, a0)
            if r is not NotImplemented:
                return r
        if op == "=":
            v = ctx.rv(rest[0])
            return self.assign(a0, v, n)
        if op in ("+=", "-="):
            if not isinstance(a0, Loc):
                raise Gap("operator%s on non-location" % op)
            new = self.binop(op[0], ctx.load(a0), ctx.rv(rest[0]), None)
            ctx.write(a0, new)
            return a0
        if op in ("++", "--") and isinstance(a0, Loc):
            old = ctx.load(a0)
            ctx.write(a0, old + 1 if op == "++" else old - 1)
            return old if rest else a0
        vals = [ctx.rv(v0)] + [ctx.rv(x) for x in rest]
        if op in ("->",):
            v = vals[0]
            if hasattr(v, "arrow"):
                return Ptr(v.arrow(self), z3.BoolVal(False))
            if isinstance(v, Ptr):
                return v
            if isinstance(v, Opt):
                ctx.oblige("optional-engaged@%s" % extract.line_of(n), v.has, kind="optional", line=extract.line_of(n))
                return Ptr(v.value, z3.BoolVal(False))
            raise Gap("operator-> on %r" % (v,))
        if op == "*" and len(vals) == 1:
            v = vals[0]
            if hasattr(v, "deref"):
                return v.deref(self)
            if isinstance(v, Opt):
                ctx.oblige("optional-engaged@%s" % extract.line_of(n), v.has, kind="optional", line=extract.line_of(n))
                return v.value
            if isinstance(v, Ptr):  # smart pointers are modelled as pointers
                ctx.oblige("nonnull@%s" % extract.line_of(n), z3.Not(v.null), kind="null-deref", line=extract.line_of(n))
                if v.target is None:
                    raise PathEnd()
                return v.target
            raise Gap("operator* on %r" % (v,))
        if op == "<=>" and len(vals) == 2:
            return ("cmp3", vals[0], vals[1])
        if len(vals) == 2 and op in ("+", "-", "*", "/", "%", "<", "<=", ">", ">=", "==", "!="):
            if isinstance(vals[0], tuple) and vals[0][0] == "cmp3":
                return self.compare(op, vals[0][1], vals[0][2], n)
            return self.compare(op, vals[0], vals[1], n) if op in ("<", "<=", ">", ">=", "==", "!=") \
                else self.binop(op, vals[0], vals[1], None)
        if len(vals) == 1 and op == "-":
            return -vals[0]
        if len(vals) == 1 and op == "!":
            return z3.Not(self.truth(vals[0]))
        if op == "bool" or op == " bool":
            return self.truth(vals[0])
        raise Gap("operator %s on %r (line %s)" % (opname, vals, extract.line_of(n)))

    def e_CXXMemberCallExpr(self, n):
        ctx = self.ctx
        ks = kids(n)
        callee = ks[0]
        while callee["kind"] in ("ImplicitCastExpr", "ParenExpr"):
            callee = kids(callee)[0]
        if callee["kind"] != "MemberExpr":
            raise Gap("member call through %s" % callee["kind"])
        name = callee["name"]
        base = self.expr(kids(callee)[0])
        if callee.get("isArrow"):
            base = ctx.rv(base)
            if isinstance(base, Ptr):
                ctx.oblige("nonnull@%s.%s()" % (extract.line_of(n), name), z3.Not(base.null), kind="null-deref",
                           line=extract.line_of(n))
                if base.target is None:
                    raise PathEnd()
                base = base.target
            elif hasattr(base, "arrow"):
                base = base.arrow(self)
            elif isinstance(base, z3.ExprRef) and hasattr(self.k, "deref_int"):
                base = self.k.deref_int(self, base, n)
            else:
                raise Gap("-> call on %r (line %s)" % (base, extract.line_of(n)))
        obj = base
        base_loc = None
        if isinstance(obj, Loc):
            base_loc = obj
            lv = ctx.load(obj)
            # conversion operators etc. on stored value objects
            if not isinstance(lv, z3.ExprRef):
                obj = lv
        args = [self.expr(a) for a in ks[1:]]
        return self.method_call(obj, name, args, n, callee, base_loc)

    def method_call(self, obj, name, args, n, callee=None, base_loc=None):
        ctx = self.ctx
        # 1. contract table
        h = self.k.method_handler(obj, name, n)
        if h is not None:
            return h(self, obj, args, n)
        # 2. model object method
        m = getattr(obj, "m_" + sanitize(name), None)
        if m is not None:
            return m(self, args, n)
        if name.startswith("operator") and isinstance(obj, Loc):
            pass
        # 3. scalars / optionals with std methods
        v = ctx.rv(obj) if isinstance(obj, Loc) else obj
        if name.startswith("operator bool") and (isinstance(v, (Ptr, Opt)) or hasattr(v, "truth")):
            return self.truth(v)
        if isinstance(v, z3.ExprRef):
            if name in ("count", "time_since_epoch"):
                return v
            bt = type_of(kids(callee)[0]) if callee is not None else ""
            if "string" in bt:
                if name == "empty":
                    return v == 0
                if name in ("c_str", "data", "str"):
                    return v
        if isinstance(v, Opt):
            if name == "has_value":
                return v.has
            if name == "value":
                if not ctx.decide(v.has, "optional.value"):
                    self.throw_from_callee("optional::value", cls="std::bad_optional_access")
                return v.value
            if name == "reset" and (isinstance(obj, Loc) or base_loc is not None):
                ctx.write(obj if isinstance(obj, Loc) else base_loc, Opt(z3.BoolVal(False), v.value))
                return VOID
            if name == "value_or":
                return z3.If(v.has, v.value, ctx.rv(args[0])) if isinstance(v.value, z3.ExprRef) else None
        if isinstance(v, Closure) and name.startswith("operator ") and "(*)" in name:
            return v          # a captureless lambda converted to a function pointer
        if name.startswith("operator basic_string_view") and isinstance(v, z3.ExprRef) and z3.is_int(v):
            return v          # strings are opaque ids: std::string -> std::string_view keeps the id
        h = self.k.auto_inline_method(obj, name, callee)
        if h is not None:
            return h(self, obj, args, n)
        raise Gap("unclassified method %s on %r (line %s)" % (name, obj, extract.line_of(n)))

    def e_CallExpr(self, n):
        ctx = self.ctx
        ks = kids(n)
        cal = ks[0]
        cn = cal
        while cn["kind"] in ("ImplicitCastExpr", "ParenExpr"):
            cn = kids(cn)[0]
        if cn["kind"] == "DeclRefExpr" and cn["referencedDecl"].get("kind") in ("FunctionDecl", "CXXMethodDecl"):
            name = cn["referencedDecl"].get("name")
            args = [self.expr(a) for a in ks[1:]]
            return self.free_call(name, args, n, cn)
        f = ctx.rv(self.expr(cal))
        args = [self.expr(a) for a in ks[1:]]
        return self.call_value(f, args, n)

    def free_call(self, name, args, n, cn=None):
        ctx = self.ctx
        h = self.k.function_handler(name, n, cn)
        if h is not None:
            return h(self, args, n)
        if name in ("move", "forward", "as_const", "addressof", "launder"):
            return args[0]
        if name in ("max", "min") and len(args) == 2:
            a, b = ctx.rv(args[0]), ctx.rv(args[1])
            if isinstance(a, z3.ExprRef) and isinstance(b, z3.ExprRef):
                return z3.If(a >= b, a, b) if name == "max" else z3.If(a <= b, a, b)
        if name == "uncaught_exceptions":
            return z3.IntVal(ctx.uncaught)
        raise Gap("unclassified function %s (line %s)" % (name, extract.line_of(n)))

    def call_value(self, f, args, n):
        ctx = self.ctx
        if isinstance(f, Closure):
            return self.call_closure(f, args, n)
        h = getattr(f, "call", None)
        if h is not None:
            return h(self, args, n)
        if isinstance(f, Ptr) and f.target is not None and hasattr(f.target, "call"):
            ctx.oblige("nonnull-fnptr@%s" % extract.line_of(n), z3.Not(f.null), kind="null-deref", line=extract.line_of(n))
            return f.target.call(self, args, n)
        raise Gap("call of %r (line %s)" % (f, extract.line_of(n)))

    def call_closure(self, clo, args, n):
        ctx = self.ctx
        lam = clo.node
        # LambdaExpr -> CXXRecordDecl -> CXXMethodDecl operator()
        meth = None
        for c in kids(lam):
            if c["kind"] == "CXXRecordDecl":
                for m in kids(c):
                    if m["kind"] == "CXXMethodDecl" and m.get("name") == "operator()":
                        meth = m
                    elif m["kind"] == "FunctionTemplateDecl" and m.get("name") == "operator()":
                        for mm in kids(m):
                            if mm["kind"] == "CXXMethodDecl" and extract.has_body(mm):
                                meth = mm
        if meth is None:
            raise Gap("lambda without call operator (line %s)" % extract.line_of(lam))
        fr = Frame(meth, this=None, parent=clo.frame)
        params = [p for p in kids(meth) if p["kind"] == "ParmVarDecl"]
        self.bind_params(fr, params, args)
        saved_scopes = None
        return self.exec_fn(meth, fr)

    def bind_params(self, fr, params, args):
        ctx = self.ctx
        for p, a in zip(params, args):
            qt = type_of(p)
            if a is DEFAULT_ARG:
                # clang prints the call-site CXXDefaultArgExpr without its expression: take it from the parameter
                init = [c for c in kids(p) if c.get("kind", "").endswith(("Expr", "Literal", "Operator"))]
                if not init:
                    raise Gap("default argument of %s has no printed expression" % p.get("name"))
                ctx.frames.append(fr)
                try:
                    a = ctx.rv(self.expr(init[0]))
                finally:
                    ctx.frames.pop()
            if qt.rstrip().endswith("&"):
                if isinstance(a, Loc) or not isinstance(a, (z3.ExprRef,)):
                    fr.vars[p["id"]] = a
                    continue
            v = ctx.rv(a)
            if isinstance(v, (z3.ExprRef, Ptr, Pair, Opt, Closure, ExcVal)):
                loc = Loc(("L", fr.fid, p["id"], p.get("name")))
                ctx.store[loc.key] = v
                fr.vars[p["id"]] = loc
            else:
                fr.vars[p["id"]] = v

    def e_LambdaExpr(self, n):
        return Closure(n, self.ctx.frame)

    def e_CXXConstructExpr(self, n):
        ctx = self.ctx
        qt = strip_type(type_of(n))
        if qt.endswith("::key_type") or qt.endswith("::value_type") or qt.endswith("::mapped_type"):
            qt = strip_type(desugared(n))
        h = self.k.ctor_handler(qt, n)
        if h is not None:
            args = []
            for a in kids(n):
                try:
                    args.append(self.expr(a))
                except Gap:
                    args.append(DEFAULT_ARG)
            return h(self, args, n)
        args = [self.expr(a) for a in kids(n)]
        if len(args) == 1 and (n.get("elidable") or self.is_copy_move(n) or qt.endswith("iterator")):
            return ctx.rv(args[0])
        if is_time_type(qt):
            if not args:
                return z3.IntVal(0)
            if len(args) == 1:
                return ctx.rv(args[0])
        if qt in STD_EXC_BASES or qt.endswith("_error") or qt.endswith("Error"):
            return ExcVal(qt if qt.startswith("std::") or "::" in qt else qt, what=args[0] if args else None,
                          origin="line %s" % extract.line_of(n))
        if qt.startswith("std::pair<") or qt.startswith("pair<"):
            if len(args) == 2:
                return Pair(ctx.rv(args[0]), ctx.rv(args[1]))
            if len(args) == 1:
                return ctx.rv(args[0])
        if (qt.startswith("std::basic_string") or qt in ("std::string", "string")):
            if not args:
                return self.k.string_literal(self, "")
            if len(args) >= 1:
                return self.k.to_string(self, ctx.rv(args[0]))
        if (qt.startswith("std::vector<") or qt.startswith("vector<")) and (
                not args or isinstance(ctx.rv(args[0]), InitList) or args[0] is DEFAULT_ARG):
            from . import models
            il = ctx.rv(args[0]) if args and isinstance(ctx.rv(args[0]), InitList) else InitList()
            data = z3.K(z3.IntSort(), z3.IntVal(0))
            for i, v in enumerate(il):
                data = z3.Store(data, i, v)
            return models.Vec(ctx, "vec_lit", length=z3.IntVal(len(il)), data=data)
        if qt.startswith("std::optional<") or qt.startswith("optional<"):
            if not args:
                return Opt(z3.BoolVal(False), None)
            v = ctx.rv(args[0])
            if isinstance(v, Opt):
                return v
            return Opt(z3.BoolVal(True), v)
        if "format_string<" in qt or qt.startswith("fmt::") or "join_view<" in qt:
            return ctx.fresh("fmt")  # fmt format string: message text only
        if qt.startswith("std::basic_string_view") or qt in ("std::string_view",):
            if args:
                return self.k.to_string(self, ctx.rv(args[0]))
            return self.k.string_literal(self, "")
        if qt.startswith("std::span<") and len(args) in (1, 2):
            return ctx.rv(args[0])  # a view of the container it is built from ({data(), size()} or the container)
        if len(args) == 1:
            a0t = strip_type(type_of(kids(n)[0]))
            last = lambda t: re.sub(r"<.*$", "", t).split("::")[-1]
            if (a0t == qt or last(a0t) == last(qt)) and not isinstance(ctx.rv(args[0]), z3.ExprRef):
                return ctx.rv(args[0])  # copy / move of a model object of the same type
        raise Gap("constructor of %s with %d args (line %s)" % (qt, len(args), extract.line_of(n)))

    def is_copy_move(self, n):
        ct = n.get("ctorType", {}).get("qualType", "")
        qt = strip_type(type_of(n))
        m = re.match(r"void \((.*)\)", ct)
        if not m:
            return False
        p = m.group(1).strip()
        if "," in re.sub(r"<[^<>]*>", "", re.sub(r"<[^<>]*>", "", p)):
            return False
        p = strip_type(p.rstrip("&").rstrip("&").strip())
        last = lambda t: re.sub(r"<.*$", "", t).split("::")[-1]
        return p == qt or (last(p) == last(qt) and ("&&" in ct or "const" in ct))

    e_CXXTemporaryObjectExpr = e_CXXConstructExpr

    def e_InitListExpr(self, n):
        ctx = self.ctx
        qt = strip_type(type_of(n))
        if qt.endswith("::key_type") or qt.endswith("::value_type") or qt.endswith("::mapped_type"):
            qt = strip_type(desugared(n))
        h = self.k.ctor_handler(qt, n)
        if h is not None:
            # the contract models this type: members it does not care about may be anything
            args = []
            for a in kids(n):
                try:
                    args.append(ctx.rv(self.expr(a)))
                except Gap:
                    args.append(DEFAULT_ARG)
            return h(self, args, n)
        args = [ctx.rv(self.expr(a)) for a in kids(n)]
        if (qt.startswith("std::pair<") or qt.startswith("pair<")) and len(args) == 2:
            return Pair(args[0], args[1])
        if qt.startswith("std::span<") and len(args) in (1, 2):
            return args[0]
        if re.search(r"\[\d*\]$", qt):
            return InitList(args)
        if len(args) == 1:
            return args[0]
        if not args and (is_int_type(qt) or is_time_type(qt)):
            return z3.IntVal(0)
        if not args and is_bool_type(qt):
            return z3.BoolVal(False)
        raise Gap("init list of %s (line %s)" % (qt, extract.line_of(n)))

    def e_CXXStdInitializerListExpr(self, n):
        return self.ctx.rv(self.expr(kids(n)[0]))

    def e_CXXScalarValueInitExpr(self, n):
        qt = type_of(n)
        if is_bool_type(qt):
            return z3.BoolVal(False)
        return z3.IntVal(0)

    def e_ImplicitValueInitExpr(self, n):
        return self.e_CXXScalarValueInitExpr(n)

    def e_CXXThrowExpr(self, n):
        ctx = self.ctx
        ks = kids(n)
        if not ks:
            if not ctx.handler_stack:
                raise Gap("rethrow outside handler")
            ctx.uncaught += 1
            raise ThrowEx(ctx.handler_stack[-1])
        v = ctx.rv(self.expr(ks[0]))
        if not isinstance(v, ExcVal):
            raise Gap("throw of %r" % (v,))
        ctx.uncaught += 1
        raise ThrowEx(v)

    def e_ArraySubscriptExpr(self, n):
        a, i = kids(n)
        base = self.ctx.rv(self.expr(a))
        idx = self.ctx.rv(self.expr(i))
        if isinstance(base, Ptr) and base.target is not None and hasattr(base.target, "index"):
            self.ctx.oblige("nonnull@%s[]" % extract.line_of(n), z3.Not(base.null), kind="null-deref", line=extract.line_of(n))
            base = base.target
        h = getattr(base, "index", None)
        if h is None:
            raise Gap("subscript on %r" % (base,))
        return h(self, idx, n)

    def e_PredefinedExpr(self, n):
        return z3.IntVal(0)       # __func__ / __PRETTY_FUNCTION__: message text only

    def e_CXXNewExpr(self, n):
        h = getattr(self.k, "new_expr", None)
        if h is None:
            raise Gap("new-expression at line %s" % extract.line_of(n))
        return h(self, n)

    def e_CXXDeleteExpr(self, n):
        h = getattr(self.k, "delete_expr", None)
        if h is None:
            raise Gap("delete-expression at line %s" % extract.line_of(n))
        return h(self, self.ctx.rv(self.expr(kids(n)[0])), n)

    def e_UnaryExprOrTypeTraitExpr(self, n):
        raise Gap("sizeof/alignof at line %s" % extract.line_of(n))

    def e_TypeTraitExpr(self, n):
        if "value" in n:
            return z3.BoolVal(bool(n["value"]))
        raise Gap("type trait without value")

    def throw_from_callee(self, origin, cls="unknown", tags=None):
        """raise a C++ exception coming out of an opaque callee"""
        self.ctx.uncaught += 1
        raise ThrowEx(ExcVal(cls, origin=origin, tags=tags))


def sanitize(name):
    return re.sub(r"[^A-Za-z0-9_]", "_", name)
