"""writes contracts/loop_baseline.json: per kernel with loop invariants, the loop headers (source order) the invariants were
written against.  Run on the unchanged tree after adding or changing a kernel: python3-vt -m cxxvc.loopbase"""
import importlib, json, os, sys
from . import extract
from .kernel import Kernel
sys.path.insert(0, extract.VERIF)
from contracts import registry


def main():
    mods = sorted({m for p in registry.PROPS.values() for m in p["modules"]})
    ks = []
    for m in mods:
        mod = importlib.import_module(m)
        ks += [k() for k in getattr(mod, "KERNELS", [])]
    seen, reqs = set(), []
    for k in ks:
        reqs += k.requests()
    dumps = extract.dump_many(reqs)
    out = {}
    Kernel._baseline = {}
    for k in ks:
        if k.kid in seen:
            continue
        seen.add(k.kid)
        try:
            k.locate(dumps)
        except Exception as e:
            print("skip", k.kid, e)
            continue
        import inspect
        try:
            uses_match = any("match=" in inspect.getsource(c) for c in type(k).__mro__ if c.__module__.startswith("contracts"))
        except (OSError, TypeError):
            uses_match = False
        hs = k.loop_headers()
        if hs and not uses_match:
            out[k.kid] = hs
    path = os.path.join(extract.VERIF, "contracts", "loop_baseline.json")
    json.dump(out, open(path, "w"), indent=1, sort_keys=True)
    print("wrote", path, len(out), "kernels")


main()
