"""Bounded stand-ins that run the real compiled code (never counted as proved).

A NativeCheck names a C++ program under /verif/native/bounded that drives functions of /repo's working tree through the
tree's public API over an exhaustively enumerated (or sampled) bounded input space and compares with an oracle computed
from the input alone.  The runtime archive is built from the working tree on every run (objects cached by content under
<cache>/native_rt, so an unchanged translation unit is not recompiled); a failing input is a real input, printed by the
program and written to the replay file together with the command that reproduces it."""
import os
import re
import subprocess
import time
from concurrent.futures import ThreadPoolExecutor

from . import extract

VERIF = extract.VERIF


class NativeCheck:
    kid = "native:?"
    property_ids = ()
    source = None               # path relative to /verif
    title = ""
    bound_text = ""
    functions = ()              # real functions exercised (for the evidence)

    def runs(self, tier):
        """list of (argv list, env dict) -- one process each"""
        raise NotImplementedError

    def build(self):
        rt = os.path.join(extract.CACHE, "native_rt")
        os.makedirs(rt, exist_ok=True)
        br = os.path.join(VERIF, "native", "build_runtime.py")
        t0 = time.time()
        p = subprocess.run(["python3", br, extract.REPO, rt], capture_output=True, text=True)
        if p.returncode != 0:
            return None, "runtime archive does not build from the working tree: " + (p.stdout + p.stderr)[-1500:]
        exe = os.path.join(rt, "bin_" + re.sub(r"[^A-Za-z0-9]+", "_", self.kid))
        p = subprocess.run(["python3", br, extract.REPO, rt, "--probe", os.path.join(VERIF, self.source), "-o", exe],
                           capture_output=True, text=True)
        if p.returncode != 0 or not os.path.exists(exe):
            return None, "bounded harness does not build: " + (p.stdout + p.stderr)[-1500:]
        self.build_s = round(time.time() - t0, 1)
        return exe, None

    def run(self, tier):
        exe, err = self.build()
        if exe is None:
            return {"status": "error", "detail": err}
        t0 = time.time()
        jobs = self.runs(tier)

        def one(job):
            argv, env = job
            e = dict(os.environ)
            e.update(env)
            try:
                p = subprocess.run([exe] + argv, capture_output=True, text=True, env=e, timeout=3 * 3600)
            except subprocess.TimeoutExpired:
                return argv, env, None, "timeout"
            return argv, env, p.returncode, p.stdout[-4000:] + p.stderr[-2000:]

        with ThreadPoolExecutor(max_workers=16) as ex:
            res = list(ex.map(one, jobs))
        out = {"status": "ok", "runs": [], "evaluations": 0, "build_s": getattr(self, "build_s", None)}
        for argv, env, rc, text in res:
            m = re.search(r"PROGRAMS (\d+)", text or "")
            n = int(m.group(1)) if m else 0
            out["evaluations"] += n
            out["runs"].append({"argv": argv, "env": env, "exit": rc, "inputs": n})
            for km in re.finditer(r"KNOWN-CLASS (\S+) (\d+) :: (.*)", text or ""):
                c = out.setdefault("classes", {}).setdefault(km.group(1), {"count": 0, "example": km.group(3).strip(), "argv": argv})
                c["count"] += int(km.group(2))
            if rc == 1:
                f = re.search(r"FAILING-PROGRAM (.*)", text)
                out["status"] = "violation"
                out["failing_input"] = f.group(1).strip() if f else text[-500:]
                out["replay_cmd"] = "%s %s  (built by: python3 native/build_runtime.py /repo <dir> --probe %s -o <exe>)" % (
                    " ".join("%s=%s" % kv for kv in env.items()) + " <exe>", " ".join(argv), self.source)
            elif rc != 0 and out["status"] == "ok":
                out["status"] = "error"
                out["detail"] = "harness exit %s: %s" % (rc, (text or "")[-800:])
        out["run_s"] = round(time.time() - t0, 1)
        return out
