"""Library models (trusted, small): std::set of (time, tag) pairs with
lexicographic minimum, std::map<tag, time>, iterators, std::optional helpers,
scope guards of include/hgraph/util/scope.h (mirrored; the real scope.h bodies
are separately verified against these summaries in contracts/scope_guards.py).
"""
import z3

from .interp import (Gap, Loc, Obj, Ptr, Pair, Opt, Closure, ThrowEx, PathEnd, VOID, ExcVal)
from . import extract

I_ = z3.IntSort()
B_ = z3.BoolSort()


def sel2(m, a, b):
    return m[a][b]


def sto2(m, a, b, v):
    return z3.Store(m, a, z3.Store(m[a], b, v))


EMPTY2 = z3.K(I_, z3.K(I_, z3.BoolVal(False)))


def lexle(t1, g1, t2, g2):
    return z3.Or(t1 < t2, z3.And(t1 == t2, g1 <= g2))


def lexlt(t1, g1, t2, g2):
    return z3.Or(t1 < t2, z3.And(t1 == t2, g1 < g2))


class Iter:
    """iterator into a model container: either end, or positioned on (k1[,k2])"""

    def __init__(self, cont, is_end, first=None, second=None):
        self.cont = cont
        self.is_end = is_end
        self.first = first
        self.second = second

    def arrow(self, I):
        I.ctx.oblige("iter-deref-valid@%s" % self.cont.name, z3.Not(self.is_end), kind="iterator")
        return Pair(self.first, self.second)

    deref = arrow

    def compare(self, I, op, other):
        if not isinstance(other, Iter):
            raise Gap("iterator compared with %r" % (other,))
        if z3.is_true(z3.simplify(other.is_end)):
            eq = self.is_end
        elif z3.is_true(z3.simplify(self.is_end)):
            eq = other.is_end
        else:
            eq = z3.Or(z3.And(self.is_end, other.is_end),
                       z3.And(z3.Not(self.is_end), z3.Not(other.is_end), self.first == other.first,
                              self.second == other.second if self.cont.pair_keys else z3.BoolVal(True)))
        if op == "==":
            return eq
        if op == "!=":
            return z3.Not(eq)
        raise Gap("iterator comparison %s" % op)

    def binop(self, I, op, other):
        return self.compare(I, op, other)

    def op(self, I, op, rest, n, a0):
        if op in ("==", "!="):
            return self.compare(I, op, rest[0])
        return NotImplemented


class SetPairs(Obj):
    """std::set<std::pair<DateTime, std::string>>: finite set of (time, tag), ordered lexicographically.
    field mem: Array(Int, Int -> Bool)"""
    cls = "std::set<pair>"
    pair_keys = True

    def __init__(self, ctx, name="set", init=None):
        Obj.__init__(self, name=name)
        self.ctx_name = name
        ctx.store[(self.oid, "mem")] = init if init is not None else z3.Array(name + "_mem0", I_, z3.ArraySort(I_, B_))

    def mem(self, ctx):
        return ctx.store[(self.oid, "mem")]

    def set_mem(self, I, m):
        I.ctx.write(Loc((self.oid, "mem")), m)

    @staticmethod
    def is_empty_term(ctx, mem, name="set"):
        """fresh Bool e with e <=> forall t,g. not mem[t,g]   (existential side skolemised)"""
        e = ctx.fresh(name + "_empty", "bool")
        wt, wg = ctx.fresh("wit_t"), ctx.fresh("wit_g")
        t, g = z3.Ints("qt qg")
        ctx.assume(z3.Implies(e, z3.ForAll([t, g], z3.Not(sel2(mem, t, g)))))
        ctx.assume(z3.Implies(z3.Not(e), sel2(mem, wt, wg)))
        return e

    @staticmethod
    def min_of(ctx, mem, name="set"):
        """(nonempty, mt, mg): the lexicographic minimum when nonempty"""
        e = SetPairs.is_empty_term(ctx, mem, name)
        mt, mg = ctx.fresh("min_t"), ctx.fresh("min_g")
        t, g = z3.Ints("qt qg")
        ctx.assume(z3.Implies(z3.Not(e), z3.And(sel2(mem, mt, mg),
                                                z3.ForAll([t, g], z3.Implies(sel2(mem, t, g), lexle(mt, mg, t, g))))))
        return z3.Not(e), mt, mg

    def m_empty(self, I, args, n):
        return SetPairs.is_empty_term(I.ctx, self.mem(I.ctx), self.ctx_name)

    def m_begin(self, I, args, n):
        ne, mt, mg = SetPairs.min_of(I.ctx, self.mem(I.ctx), self.ctx_name)
        return Iter(self, z3.Not(ne), mt, mg)

    def m_end(self, I, args, n):
        return Iter(self, z3.BoolVal(True))

    m_cbegin = m_begin
    m_cend = m_end

    def m_erase(self, I, args, n):
        ctx = I.ctx
        a = ctx.rv(args[0])
        m = self.mem(ctx)
        if isinstance(a, Iter):
            ctx.oblige("erase-valid-iterator@%s" % extract.line_of(n), z3.Not(a.is_end), kind="iterator",
                       line=extract.line_of(n))
            self.set_mem(I, sto2(m, a.first, a.second, False))
            return Iter(self, ctx.fresh("it_end", "bool"), ctx.fresh("it_t"), ctx.fresh("it_g"))
        if isinstance(a, Pair):
            was = sel2(m, a.first, a.second)
            self.set_mem(I, sto2(m, a.first, a.second, False))
            return z3.If(was, z3.IntVal(1), z3.IntVal(0))
        raise Gap("set::erase(%r)" % (a,))

    def m_insert(self, I, args, n):
        ctx = I.ctx
        a = ctx.rv(args[0])
        if not isinstance(a, Pair):
            raise Gap("set::insert(%r)" % (a,))
        m = self.mem(ctx)
        was = sel2(m, a.first, a.second)
        self.set_mem(I, sto2(m, a.first, a.second, True))
        return Pair(Iter(self, z3.BoolVal(False), a.first, a.second), z3.Not(was))

    m_emplace = m_insert

    def m_clear(self, I, args, n):
        self.set_mem(I, EMPTY2)
        return VOID

    def m_contains(self, I, args, n):
        a = I.ctx.rv(args[0])
        return sel2(self.mem(I.ctx), a.first, a.second)




class MapKV(Obj):
    """std::map<std::string, DateTime> (or any int-keyed int-valued map): has: Array(Int->Bool), val: Array(Int->Int)"""
    cls = "std::map<k,v>"
    pair_keys = False

    def __init__(self, ctx, name="map"):
        Obj.__init__(self, name=name)
        self.ctx_name = name
        ctx.store[(self.oid, "has")] = z3.Array(name + "_has0", I_, B_)
        ctx.store[(self.oid, "val")] = z3.Array(name + "_val0", I_, I_)

    def has(self, ctx):
        return ctx.store[(self.oid, "has")]

    def val(self, ctx):
        return ctx.store[(self.oid, "val")]

    def m_find(self, I, args, n):
        ctx = I.ctx
        k = ctx.rv(args[0])
        return Iter(self, z3.Not(self.has(ctx)[k]), k, self.val(ctx)[k])

    def m_end(self, I, args, n):
        return Iter(self, z3.BoolVal(True))

    m_cend = m_end

    def m_contains(self, I, args, n):
        return self.has(I.ctx)[I.ctx.rv(args[0])]

    def m_count(self, I, args, n):
        return z3.If(self.has(I.ctx)[I.ctx.rv(args[0])], z3.IntVal(1), z3.IntVal(0))

    def m_erase(self, I, args, n):
        ctx = I.ctx
        a = ctx.rv(args[0])
        if isinstance(a, Iter):
            ctx.oblige("erase-valid-iterator@%s" % extract.line_of(n), z3.Not(a.is_end), kind="iterator",
                       line=extract.line_of(n))
            k = a.first
        else:
            k = a
        was = self.has(ctx)[k]
        ctx.write(Loc((self.oid, "has")), z3.Store(self.has(ctx), k, False))
        return z3.If(was, z3.IntVal(1), z3.IntVal(0))

    def m_clear(self, I, args, n):
        I.ctx.write(Loc((self.oid, "has")), z3.K(I_, z3.BoolVal(False)))
        return VOID

    def m_empty(self, I, args, n):
        ctx = I.ctx
        e = ctx.fresh(self.ctx_name + "_empty", "bool")
        w = ctx.fresh("wit_k")
        k = z3.Int("qk")
        ctx.assume(z3.Implies(e, z3.ForAll([k], z3.Not(self.has(ctx)[k]))))
        ctx.assume(z3.Implies(z3.Not(e), self.has(ctx)[w]))
        return e

    def op(self, I, op, rest, n, a0):
        if op == "[]":
            return MapSlot(self, I.ctx.rv(rest[0]))
        return NotImplemented

    def m_insert_or_assign(self, I, args, n):
        ctx = I.ctx
        k, v = ctx.rv(args[0]), ctx.rv(args[1])
        was = self.has(ctx)[k]
        MapSlot(self, k).assign(I, v)
        return Pair(Iter(self, z3.BoolVal(False), k, v), z3.Not(was))

    def m_emplace(self, I, args, n):
        ctx = I.ctx
        k, v = ctx.rv(args[0]), ctx.rv(args[1])
        was = self.has(ctx)[k]
        old = self.val(ctx)[k]
        ctx.write(Loc((self.oid, "has")), z3.Store(self.has(ctx), k, True))
        ctx.write(Loc((self.oid, "val")), z3.Store(self.val(ctx), k, z3.If(was, old, v)))
        return Pair(Iter(self, z3.BoolVal(False), k, z3.If(was, old, v)), z3.Not(was))

    m_try_emplace = m_emplace

    def m_at(self, I, args, n):
        ctx = I.ctx
        k = ctx.rv(args[0])
        if I.ctx.decide(self.has(ctx)[k], "map.at"):
            return self.val(ctx)[k]
        I.throw_from_callee("map::at", cls="std::out_of_range")


class MapSlot:
    """result of map[key]: assignable"""

    def __init__(self, m, k):
        self.m = m
        self.k = k

    def assign(self, I, v):
        ctx = I.ctx
        ctx.write(Loc((self.m.oid, "has")), z3.Store(self.m.has(ctx), self.k, True))
        ctx.write(Loc((self.m.oid, "val")), z3.Store(self.m.val(ctx), self.k, v))

    def op(self, I, op, rest, n, a0):
        if op == "=":
            self.assign(I, I.ctx.rv(rest[0]))
            return self
        return NotImplemented


# ---------------------------------------------------------------- std::vector of scalars


class VecIter:
    """iterator into a Vec: position index (immutable value; ++ produces a new one)"""

    def __init__(self, vec, idx):
        self.vec = vec
        self.idx = idx

    def havoc(self, ctx, name):
        return VecIter(self.vec, ctx.fresh(name + "_pos"))

    def deref(self, I):
        ctx = I.ctx
        ctx.oblige("vector-iterator-in-range@%s" % self.vec.name, z3.And(self.idx >= 0, self.idx < self.vec.length(ctx)),
                   kind="iterator")
        return self.vec.elem_loc(self.idx)

    def arrow(self, I):
        return I.ctx.rv(self.deref(I))

    def compare(self, I, op, other):
        if not isinstance(other, VecIter):
            raise Gap("vector iterator compared with %r" % (other,))
        e = self.idx == other.idx
        if op == "==":
            return e
        if op == "!=":
            return z3.Not(e)
        if op in ("<", "<=", ">", ">="):
            return {"<": self.idx < other.idx, "<=": self.idx <= other.idx, ">": self.idx > other.idx,
                    ">=": self.idx >= other.idx}[op]
        raise Gap("vector iterator comparison %s" % op)

    def op(self, I, op, rest, n, a0):
        ctx = I.ctx
        if op in ("==", "!=", "<", "<=", ">", ">="):
            return self.compare(I, op, rest[0])
        if op in ("++", "--"):
            nv = VecIter(self.vec, self.idx + (1 if op == "++" else -1))
            if isinstance(a0, Loc):
                ctx.write(a0, nv)
                return self if rest else a0
            return nv
        if op == "+" and rest and isinstance(rest[0], z3.ExprRef):
            return VecIter(self.vec, self.idx + rest[0])
        if op == "-" and rest:
            if isinstance(rest[0], VecIter):
                return self.idx - rest[0].idx
            return VecIter(self.vec, self.idx - rest[0])
        return NotImplemented


class Vec(Obj):
    """std::vector<T> of scalars: len: Int, data: Array(Int -> Int)"""
    cls = "std::vector"

    def __init__(self, ctx, name="vec", length=None, data=None, sort=None, elem=None):
        Obj.__init__(self, name=name)
        ctx.store[(self.oid, "len")] = length if length is not None else z3.Int(name + "_len0")
        ctx.store[(self.oid, "data")] = data if data is not None else z3.Array(name + "_data0", I_, sort or I_)
        self.elem = elem  # for vectors of structs: idx -> element object

    def length(self, ctx):
        return ctx.store[(self.oid, "len")]

    def data(self, ctx):
        return ctx.store[(self.oid, "data")]

    def elem_loc(self, idx):
        from .interp import ArrLoc
        if self.elem is not None:
            return self.elem(idx)
        return ArrLoc((self.oid, "data"), idx)

    def m_size(self, I, args, n):
        return self.length(I.ctx)

    def m_empty(self, I, args, n):
        return self.length(I.ctx) == 0

    def m_begin(self, I, args, n):
        return VecIter(self, z3.IntVal(0))

    def m_end(self, I, args, n):
        return VecIter(self, self.length(I.ctx))

    m_cbegin = m_begin
    m_cend = m_end

    def index(self, I, idx, n):
        I.ctx.oblige("vector-index-in-range@%s" % extract.line_of(n), z3.And(idx >= 0, idx < self.length(I.ctx)),
                     kind="bounds", line=extract.line_of(n))
        return self.elem_loc(idx)

    def op(self, I, op, rest, n, a0):
        if op == "[]":
            return self.index(I, I.ctx.rv(rest[0]), n)
        return NotImplemented

    def m_at(self, I, args, n):
        ctx = I.ctx
        i = ctx.rv(args[0])
        if not ctx.decide(z3.And(i >= 0, i < self.length(ctx)), "vector.at"):
            I.throw_from_callee("vector::at", cls="std::out_of_range")
        return self.elem_loc(i)

    def m_push_back(self, I, args, n):
        ctx = I.ctx
        v = ctx.rv(args[0])
        ln = self.length(ctx)
        ctx.write(Loc((self.oid, "data")), z3.Store(self.data(ctx), ln, v))
        ctx.write(Loc((self.oid, "len")), ln + 1)
        return VOID

    m_emplace_back = m_push_back

    def m_pop_back(self, I, args, n):
        ctx = I.ctx
        ctx.oblige("vector-pop_back-nonempty@%s" % extract.line_of(n), self.length(ctx) > 0, kind="bounds")
        ctx.write(Loc((self.oid, "len")), self.length(ctx) - 1)
        return VOID

    def m_back(self, I, args, n):
        ctx = I.ctx
        ctx.oblige("vector-back-nonempty@%s" % extract.line_of(n), self.length(ctx) > 0, kind="bounds")
        return self.elem_loc(self.length(ctx) - 1)

    def m_front(self, I, args, n):
        ctx = I.ctx
        ctx.oblige("vector-front-nonempty@%s" % extract.line_of(n), self.length(ctx) > 0, kind="bounds")
        return self.elem_loc(z3.IntVal(0))

    def m_clear(self, I, args, n):
        I.ctx.write(Loc((self.oid, "len")), z3.IntVal(0))
        return VOID

    def m_reserve(self, I, args, n):
        return VOID

    def m_data(self, I, args, n):
        return self  # pointer to the elements: only used to build views (std::span) of this vector


# ---------------------------------------------------------------- scope guards (mirror of util/scope.h)


class ScopeExit(Obj):
    """scope_exit<F, HideExceptions>: runs fn on destruction if active"""
    cls = "scope_exit"

    def __init__(self, fn, hide):
        Obj.__init__(self, name="scope_exit")
        self.fn = fn
        self.hide = hide
        self.active = True
        self.depth = 0

    def m_release(self, I, args, n):
        _guard_depth_check(I, self, "release")
        self.active = False
        return VOID

    def destroy(self, I):
        if not self.active:
            return
        self.active = False
        if self.hide:
            try:
                I.call_value(self.fn, [], None)
            except ThrowEx:
                I.ctx.uncaught -= 1  # caught by catch (...) {}
        else:
            I.call_value(self.fn, [], None)


class UnwindGuard(Obj):
    """UnwindCleanupGuard<F>: runs fn only when destroyed by an exception newer than its construction"""
    cls = "UnwindCleanupGuard"

    def __init__(self, fn, uncaught_at_ctor):
        Obj.__init__(self, name="unwind_guard")
        self.fn = fn
        self.rec = uncaught_at_ctor
        self.active = True
        self.depth = 0

    def m_release(self, I, args, n):
        _guard_depth_check(I, self, "release")
        self.active = False
        return VOID

    def m_complete(self, I, args, n):
        _guard_depth_check(I, self, "complete")
        if not self.active:
            return VOID
        self.active = False
        I.call_value(self.fn, [], n)
        return VOID

    def destroy(self, I):
        if not self.active or I.ctx.uncaught <= self.rec:
            return
        self.active = False
        try:
            I.call_value(self.fn, [], None)
        except ThrowEx:
            I.ctx.uncaught -= 1


class FirstExc(Obj):
    """FirstExceptionRecorder: state lives in the store (has: Bool) so that loops havoc it through their frame"""
    cls = "FirstExceptionRecorder"

    def __init__(self, ctx):
        Obj.__init__(self, name="first_exception")
        ctx.store[(self.oid, "has")] = z3.BoolVal(False)
        ctx.store[(self.oid, "first_ann")] = z3.IntVal(-1)  # ghost: node index the first captured error names

    def has(self, ctx):
        return ctx.store[(self.oid, "has")]

    def m_capture(self, I, args, n):
        ctx = I.ctx
        try:
            I.call_value(ctx.rv(args[0]), [], n)
        except ThrowEx as t:
            ctx.uncaught -= 1
            ann = t.exc.tags.get("annotated_index")
            if ann is None:
                ann = z3.IntVal(-1)
            ctx.write(Loc((self.oid, "first_ann")), z3.If(self.has(ctx), ctx.store[(self.oid, "first_ann")], ann))
            ctx.write(Loc((self.oid, "has")), z3.BoolVal(True))
        return VOID

    def m_has_exception(self, I, args, n):
        return self.has(I.ctx)

    def m_rethrow_if_any(self, I, args, n):
        ctx = I.ctx
        if ctx.decide(self.has(ctx), "rethrow_if_any"):
            ctx.uncaught += 1
            raise ThrowEx(ExcVal("unknown", origin="FirstExceptionRecorder",
                                 tags={"recorded": True, "annotated_index": ctx.store[(self.oid, "first_ann")]}))
        return VOID


def _guard_depth_check(I, g, what):
    if len(I.ctx.loop_frames) > g.depth:
        raise Gap("%s of a guard inside a loop it was declared outside of (guard state is not havocked)" % what)


def annotate_on_exception(I, args, n):
    """try { return f(); } catch (...) { annotate(); throw; }"""
    ctx = I.ctx
    f, ann = ctx.rv(args[0]), ctx.rv(args[1])
    try:
        return I.call_value(f, [], n)
    except ThrowEx as t:
        ctx.uncaught -= 1
        ctx.handler_stack.append(t.exc)
        try:
            I.call_value(ann, [], n)
        finally:
            ctx.handler_stack.pop()
        ctx.uncaught += 1
        raise ThrowEx(t.exc)


def fallback_on_exception(I, args, n):
    """2-arg: noexcept, catch (...) -> fallback; 3-arg: on_error(what) then fallback"""
    ctx = I.ctx
    fb = ctx.rv(args[0])
    f = ctx.rv(args[1])
    try:
        return I.call_value(f, [], n)
    except ThrowEx as t:
        ctx.uncaught -= 1
        if len(args) >= 3:
            on_err = ctx.rv(args[2])
            ctx.handler_stack.append(t.exc)
            try:
                I.call_value(on_err, [t.exc.what_term(ctx)], n)
            finally:
                ctx.handler_stack.pop()
        return fb


def scope_exit_handler(I, args, n):
    from .interp import type_of
    qt = type_of(n)
    hide = qt.replace(" ", "").endswith(",true>")
    a = I.ctx.rv(args[0])
    if isinstance(a, ScopeExit):
        return a  # (elidable) move construction
    g = ScopeExit(a, hide)
    g.depth = len(I.ctx.loop_frames)
    return g


def unwind_guard_ctor(I, args, n):
    a = I.ctx.rv(args[0])
    if isinstance(a, UnwindGuard):
        return a
    g = UnwindGuard(a, I.ctx.uncaught)
    g.depth = len(I.ctx.loop_frames)
    return g


def install_guards(kernel_cls):
    """adds the scope.h summaries to a kernel class' callee tables"""
    fns = dict(getattr(kernel_cls, "functions", {}))
    fns.setdefault("annotate_on_exception", annotate_on_exception)
    fns.setdefault("fallback_on_exception", fallback_on_exception)
    fns.setdefault("make_scope_exit", scope_exit_handler)
    kernel_cls.functions = fns
    ct = dict(getattr(kernel_cls, "ctors", {}))
    ct.setdefault("UnwindCleanupGuard<*", unwind_guard_ctor)
    ct.setdefault("hgraph::UnwindCleanupGuard<*", unwind_guard_ctor)
    ct.setdefault("scope_exit<*", scope_exit_handler)
    ct.setdefault("hgraph::scope_exit<*", scope_exit_handler)
    ct.setdefault("FirstExceptionRecorder", lambda I, a, n: FirstExc(I.ctx))
    ct.setdefault("hgraph::FirstExceptionRecorder", lambda I, a, n: FirstExc(I.ctx))
    kernel_cls.ctors = ct
    return kernel_cls
