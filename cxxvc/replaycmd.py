"""./check <Cxx> --replay <file>: show a recorded violation and re-run its native replay when one exists"""
import json


def main(pid, path):
    rec = json.load(open(path))
    print("replay of %s / %s / %s" % (rec.get("property"), rec.get("kernel"), rec.get("obligation")))
    print("verdict when recorded: %s" % rec.get("verdict"))
    print("counter-model:")
    for k, v in sorted((rec.get("counter_model") or {}).items()):
        print("  %s = %s" % (k, " ".join(str(v).split())))
    nat = rec.get("native")
    if nat:
        print("native replay: %s" % json.dumps(nat, indent=1))
        if nat.get("status") == "confirmed":
            print("VIOLATION property=%s replay=%s" % (pid, path))
            return 1
    return 0
