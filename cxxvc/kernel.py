"""Kernel = one real function under contract.  A contract module subclasses
Kernel, builds the symbolic pre-state in `setup`, and states `post` /
`post_exc`; loop invariants are LoopSpec objects keyed by loop ordinal."""
import os
import time
import traceback

import z3

from . import extract
from .interp import (Ctx, Interp, Frame, Gap, PathEnd, ReturnEx, ThrowEx, Loc, Obj, Ptr, Pair, Opt, Closure, ExcVal,
                     VOID, kids, type_of, strip_type, is_bool_type, is_int_type, is_time_type, sanitize)


class LoopSpec:
    def __init__(self, inv=None, frame=None, unroll=None, var=None, after_havoc=None, unwind_assert=False, match=None):
        """match: text that the loop's header (from `for`/`while` up to its body) must contain; loops are keyed by their
        ordinal in source order, and with `match` a loop that moved (statements reordered, a loop added before it) is
        re-associated with the invariant written for it instead of being checked against a neighbour's"""
        self.match = match
        self.unwind_assert = unwind_assert
        self._inv = inv
        self._frame = frame
        self.unroll = unroll
        self.variant = None
        self.var = var
        self._after = after_havoc

    def inv(self, I, ctx):
        return list(self._inv(I, ctx))

    def frame(self, I, ctx):
        return list(self._frame(I, ctx)) if self._frame else []

    def after_havoc(self, I, ctx, entry_store):
        if self._after:
            self._after(I, ctx, entry_store)


class Kernel:
    # locator
    tu = None
    filter = None
    fn_name = None
    cls = None
    targs = None
    sig = None
    want_pattern = False
    # engine
    feas_timeout_ms = 1500
    max_paths = 4000
    loops = {}
    inline = ()  # names of same-TU helpers executed in place
    property_ids = ()
    title = ""
    bounded = None  # description when the kernel runs in bounded mode

    def __init__(self):
        self.fn = None
        self.objs = None
        self.by_id = {}
        self.by_name = {}
        self._loop_ids = None
        self._loop_nodes = None
        self._loop_remap = None

    # ---- identification
    @property
    def kid(self):
        return getattr(self, "name", None) or self.__class__.__name__

    def requests(self):
        """(tu, filter) pairs this kernel needs"""
        r = [(self.tu, self.filter)]
        r += list(getattr(self, "extra_dumps", ()))
        return r

    def locate(self, dumps):
        objs = dumps[(self.tu, self.filter)]
        extract.annotate_files(objs)
        self.objs = objs
        for key in getattr(self, "extra_dumps", ()):
            extract.annotate_files(dumps[key])
        self.index(objs)
        fns = extract.find_functions(objs, self.fn_name, cls=self.cls, targs=self.targs, sig=self.sig,
                                     want_pattern=self.want_pattern, plain_only=getattr(self, "plain_only", False),
                                     cls_targs=getattr(self, "cls_targs", None))
        # de-duplicate by id
        seen = {}
        for f in fns:
            seen[f["id"]] = f
        fns = list(seen.values())
        if self.targs is None and not self.want_pattern:
            # prefer non-template or all instantiations? require uniqueness
            pass
        if len(fns) != 1:
            raise Gap("kernel %s: expected exactly one definition of %s%s in %s (filter %s), found %d" % (
                self.kid, (self.cls + "::") if self.cls else "", self.fn_name, self.tu, self.filter, len(fns)))
        self.fn = fns[0]
        self.src = extract.fn_source(self.fn)
        return self.fn

    def index(self, objs):
        for o in objs:
            for n in extract.walk(o):
                if n.get("kind") in extract.FUNC_KINDS and extract.has_body(n):
                    self.by_id[n["id"]] = n
                    self.by_name.setdefault(n.get("name"), []).append(n)

    # ---- hooks used by the interpreter (defaults are fail-closed)
    def default_value(self, I, qt, d):
        s = strip_type(qt)
        h = self.ctor_handler(s, d)
        if h is not None:
            return h(I, [], d)
        return None

    def on_local_init(self, I, d, v):
        return v

    def decompose(self, I, v, n):
        if isinstance(v, Pair) and n == 2:
            return [v.first, v.second]
        raise Gap("structured binding of %r" % (v,))

    LOOP_KINDS = ("ForStmt", "WhileStmt", "DoStmt", "CXXForRangeStmt")

    def loop_ordinal_of(self, node, ctx):
        """static ordinal (source order) of a loop statement inside the kernel function; loops of
        helpers executed in place are keyed '<helper>:<ordinal within the helper>'"""
        nid = node.get("id")

        def walk_once(n):
            # clang prints a lambda's body twice (inside its closure class and again as a direct
            # child of the LambdaExpr); the interpreter executes the closure-class copy
            yield n
            for c in n.get("inner", ()) or ():
                if isinstance(c, dict):
                    if n.get("kind") == "LambdaExpr" and c.get("kind") == "CompoundStmt":
                        continue
                    yield from walk_once(c)

        self._ensure_loops()
        if nid in self._loop_ids:
            k = self._loop_ids[nid]
            if self._loop_remap is not None and self.bounded_mode is None:      # bounded mode unrolls every loop: no invariant is looked up
                if self._loop_remap.get(k) is None:
                    raise Gap("loop #%s at line %s (%s) was added or moved since the contract's invariants were written "
                              "(contracts/loop_baseline.json): it has no invariant of its own" % (
                                  k, extract.line_of(node), " ".join((self.loop_header(node) or "").split())[:80]))
                return self._loop_remap[k]
            return k
        # a loop in an inlined helper: find the enclosing function on the frame stack
        for fr in reversed(ctx.frames):
            fn = fr.fn
            k = 0
            for n in walk_once(fn):
                if n.get("kind") in self.LOOP_KINDS:
                    if n.get("id") == nid:
                        return "%s:%d" % (fn.get("name"), k)
                    k += 1
        raise Gap("loop at line %s not found in any active function" % extract.line_of(node))

    # When the invariant-based run hits an extraction gap that comes from the loop structure (a refactored
    # loop no longer matches the invariants keyed to it), the driver re-runs the kernel with every loop
    # unrolled `bounded_fallback` times and container sizes bounded alike.  A refutation found there is a
    # concrete counterexample (reported as a violation); a bounded pass proves nothing and the gap stands.
    bounded_fallback = None
    bounded_mode = None

    _baseline = None

    @classmethod
    def load_baseline(cls):
        if Kernel._baseline is None:
            import json
            path = os.path.join(extract.VERIF, "contracts", "loop_baseline.json")
            try:
                Kernel._baseline = json.load(open(path))
            except OSError:
                Kernel._baseline = {}
        return Kernel._baseline

    @staticmethod
    def _walk_once(n):
        # clang prints a lambda's body twice (inside its closure class and again as a direct
        # child of the LambdaExpr); the interpreter executes the closure-class copy
        yield n
        for c in n.get("inner", ()) or ():
            if isinstance(c, dict):
                if n.get("kind") == "LambdaExpr" and c.get("kind") == "CompoundStmt":
                    continue
                yield from Kernel._walk_once(c)

    def _ensure_loops(self):
        if self._loop_ids is None:
            self._loop_ids = {}
            k = 0
            nodes = []
            for n in self._walk_once(self.fn):
                if n.get("kind") in self.LOOP_KINDS:
                    self._loop_ids[n["id"]] = k
                    nodes.append(n)
                    k += 1
            self._loop_nodes = nodes
            self._loop_remap = self.align_with_baseline(nodes)

    def loop_headers(self):
        """normalised header text of every loop of the kernel function, in source order"""
        self._ensure_loops()
        return [" ".join((self.loop_header(n) or "?").split()) for n in (self._loop_nodes or [])]

    def align_with_baseline(self, nodes):
        """Invariants are keyed by loop ordinal in source order.  contracts/loop_baseline.json records, per kernel, the loop
        headers the invariants were written against; when the function's loops still line up with it (same headers, or a
        header edited in place) the ordinals are used as they are.  When a loop was inserted, deleted or moved, the loops
        that can still be identified keep their invariant and any other loop is a gap (exit 3) - never a neighbour's
        invariant, which would turn a harmless reordering into a VIOLATION."""
        base = self.load_baseline().get(self.kid)
        if not base:
            return None
        cur = [" ".join((self.loop_header(n) or "?").split()) for n in nodes]
        if cur == base:
            return None
        import difflib
        remap = {}
        for tag, i1, i2, j1, j2 in difflib.SequenceMatcher(a=base, b=cur, autojunk=False).get_opcodes():
            if tag == "equal" or (tag == "replace" and i2 - i1 == j2 - j1):
                for d in range(j2 - j1):
                    remap[j1 + d] = i1 + d
            elif tag in ("insert", "replace"):
                for j in range(j1, j2):
                    remap[j] = None
        return remap

    def loop_header(self, node):
        """source text of a loop statement up to its body"""
        try:
            r = node.get("range", {})
            b = r.get("begin", {})
            b = b.get("expansionLoc", b)
            body = [c for c in node.get("inner", []) if isinstance(c, dict) and c.get("kind")][-1]
            e = body.get("range", {}).get("begin", {})
            e = e.get("expansionLoc", e)
            fb = self.fn.get("range", {}).get("begin", {})
            f = b.get("file") or fb.get("expansionLoc", fb).get("file") or self.fn.get("_file")
            data = open(f, "rb").read()
            return data[b["offset"]: e["offset"]].decode("utf-8", "replace")
        except Exception:
            return None

    def loop_spec(self, ordinal, node):
        if self.bounded_mode is not None:
            return LoopSpec(unroll=self.bounded_mode)
        loops = self.loops
        spec = loops.get(ordinal)
        if any(getattr(sp, "match", None) for sp in loops.values()):
            hdr = self.loop_header(node)
            if hdr is None:
                raise Gap("loop #%s: cannot read the loop header to match it with its invariant" % ordinal)
            if spec is None or not spec.match or spec.match not in hdr:
                cands = [sp for sp in loops.values() if getattr(sp, "match", None) and sp.match in hdr]
                if len(cands) != 1:
                    raise Gap("loop #%s at line %s (%s) is not a loop this contract has an invariant for" % (
                        ordinal, extract.line_of(node), " ".join(hdr.split())[:80]))
                spec = cands[0]
        return spec

    def bound_sizes(self, I, n):
        """extra preconditions for bounded mode (sizes <= n); override per kernel"""
        return

    def range_for(self, I, n):
        return NotImplemented

    def range_pos(self, I):
        """position index of the innermost range-for iterator (for invariants)"""
        f = I.ctx.frame if I.ctx.frames else I.ctx.last_frame
        while f is not None:
            for did, b in reversed(list(f.vars.items())):
                if isinstance(b, Loc) and b.key[0] == "L" and str(b.key[-1]).startswith("__begin"):
                    return I.ctx.load(b).idx
            f = f.parent
        raise Gap("no range-for iterator in scope")

    def string_literal(self, I, s):
        return z3.IntVal(self.string_id(s))

    _strings = None

    def string_id(self, s):
        if Kernel._strings is None:
            Kernel._strings = {"": 0}
        if s not in Kernel._strings:
            Kernel._strings[s] = 1000 + len(Kernel._strings)
        return Kernel._strings[s]

    def to_string(self, I, v):
        return v

    def global_var(self, I, ref, node):
        return None

    def enum_const(self, I, ref):
        raise Gap("enum constant %s" % ref.get("name"))

    def bitop(self, I, op, a, b, n):
        raise Gap("bit operator %s (line %s)" % (op, extract.line_of(n)))

    def default_arg(self, I, n):
        raise Gap("default argument without expression")

    methods = {}
    functions = {}
    ctors = {}
    # `inline` names helpers by name only; with this flag a model object that has its own method of that name keeps it
    # (KeySlotStore::slot_capacity() vs key_storage.slot_capacity())
    model_methods_first = False

    def method_handler(self, obj, name, node):
        cls = getattr(obj, "cls", None)
        h = self.methods.get((cls, name))
        if h is None:
            h = self.methods.get(("*", name)) if isinstance(obj, Obj) and getattr(obj, "wild", False) else None
        if h is not None:
            return h
        # same-class helper executed in place
        if name in self.inline and isinstance(obj, Obj) and not (
                self.model_methods_first and getattr(obj, "m_" + sanitize(name), None) is not None):
            rid = None
            cal = kids(node)[0]
            while cal["kind"] in ("ImplicitCastExpr", "ParenExpr"):
                cal = kids(cal)[0]
            rid = cal.get("referencedMemberDecl")
            fn = self.by_id.get(rid)
            if fn is None:
                cands = [f for f in self.by_name.get(name, [])]
                if len(cands) == 1:
                    fn = cands[0]
            if fn is not None:
                return lambda I, o, args, n, fn=fn: self.run_inline(I, fn, o, args)
        return None

    def function_handler(self, name, node, callee_node):
        h = self.functions.get(name)
        if h is not None:
            return h
        if name in self.inline:
            rid = callee_node["referencedDecl"].get("id") if callee_node is not None else None
            fn = self.by_id.get(rid)
            if fn is None:
                cands = self.by_name.get(name, [])
                if len(cands) == 1:
                    fn = cands[0]
            if fn is not None:
                return lambda I, args, n, fn=fn: self.run_inline(I, fn, None, args)
        fn = self.auto_inline_candidate(name)
        if fn is not None:
            return lambda I, args, n, fn=fn: self.run_inline(I, fn, None, args)
        return None

    auto_inline = True

    def auto_inline_candidate(self, name):
        """a helper the contract does not know, defined in the kernel's own translation unit file (typically a function
        extracted by a refactoring): executed in place like the rest of the body.  Library and header functions are not
        touched -- they stay unclassified (a gap) unless the contract models them."""
        if not self.auto_inline or not name or name.startswith("operator") or self.tu.startswith("gen:"):
            return None
        cache = self.__dict__.setdefault("_auto_inline_cache", {})
        if name in cache:
            return cache[name]
        cache[name] = None
        try:
            objs = extract.dump(self.tu, name)
            extract.annotate_files(objs)
        except Exception:
            return None
        tu_file = os.path.join(extract.REPO, self.tu)
        cands = []
        for fn in extract.find_functions(objs, name):
            src = extract.fn_source(fn)
            if src and os.path.join(extract.REPO, src["file"]) == tu_file:
                cands.append(fn)
        if len(cands) == 1:
            self.index(objs)
            cache[name] = cands[0]
            self.notes_auto_inlined = getattr(self, "notes_auto_inlined", []) + [name]
        return cache[name]

    def auto_inline_method(self, obj, name, callee):
        """a member function the contract does not know, defined in the kernel's own translation unit file and called on a
        modelled object (typically a method extracted from the kernel's body by a refactoring): executed in place with the
        model object as `this`, so every field it touches still goes through the contract's model (an unmodelled field or
        callee inside it is a gap as usual)"""
        if not self.auto_inline or not name or name.startswith("operator") or self.tu.startswith("gen:") or not isinstance(obj, Obj):
            return None
        rid = callee.get("referencedMemberDecl") if callee is not None else None
        fn = self.by_id.get(rid) if rid is not None else None
        if fn is None or fn.get("name") != name:
            # node ids are per clang invocation: a helper outside the kernel's own dump is found by name (and, for a member
            # template, by the bound member type of the call) in a dump of its own
            cache = self.__dict__.setdefault("_auto_inline_method_cache", {})
            if name not in cache:
                try:
                    objs = extract.dump(self.tu, name)
                    extract.annotate_files(objs)
                    self.index(objs)
                    cache[name] = extract.find_functions(objs, name)
                except Exception:
                    cache[name] = []
            tu_file = os.path.join(extract.REPO, self.tu)
            cands = []
            for f in cache[name]:
                src = extract.fn_source(f)
                if src and os.path.join(extract.REPO, src["file"]) == tu_file:
                    cands.append(f)
            want = (callee or {}).get("type", {}).get("qualType", "")
            exact = [f for f in cands if f.get("type", {}).get("qualType", "") == want]
            if len(exact) >= 1:
                cands = exact[:1]
            elif len({(extract.fn_source(f) or {}).get("sha256") for f in cands}) == 1 and cands:
                cands = cands[:1]        # instantiations of one member template: the same text
            fn = cands[0] if len(cands) == 1 else None
        if fn is None or not extract.has_body(fn):
            return None
        src = extract.fn_source(fn)
        if not src or os.path.join(extract.REPO, src["file"]) != os.path.join(extract.REPO, self.tu):
            return None
        self.notes_auto_inlined = getattr(self, "notes_auto_inlined", []) + [name]
        return lambda I, o, args, n, fn=fn: self.run_inline(I, fn, o, args)

    def ctor_handler(self, qt, node):
        h = self.ctors.get(qt)
        if h is not None:
            return h
        for k, v in self.ctors.items():
            if k.endswith("*") and qt.startswith(k[:-1]):
                return v
        return None

    def run_inline(self, I, fn, this, args):
        ctx = I.ctx
        if ctx.inline_depth > 12:
            raise Gap("inline depth exceeded at %s" % fn.get("name"))
        fr = Frame(fn, this=this, parent=None)
        params = [p for p in kids(fn) if p["kind"] == "ParmVarDecl"]
        # default arguments: pad
        I.bind_params(fr, params, args)
        if len(args) < len(params):
            for p in params[len(args):]:
                init = [c for c in kids(p) if c.get("kind", "").endswith("Expr") or c.get("kind", "").endswith("Literal")]
                if not init:
                    raise Gap("missing argument for %s" % p.get("name"))
                ctx.frames.append(fr)
                try:
                    v = ctx.rv(I.expr(init[0]))
                finally:
                    ctx.frames.pop()
                loc = Loc(("L", fr.fid, p["id"], p.get("name")))
                ctx.store[loc.key] = v
                fr.vars[p["id"]] = loc
        ctx.inline_depth += 1
        saved = ctx.loop_ordinal
        try:
            return I.exec_fn(fn, fr)
        finally:
            ctx.inline_depth -= 1

    # ---- contract (to override)
    def setup(self, I):
        """build the symbolic pre-state; return (this_obj or None, {param name: value})"""
        raise NotImplementedError

    def post(self, I, ret):
        pass

    def post_exc(self, I, exc):
        I.ctx.oblige("no-exception", False, kind="post-exceptional", note="unexpected exception %r" % (exc,))

    def local(self, I, name):
        """current value of the innermost / most recently declared local called `name` (for invariants;
        in postconditions: the kernel function's own frame as it was at exit)"""
        f = I.ctx.frame if I.ctx.frames else I.ctx.last_frame
        while f is not None:
            for did, b in reversed(list(f.vars.items())):
                if isinstance(b, Loc) and b.key[0] == "L" and b.key[-1] == name:
                    return I.ctx.load(b)
            f = f.parent
        # an invariant is ghost code: when its loop was moved into a helper executed in place it may still mention a local of
        # the function that called the helper -- look through the dynamic call stack as well
        for fr in reversed(I.ctx.frames):
            for did, b in reversed(list(fr.vars.items())):
                if isinstance(b, Loc) and b.key[0] == "L" and b.key[-1] == name:
                    return I.ctx.load(b)
        raise Gap("invariant refers to unknown local %s" % name)

    def local_obj(self, I, name):
        """the object bound to the most recently declared local called `name`"""
        f = I.ctx.frame if I.ctx.frames else I.ctx.last_frame
        while f is not None:
            for did, b in reversed(list(f.vars.items())):
                if not isinstance(b, Loc) and getattr(b, "decl_name", None) == name:
                    return b
            f = f.parent
        raise Gap("invariant refers to unknown local object %s" % name)

    # ---- violations
    def matches_known(self, finding, ob, res):
        """a listed finding only suppresses the counter-models it describes; default: same obligation"""
        return True

    def native_replay(self, ob, res):
        """run the counter-model against the real code; None when no harness exists for this kernel"""
        return None

    # ---- execution
    def run_path(self, decisions):
        ctx = Ctx(self, decisions)
        I = Interp(self, ctx)
        self.I = I
        outcome = None
        try:
            this, params = self.setup(I)
            if self.bounded_mode is not None:
                self.bound_sizes(I, self.bounded_mode)
            fr = Frame(self.fn, this=this)
            pdecls = [p for p in kids(self.fn) if p["kind"] == "ParmVarDecl"]
            args = []
            for p in pdecls:
                nm = p.get("name")
                if nm not in params:
                    if nm is None:
                        args.append(z3.IntVal(0))
                        continue
                    raise Gap("kernel %s: parameter %s not provided by setup" % (self.kid, nm))
                args.append(params[nm])
            I.bind_params(fr, pdecls, args)
            ctx.pre_store = dict(ctx.store)
            try:
                ret = I.exec_fn(self.fn, fr)
                outcome = ("return", ret)
                self.post(I, ret)
            except ThrowEx as t:
                outcome = ("throw", t.exc)
                self.post_exc(I, t.exc)
        except PathEnd:
            outcome = outcome or ("cut", None)
        ctx.outcome = outcome
        return ctx

    def run_all(self):
        """enumerate all paths; returns (obligations, stats)"""
        work = [[]]
        obligs = []
        npaths = 0
        cut = 0
        outcomes = {"return": 0, "throw": 0, "cut": 0}
        notes = []
        t0 = time.time()
        while work:
            d = work.pop()
            ctx = self.run_path(d)
            npaths += 1
            outcomes[ctx.outcome[0]] = outcomes.get(ctx.outcome[0], 0) + 1
            for ob in ctx.obligs:
                ob.kernel = self.kid
                obligs.append(ob)
            notes += ctx.notes
            work.extend(ctx.new_alternatives)
            if npaths > self.max_paths:
                raise Gap("kernel %s: more than %d paths" % (self.kid, self.max_paths))
        return obligs, {"paths": npaths, "outcomes": outcomes, "notes": sorted(set(notes)),
                        "symexec_s": round(time.time() - t0, 3)}


class Lemma:
    """glue lemma: pure z3 obligations over contracts (no code)"""
    property_ids = ()
    title = ""
    scope = None
    src = None
    fn_name = None
    bounded = None

    @property
    def kid(self):
        return getattr(self, "name", None) or self.__class__.__name__

    def obligations(self):
        from .interp import Obligation
        out = []
        for nm, hyps, claim in self.lemmas():
            out.append(Obligation(nm, "lemma", list(hyps), claim))
        return out

    def lemmas(self):
        return []

    def matches_known(self, finding, ob, res):
        return True

    def native_replay(self, ob, res):
        return None
