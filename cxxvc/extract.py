"""Extraction: clang-14 JSON AST of the real functions in /repo's working tree.

Every run re-reads the working tree.  A persistent cache keyed by the sha256 of
*all* files under include/hgraph and src/hgraph (so any edit anywhere
invalidates it) only avoids re-running clang for an unchanged tree.
"""
import gzip
import hashlib
import json
import os
import subprocess
import sys
from concurrent.futures import ThreadPoolExecutor

REPO = os.environ.get("CXXVC_REPO", "/repo")
VERIF = os.path.dirname(os.path.dirname(os.path.abspath(__file__)))
CACHE = os.environ.get("CXXVC_CACHE", os.path.join(VERIF, ".cache"))
WHEEL_INC = "/venv/lib/python3.12/site-packages/include"
ARROW_INC = "/venv/lib/python3.12/site-packages/pyarrow/include"

_tree_hash = None


def tree_hash():
    global _tree_hash
    if _tree_hash is None:
        h = hashlib.sha256()
        for top in ("include/hgraph", "src/hgraph"):
            for d, dirs, files in os.walk(os.path.join(REPO, top)):
                dirs.sort()
                for f in sorted(files):
                    p = os.path.join(d, f)
                    h.update(p.encode())
                    with open(p, "rb") as fh:
                        h.update(fh.read())
        _tree_hash = h.hexdigest()[:24]
    return _tree_hash


def gen_dir():
    g = os.path.join(CACHE, "gen")
    os.makedirs(os.path.join(g, "hgraph"), exist_ok=True)
    src = os.path.join(REPO, "include/hgraph/version.h.in")
    out = os.path.join(g, "hgraph", "version.h")
    import re
    txt = re.sub(r"@[A-Za-z_0-9]*@", "0", open(src).read())
    if not os.path.exists(out) or open(out).read() != txt:
        with open(out, "w") as fh:
            fh.write(txt)
    return g


def clang_args(extra_inc=()):
    a = ["clang++-14", "-std=c++2b", "-fsyntax-only", "-DHGRAPH_STATIC_DEFINE",
         "-Wno-everything", "-ferror-limit=0",
         "-I" + gen_dir(), "-I" + os.path.join(REPO, "include"),
         "-I" + os.path.join(REPO, "include/third_party"),
         "-I" + os.path.join(REPO, "src"),
         "-I" + WHEEL_INC, "-I" + ARROW_INC]
    for i in extra_inc:
        a.append("-I" + i)
    return a


def _decode_all(s):
    dec = json.JSONDecoder()
    i = 0
    out = []
    n = len(s)
    while i < n:
        while i < n and s[i].isspace():
            i += 1
        if i >= n:
            break
        o, j = dec.raw_decode(s, i)
        out.append(o)
        i = j
    return out


class ExtractionError(Exception):
    pass


GEN_TUS = {}   # name -> source text of a generated translation unit (mode E2: only #include lines of real headers)


def dump(tu, flt, text=None):
    """AST dump (list of top-level matches) of `tu` (path relative to REPO, "gen:<name>" for a generated TU that
    only #includes real headers) restricted by -ast-dump-filter=flt."""
    if tu.startswith("gen:"):
        src = GEN_TUS[tu[4:]]
        gdir = os.path.join(CACHE, "gen_tu")
        os.makedirs(gdir, exist_ok=True)
        path = os.path.join(gdir, tu[4:] + ".cpp")
        if not os.path.exists(path) or open(path).read() != src:
            with open(path, "w") as fh:
                fh.write(src)
        text = src
    else:
        path = tu if os.path.isabs(tu) else os.path.join(REPO, tu)
    key = hashlib.sha256((tree_hash() + "|" + tu + "|" + flt + "|" + (text or "")).encode()).hexdigest()[:32]
    cdir = os.path.join(CACHE, "ast")
    os.makedirs(cdir, exist_ok=True)
    cpath = os.path.join(cdir, key + ".json.gz")
    if os.path.exists(cpath):
        try:
            with gzip.open(cpath, "rt") as fh:
                return json.load(fh)
        except Exception:
            os.unlink(cpath)
    cmd = clang_args() + ["-Xclang", "-ast-dump=json", "-Xclang", "-ast-dump-filter=" + flt, path]
    p = subprocess.run(cmd, capture_output=True, text=True)
    if not p.stdout.strip():
        raise ExtractionError("clang produced no AST for %s filter %s: %s" % (tu, flt, p.stderr[-2000:]))
    objs = _decode_all(p.stdout)
    tmp = cpath + ".%d.tmp" % os.getpid()
    with gzip.open(tmp, "wt", compresslevel=3) as fh:
        json.dump(objs, fh)
    os.replace(tmp, cpath)
    return objs


def dump_many(pairs):
    """pairs: iterable of (tu, filter).  Runs clang 16-wide."""
    pairs = list(dict.fromkeys(pairs))
    with ThreadPoolExecutor(max_workers=16) as ex:
        res = list(ex.map(lambda p: dump(*p), pairs))
    return dict(zip(pairs, res))


def prune_cache(keep_hash=None):
    """Remove cached ASTs that do not belong to the current tree (disk is limited)."""
    cdir = os.path.join(CACHE, "ast")
    if not os.path.isdir(cdir):
        return
    # cache entries are keyed by the tree hash indirectly; keep an index file
    idx = os.path.join(CACHE, "ast.index")
    cur = tree_hash()
    old = open(idx).read().strip() if os.path.exists(idx) else None
    if old != cur:
        for f in os.listdir(cdir):
            try:
                os.unlink(os.path.join(cdir, f))
            except OSError:
                pass
        with open(idx, "w") as fh:
            fh.write(cur)


# ---------------------------------------------------------------- locating

FUNC_KINDS = ("FunctionDecl", "CXXMethodDecl", "CXXConstructorDecl", "CXXDestructorDecl", "CXXConversionDecl")


def walk(n):
    yield n
    for c in n.get("inner", ()) or ():
        if isinstance(c, dict):
            yield from walk(c)


def has_body(fn):
    return any(c.get("kind") in ("CompoundStmt", "CXXTryStmt") for c in fn.get("inner", ()) if isinstance(c, dict))


def template_args(fn):
    out = []
    for c in fn.get("inner", ()):
        if c.get("kind") == "TemplateArgument":
            t = c.get("type", {}).get("qualType")
            if t is None and "value" in c:
                t = str(c["value"])
            if t is None:
                # expression / pack etc.
                t = json.dumps({k: v for k, v in c.items() if k not in ("inner",)})[:80]
            out.append(t)
    return out


def find_functions(objs, name, cls=None, targs=None, sig=None, want_pattern=False, plain_only=False, cls_targs=None):
    """All function definitions called `name` (optionally inside record `cls`,
    with the given template arguments (substring match per argument) and a
    substring `sig` of the function type)."""
    res = []

    def rec(n, rec_stack, in_template, spec=None):
        k = n.get("kind")
        if k in ("CXXRecordDecl", "ClassTemplateSpecializationDecl"):
            rec_stack = rec_stack + [n.get("name")]
        if k == "ClassTemplateSpecializationDecl":
            spec = [c.get("value", (c.get("type") or {}).get("qualType")) for c in n.get("inner", ()) or ()
                    if isinstance(c, dict) and c.get("kind") == "TemplateArgument"]
        if k in FUNC_KINDS and n.get("name") == name and has_body(n):
            ok = True
            if cls is not None and (not rec_stack or rec_stack[-1] != cls):
                ok = False
            ta = template_args(n)
            is_pattern = in_template and not ta
            if targs is not None:
                if len(ta) < len(targs) or any(t not in a for t, a in zip(targs, ta)):
                    ok = False
            elif in_template and not want_pattern and not ta:
                pass
            if sig is not None and sig not in n.get("type", {}).get("qualType", ""):
                ok = False
            if plain_only and in_template:
                ok = False      # a member template (or its instantiations) of the same name
            if cls_targs is not None and spec != list(cls_targs):
                ok = False      # a member of another specialization of the class template (or of the pattern)
            if ok:
                res.append(n)
        tmpl = in_template or k in ("FunctionTemplateDecl",)
        for c in n.get("inner", ()) or ():
            if isinstance(c, dict):
                rec(c, rec_stack, k == "FunctionTemplateDecl", spec)

    for o in objs:
        rec(o, [], False)
    return res


def find_record(objs, name):
    out = []
    for o in objs:
        for n in walk(o):
            if n.get("kind") in ("CXXRecordDecl", "ClassTemplateSpecializationDecl") and n.get("name") == name \
                    and n.get("completeDefinition"):
                out.append(n)
    return out


def source_info(fn):
    """(file, begin offset, end offset, sha256 of the text)."""
    r = fn.get("range", {})
    b, e = r.get("begin", {}), r.get("end", {})
    b = b.get("expansionLoc", b)
    e = e.get("expansionLoc", e)
    f = fn.get("_file")
    return f, b.get("offset"), e.get("offset")


def annotate_files(objs):
    """clang's JSON omits 'file' when unchanged from the previously printed
    location; propagate it so every node with a loc knows its file/line."""
    cur = {"file": None, "line": None}

    def fix(loc):
        if not isinstance(loc, dict):
            return
        for sub in ("spellingLoc", "expansionLoc"):
            if sub in loc:
                fix(loc[sub])
        if "file" in loc:
            cur["file"] = loc["file"]
        elif "offset" in loc:
            loc["file"] = cur["file"]
        if "line" in loc:
            cur["line"] = loc["line"]
        elif "offset" in loc:
            loc["line"] = cur["line"]

    def rec(n):
        if "loc" in n:
            fix(n["loc"])
        if "range" in n:
            fix(n["range"].get("begin"))
            fix(n["range"].get("end"))
        for c in n.get("inner", ()) or ():
            if isinstance(c, dict):
                rec(c)

    for o in objs:
        rec(o)


def fn_source(fn):
    r = fn.get("range", {})
    b, e = r.get("begin", {}), r.get("end", {})
    b = b.get("expansionLoc", b)
    e = e.get("expansionLoc", e)
    f = b.get("file")
    if f is None or b.get("offset") is None or e.get("offset") is None:
        return None
    try:
        data = open(f, "rb").read()
    except OSError:
        return None
    txt = data[b["offset"]: e["offset"] + e.get("tokLen", 1)]
    return {"file": os.path.relpath(f, REPO) if f.startswith(REPO) else f,
            "line": b.get("line"), "end_line": e.get("line"),
            "sha256": hashlib.sha256(txt).hexdigest(), "bytes": len(txt)}


def line_of(n):
    if not isinstance(n, dict):
        return None
    for key in ("loc",):
        l = n.get(key)
        if isinstance(l, dict):
            l = l.get("expansionLoc", l)
            if "line" in l:
                return l["line"]
    r = n.get("range", {}).get("begin", {})
    r = r.get("expansionLoc", r)
    return r.get("line")
