#!/bin/bash
# offline set-up: nothing is built ahead of time; verify the tools the checks use and create the cache directory
set -e
cd "$(dirname "$0")"
mkdir -p .cache evidence replays
command -v python3-vt >/dev/null || { echo "python3-vt missing"; exit 1; }
command -v clang++-14 >/dev/null || { echo "clang++-14 missing"; exit 1; }
python3-vt -c "import z3; print('z3', z3.get_version_string())"
test -d /venv/lib/python3.12/site-packages/include/fmt || { echo "wheel SDK include dir missing"; exit 1; }
echo "setup ok"
