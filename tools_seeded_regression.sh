#!/bin/bash
# every seeded change must be reported (exit 1 + VIOLATION line) by the check named in its meta.json.
# runs on a scratch worktree of /repo so that /repo itself is not touched: usage tools_seeded_regression.sh [ids...]
WT=${WTREG:-/tmp/wtreg}; CACHE=${WTREG_CACHE:-/tmp/wtreg_cache}
cd /verif
if [ ! -d $WT ]; then git -C /repo worktree add --detach $WT HEAD >/dev/null 2>&1; fi
git -C $WT checkout -q --detach $(git -C /repo rev-parse HEAD); git -C $WT checkout -q -- .
mkdir -p $CACHE /tmp/w/ev /tmp/w/rp
[ -d $CACHE/native_rt ] || cp -r /verif/.cache/native_rt $CACHE/native_rt 2>/dev/null
IDS=${@:-$(ls seeded)}
for id in $IDS; do
  p=$(python3 -c "import json;print(json.load(open('seeded/$id/meta.json'))['caught_by'].replace(',',' ').split()[0])")
  case "$p" in C[0-9][0-9]) ;; *) p=$(python3 -c "import json;print(json.load(open('seeded/$id/meta.json'))['property'])"); echo "$id: recorded as not reported; running its own property's check $p";; esac
  git -C $WT apply /verif/seeded/$id/patch.diff 2>/dev/null || { echo "$id: patch does not apply on HEAD"; continue; }
  CXXVC_REPO=$WT CXXVC_CACHE=$CACHE CXXVC_EVIDENCE_DIR=/tmp/w/ev CXXVC_REPLAY_DIR=/tmp/w/rp ./check $p > /tmp/w/reg_$id.log 2>&1; rc=$?
  git -C $WT checkout -q -- .
  echo "$id under $p: exit=$rc violations=$(grep -c '^VIOLATION' /tmp/w/reg_$id.log)"
done
