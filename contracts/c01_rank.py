"""C01 -- the ranking pass (graph_wiring.cpp build_ranked_graph, emit_edges) is not under contract: a full proof of the Kahn
sort needs cardinality reasoning over the pending-edge multiset that the generic VC generator does not carry.  It is
covered by a bounded stand-in that runs the real compiled Wiring::finish (cxxvc/native.py); the scan side of C01
(evaluate_impl visited-prefix / at-most-once / only-if-due invariants, schedule_node_impl's same-cycle clause) and the
validation of declared rank-free pairs are proved kernels in c02_graph_sched.py / c06_wiring.py."""
from cxxvc.native import NativeCheck


class RankingEnumeration(NativeCheck):
    kid = "native:c01_ranking"
    property_ids = ("C01",)
    source = "native/bounded/c01_ranking.cpp"
    title = "every bounded wiring program is ranked producers-first, each node once, cycles rejected; evaluation follows the rank"
    bound_text = ("bounded: wiring programs of N statements over {unary, binary, ternary, two-element-list, binary with a passive(...) second input} nodes with inputs chosen "
                  "among all earlier statements (repeated producers, two producers in one list input) and every set of at most two "
                  "explicit rank dependencies on later statements; quick: N <= 3 exhaustive (44 115 programs) plus 4 000 random "
                  "programs with N = 5; thorough: N = 4 exhaustive plus 60 000 random programs with N = 5")
    functions = ("graph_wiring.cpp:build_ranked_graph", "graph_wiring.cpp:emit_edges", "graph_wiring.cpp:collect_producers",
                 "Wiring::finish", "Wiring::add_rank_dependency", "graph.cpp:evaluate_impl<Root>")

    def runs(self, tier):
        if tier == "thorough":
            jobs = [(["3"], {})]
            jobs += [(["4"], {"SHARD": "%d/14" % i}) for i in range(14)]
            jobs += [(["5", "60000", "11"], {})]
            return jobs
        return [(["3"], {}), (["5", "4000", "7"], {})]


KERNELS = []
NATIVE = [RankingEnumeration]
