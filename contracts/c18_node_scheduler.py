"""C18 -- include/hgraph/runtime/node_scheduler.h : NodeScheduler

Abstract state NS = (events: finite set of (time, tag), tags: tag -> time) with
  TagInv:  forall t, g != "".  (t, g) in events  <=>  tags[g] = t          ("" is tag 0, the least string)
and the owning graph's ghost `eff[i]` (earliest time at which node i is still due, INF = none),
updated only through the contract of GraphValue::schedule_node (proved on graph.cpp:schedule_node_impl, C02):
  requires i < n, w >= T (else it throws);  ensures eff'[i] = min(eff[i], w), other slots unchanged.

Armed (the C18 glue invariant):  events != {}  =>  eff[node_index] <= min(events).
"""
import z3

from cxxvc.kernel import Kernel, LoopSpec
from cxxvc.interp import Obj, Ptr, Loc, Pair, Opt, Gap, MAX_DT, ExcVal
from cxxvc.models import SetPairs, MapKV, sel2, lexle
from cxxvc import models

TU = "src/hgraph/runtime/node.cpp"
FILTER = "NodeScheduler"
INF = MAX_DT + 1

qt, qg, qk = z3.Ints("qt qg qk")


def tag_inv(ev, has, val):
    # two directions with usable triggers (ev[t][g] resp. has[g])
    return z3.And(
        z3.ForAll([qt, qg], z3.Implies(z3.And(qg != 0, sel2(ev, qt, qg)), z3.And(has[qg], val[qg] == qt))),
        z3.ForAll([qk], z3.Implies(has[qk], z3.And(sel2(ev, val[qk], qk), qk != 0, qk >= 0))),
        z3.ForAll([qt, qg], z3.Implies(sel2(ev, qt, qg), z3.And(qg >= 0, qt >= 0, qt <= MAX_DT))))


class GraphGhost(Obj):
    """GraphValue seen through the contract of schedule_node"""
    cls = "GraphValue"

    def __init__(self, ctx):
        Obj.__init__(self, name="graph")
        ctx.store[(self.oid, "T")] = z3.Int("G_T")
        ctx.store[(self.oid, "n")] = z3.Int("G_n")
        ctx.store[(self.oid, "eff")] = z3.Array("G_eff", z3.IntSort(), z3.IntSort())
        ctx.store[(self.oid, "calls")] = z3.IntVal(0)
        ctx.store[(self.oid, "last_i")] = z3.Int("G_last_i0")
        ctx.store[(self.oid, "last_t")] = z3.Int("G_last_t0")

    def get(self, ctx, f):
        return ctx.store[(self.oid, f)]

    def m_schedule_node(self, I, args, n):
        ctx = I.ctx
        i, w = ctx.rv(args[0]), ctx.rv(args[1])
        T, nn, eff = self.get(ctx, "T"), self.get(ctx, "n"), self.get(ctx, "eff")
        if not ctx.decide(i < nn, "schedule_node.index-in-range"):
            I.throw_from_callee("GraphValue::schedule_node", cls="std::out_of_range")
        if ctx.decide(w < T, "schedule_node.in-the-past"):
            I.throw_from_callee("GraphValue::schedule_node", cls="std::runtime_error")
        ctx.write(self.loc("eff"), z3.Store(eff, i, z3.If(w < eff[i], w, eff[i])))
        ctx.write(self.loc("calls"), self.get(ctx, "calls") + 1)
        ctx.write(self.loc("last_i"), i)
        ctx.write(self.loc("last_t"), w)
        return models.VOID


class WallClock(Obj):
    cls = "EvaluationClockView"

    def __init__(self, ctx):
        Obj.__init__(self, name="wall_clock")
        self.reads = []

    def m_now(self, I, args, n):
        w = I.ctx.fresh("wall_now")
        I.ctx.assume(z3.And(w >= 0, w <= MAX_DT))
        self.reads.append(w)
        return w


class NSKernel(Kernel):
    tu = TU
    filter = FILTER
    cls = "NodeScheduler"
    inline = ("require_state", "scheduling_reference_time", "has_tag", "tag_time")
    property_ids = ("C18",)
    state_may_be_null = True
    scope = {"lo": 0, "hi": 3}

    def setup(self, I):
        ctx = I.ctx
        st = Obj("NodeSchedulerState", "state")
        self.ev = SetPairs(ctx, "events")
        self.tg = MapKV(ctx, "tags")
        ctx.store[(st.oid, "events")] = self.ev
        ctx.store[(st.oid, "tags")] = self.tg
        self.G = GraphGhost(ctx)
        self.wall = WallClock(ctx)
        th = Obj("NodeScheduler", "this")
        self.th = th
        self.state_null = z3.Bool("state_null") if self.state_may_be_null else z3.BoolVal(False)
        self.graph_null = z3.Bool("graph_null")
        ctx.store[(th.oid, "state_")] = Ptr(st, self.state_null)
        ctx.store[(th.oid, "graph_")] = Ptr(self.G, self.graph_null)
        ctx.store[(th.oid, "node_index_")] = z3.Int("node_index")
        ctx.store[(th.oid, "now_")] = z3.Int("now")
        ctx.store[(th.oid, "started_")] = z3.Bool("started")
        ctx.store[(th.oid, "wall_clock_")] = self.wall
        ctx.store[(th.oid, "supports_wall_clock_")] = z3.Bool("supports_wall")
        self.now = z3.Int("now")
        self.idx = z3.Int("node_index")
        self.ev0 = self.ev.mem(ctx)
        self.has0 = self.tg.has(ctx)
        self.val0 = self.tg.val(ctx)
        self.eff0 = self.G.get(ctx, "eff")
        # requires
        ctx.assume(tag_inv(self.ev0, self.has0, self.val0))
        ctx.assume(z3.And(self.now >= 0, self.now <= MAX_DT, self.idx >= 0))
        ctx.assume(z3.Implies(z3.Not(self.graph_null), z3.And(self.now == self.G.get(ctx, "T"),
                                                               self.idx < self.G.get(ctx, "n"))))
        ctx.assume(MAX_DT >= 3)
        return th, self.params(I)

    def params(self, I):
        return {}

    # current state accessors
    def cur(self, I):
        ctx = I.ctx
        return self.ev.mem(ctx), self.tg.has(ctx), self.tg.val(ctx)

    def unchanged(self, I):
        ev, has, val = self.cur(I)
        ctx = I.ctx
        return z3.And(ev == self.ev0, has == self.has0,
                      z3.ForAll([qk], z3.Implies(has[qk], val[qk] == self.val0[qk])),
                      self.G.get(ctx, "calls") == 0, self.G.get(ctx, "eff") == self.eff0)

    def armed(self, ev, eff):
        """every pending time below the MAX_DT sentinel has the graph slot due no later
        (MAX_DT itself is the engine's "never": no run reaches it, and the code does not arm it)"""
        return z3.ForAll([qt, qg], z3.Implies(z3.And(sel2(ev, qt, qg), qt < MAX_DT), eff[self.idx] <= qt))

    def post_exc(self, I, exc):
        ctx = I.ctx
        ctx.oblige("raises.only-as-specified", self.raise_allowed(I, exc), kind="post-exceptional")
        ctx.oblige("raises.state-unchanged", self.unchanged(I), kind="post-exceptional")

    def raise_allowed(self, I, exc):
        """default: only logic_error, and only when there is no live scheduler state"""
        return z3.And(z3.BoolVal(exc.cls == "std::logic_error"), self.state_null)

    def nonempty(self, ev):
        return z3.Exists([qt, qg], sel2(ev, qt, qg))

    def is_min_time(self, ev, r):
        return z3.And(z3.Exists([qg], sel2(ev, r, qg)), z3.ForAll([qt, qg], z3.Implies(sel2(ev, qt, qg), r <= qt)))


# ------------------------------------------------------------------ advance


class Advance(NSKernel):
    property_ids = ("C18", "C02")
    name = "NodeScheduler::advance"
    fn_name = "advance"
    title = "advance(): drop fired events (time <= now), re-arm at the earliest remaining"

    def inv(self, I, ctx):
        ev, has, val = self.cur(I)
        yield "subset", z3.ForAll([qt, qg], z3.Implies(sel2(ev, qt, qg), sel2(self.ev0, qt, qg)))
        yield "keeps-future", z3.ForAll([qt, qg], z3.Implies(z3.And(sel2(self.ev0, qt, qg), qt > self.now),
                                                              sel2(ev, qt, qg)))
        yield "taginv", tag_inv(ev, has, val)
        yield "tags-subset", z3.ForAll([qk], z3.Implies(has[qk], z3.And(self.has0[qk], val[qk] == self.val0[qk])))
        yield "dropped-tags-past", z3.ForAll([qk], z3.Implies(z3.And(self.has0[qk], z3.Not(has[qk])),
                                                               self.val0[qk] <= self.now))
        yield "no-calls", z3.And(self.G.get(ctx, "calls") == 0, self.G.get(ctx, "eff") == self.eff0)
        yield "state-live", z3.Not(self.state_null)

    def frame(self, I, ctx):
        return [self.ev.loc("mem"), self.tg.loc("has")]

    loops = property(lambda self: {0: LoopSpec(self.inv, self.frame)})

    def post(self, I, ret):
        ctx = I.ctx
        ev, has, val = self.cur(I)
        G = self.G
        null = self.state_null
        ctx.oblige("ensures.null-state-noop", z3.Implies(null, self.unchanged(I)), kind="post-normal")
        ctx.oblige("ensures.events=future-part[C18 pending set]",
                   z3.Implies(z3.Not(null), z3.ForAll([qt, qg], sel2(ev, qt, qg) == z3.And(sel2(self.ev0, qt, qg),
                                                                                           qt > self.now))),
                   kind="post-normal")
        ctx.oblige("ensures.taginv", z3.Implies(z3.Not(null), tag_inv(ev, has, val)), kind="post-normal")
        ctx.oblige("ensures.tags=future-part",
                   z3.Implies(z3.Not(null), z3.ForAll([qk], z3.And(
                       has[qk] == z3.And(self.has0[qk], self.val0[qk] > self.now),
                       z3.Implies(has[qk], val[qk] == self.val0[qk])))), kind="post-normal")
        nonempty = z3.Exists([qt, qg], sel2(ev, qt, qg))
        ctx.oblige("ensures.rearm-once-at-min[C18 woken at every pending time]",
                   z3.Implies(z3.And(z3.Not(null), z3.Not(self.graph_null), nonempty),
                              z3.And(G.get(ctx, "calls") == 1, G.get(ctx, "last_i") == self.idx,
                                     z3.Exists([qg], sel2(ev, G.get(ctx, "last_t"), qg)),
                                     z3.ForAll([qt, qg], z3.Implies(sel2(ev, qt, qg), G.get(ctx, "last_t") <= qt)))),
                   kind="post-normal")
        ctx.oblige("ensures.no-call-otherwise",
                   z3.Implies(z3.Or(null, self.graph_null, z3.Not(nonempty)),
                              z3.And(G.get(ctx, "calls") == 0, G.get(ctx, "eff") == self.eff0)), kind="post-normal")
        ctx.oblige("ensures.armed[C18 Armed]",
                   z3.Implies(z3.And(z3.Not(null), z3.Not(self.graph_null)), self.armed(ev, G.get(ctx, "eff"))),
                   kind="post-normal")
        ctx.oblige("ensures.other-slots-unchanged",
                   z3.ForAll([qk], z3.Implies(qk != self.idx, G.get(ctx, "eff")[qk] == self.eff0[qk])),
                   kind="post-normal")

    def raise_allowed(self, I, exc):
        return z3.BoolVal(False)  # advance never throws under its precondition


# ------------------------------------------------------------------ schedule(DateTime, tag, wall)


class Schedule(NSKernel):
    property_ids = ("C18", "C17")
    name = "NodeScheduler::schedule(DateTime)"
    fn_name = "schedule"
    sig = "void (hgraph::DateTime"
    title = "schedule(when, tag, on_wall_clock)"

    def params(self, I):
        ctx = I.ctx
        self.when = z3.Int("when")
        self.tag_has = z3.Bool("tag_has")
        self.tag_val = z3.Int("tag_val")
        self.wallf = z3.Bool("on_wall_clock")
        ctx.assume(z3.And(self.when >= 0, self.when <= MAX_DT, self.tag_val >= 0))
        # requires Armed
        ctx.assume(self.armed(self.ev0, self.eff0))
        # started nodes are handed a scheduler at the graph's evaluation time, which is below MAX_DT
        ctx.assume(self.now < MAX_DT)
        return {"when": self.when, "tag": Opt(self.tag_has, self.tag_val), "on_wall_clock": self.wallf}

    def spec_terms(self, I):
        """the effective time w, whether the request is ignored, the tag g"""
        started = z3.Bool("started")
        if self.wall.reads:
            wr = self.wall.reads[-1]
            ref = z3.If(self.wallf, z3.If(self.now >= wr, self.now, wr), self.now)
        else:
            ref = self.now
        ignored = z3.And(z3.Not(self.wallf), z3.If(started, self.when <= ref, self.when < ref))
        w = z3.If(z3.And(started, self.when <= ref), z3.If(self.now + 1 >= ref, self.now + 1, ref),
                  z3.If(z3.And(z3.Not(started), self.when < ref), ref, self.when))
        g = z3.If(z3.And(self.tag_has, self.tag_val != 0), self.tag_val, z3.IntVal(0))
        return ignored, w, g

    def post(self, I, ret):
        ctx = I.ctx
        ev, has, val = self.cur(I)
        G = self.G
        ignored, w, g = self.spec_terms(I)
        ctx.oblige("ensures.state-live", z3.Not(self.state_null), kind="post-normal")
        ctx.oblige("ensures.wall-needs-support", z3.Implies(self.wallf, z3.Bool("supports_wall")), kind="post-normal")
        ctx.oblige("ensures.ignored-request-changes-nothing[C18 current/past ignored, existing undisturbed]",
                   z3.Implies(ignored, self.unchanged(I)), kind="post-normal")
        replaced = z3.And(g != 0, self.has0[g])
        ev_expect = lambda t, gg: z3.Or(z3.And(t == w, gg == g),
                                        z3.And(sel2(self.ev0, t, gg),
                                               z3.Not(z3.And(replaced, t == self.val0[g], gg == g))))
        ctx.oblige("ensures.events-updated[C18 tag replaces, untagged accumulate]",
                   z3.Implies(z3.Not(ignored), z3.ForAll([qt, qg], sel2(ev, qt, qg) == ev_expect(qt, qg))),
                   kind="post-normal")
        ctx.oblige("ensures.tags-updated",
                   z3.Implies(z3.Not(ignored), z3.ForAll([qk], z3.And(
                       has[qk] == z3.Or(self.has0[qk], z3.And(g != 0, qk == g)),
                       z3.Implies(has[qk], val[qk] == z3.If(z3.And(g != 0, qk == g), w, self.val0[qk]))))),
                   kind="post-normal")
        ctx.oblige("ensures.taginv[C18 a tag holds at most one pending time]", tag_inv(ev, has, val), kind="post-normal")
        ctx.oblige("ensures.never-in-the-past[C18]",
                   z3.Implies(z3.Not(ignored), z3.And(w >= self.now, z3.Implies(z3.Bool("started"), w > self.now),
                                                      z3.Implies(z3.Not(self.wallf), w == self.when))),
                   kind="post-normal")
        ctx.oblige("ensures.armed-preserved[C18 Armed]",
                   z3.Implies(z3.Not(self.graph_null), self.armed(ev, G.get(ctx, "eff"))), kind="post-normal")
        ctx.oblige("ensures.at-most-one-graph-call", z3.And(G.get(ctx, "calls") <= 1,
                   z3.Implies(G.get(ctx, "calls") == 1, z3.And(G.get(ctx, "last_i") == self.idx,
                                                                self.is_min_time(ev, G.get(ctx, "last_t"))))),
                   kind="post-normal")
        ctx.oblige("ensures.other-slots-unchanged",
                   z3.ForAll([qk], z3.Implies(qk != self.idx, G.get(ctx, "eff")[qk] == self.eff0[qk])),
                   kind="post-normal")

    def raise_allowed(self, I, exc):
        return z3.And(z3.BoolVal(exc.cls == "std::logic_error"),
                      z3.Or(self.state_null, z3.And(self.wallf, z3.Not(z3.Bool("supports_wall")))))


class ScheduleDelta(Schedule):
    name = "NodeScheduler::schedule(TimeDelta)"
    sig = "void (hgraph::TimeDelta"
    title = "schedule(delta, tag, on_wall_clock) == schedule(reference + delta, ...)"
    inline = NSKernel.inline + ("schedule",)

    def params(self, I):
        p = Schedule.params(self, I)
        self.delta = z3.Int("delta")
        I.ctx.assume(z3.And(self.delta >= -MAX_DT, self.delta <= MAX_DT))
        del p["when"]
        p["delta"] = self.delta
        return p

    def post(self, I, ret):
        # when := reference + delta, with the reference read first
        wr = self.wall.reads[0] if self.wall.reads else None
        ref = self.now if wr is None else z3.If(self.wallf, z3.If(self.now >= wr, self.now, wr), self.now)
        I.ctx.assume(self.when == ref + self.delta)
        I.ctx.oblige("ensures.time-in-range-precondition-of-callee",
                     z3.BoolVal(True), kind="post-normal")
        Schedule.post(self, I, ret)


# ------------------------------------------------------------------ cancellations


class UnScheduleTag(NSKernel):
    name = "NodeScheduler::un_schedule(tag)"
    fn_name = "un_schedule"
    sig = "void (const std::string &)"
    title = "un_schedule(tag): cancel the tag's event"

    def params(self, I):
        self.tag = z3.Int("tag")
        I.ctx.assume(self.tag >= 0)
        I.ctx.assume(self.armed(self.ev0, self.eff0))
        return {"tag": self.tag}

    def post(self, I, ret):
        ctx = I.ctx
        ev, has, val = self.cur(I)
        hit = self.has0[self.tag]
        ctx.oblige("ensures.state-live", z3.Not(self.state_null), kind="post-normal")
        ctx.oblige("ensures.events=minus-tag-event[C18 cancel]",
                   z3.ForAll([qt, qg], sel2(ev, qt, qg) == z3.And(sel2(self.ev0, qt, qg), z3.Not(z3.And(
                       hit, qt == self.val0[self.tag], qg == self.tag)))), kind="post-normal")
        ctx.oblige("ensures.tags=minus-tag",
                   z3.ForAll([qk], z3.And(has[qk] == z3.And(self.has0[qk], qk != self.tag),
                                          z3.Implies(has[qk], val[qk] == self.val0[qk]))), kind="post-normal")
        ctx.oblige("ensures.taginv", tag_inv(ev, has, val), kind="post-normal")
        ctx.oblige("ensures.no-graph-call", z3.And(self.G.get(ctx, "calls") == 0, self.G.get(ctx, "eff") == self.eff0),
                   kind="post-normal")
        ctx.oblige("ensures.armed-preserved[C18 Armed]", self.armed(ev, self.G.get(ctx, "eff")), kind="post-normal")


class UnScheduleNext(NSKernel):
    name = "NodeScheduler::un_schedule()"
    fn_name = "un_schedule"
    sig = "void () const"
    title = "un_schedule(): cancel the earliest event"

    def params(self, I):
        I.ctx.assume(self.armed(self.ev0, self.eff0))
        return {}

    def post(self, I, ret):
        ctx = I.ctx
        ev, has, val = self.cur(I)
        mt, mg = z3.Ints("spec_min_t spec_min_g")
        ismin = z3.And(sel2(self.ev0, mt, mg),
                       z3.ForAll([qt, qg], z3.Implies(sel2(self.ev0, qt, qg), lexle(mt, mg, qt, qg))))
        ctx.oblige("ensures.state-live", z3.Not(self.state_null), kind="post-normal")
        ctx.oblige("ensures.empty-noop", z3.Implies(z3.Not(self.nonempty(self.ev0)), self.unchanged(I)), kind="post-normal")
        ctx.oblige("ensures.events=minus-earliest[C18 cancel next]",
                   z3.Implies(ismin, z3.ForAll([qt, qg], sel2(ev, qt, qg) == z3.And(
                       sel2(self.ev0, qt, qg), z3.Not(z3.And(qt == mt, qg == mg))))), kind="post-normal")
        ctx.oblige("ensures.tags=minus-its-tag",
                   z3.Implies(ismin, z3.ForAll([qk], z3.And(has[qk] == z3.And(self.has0[qk], qk != mg),
                                                            z3.Implies(has[qk], val[qk] == self.val0[qk])))),
                   kind="post-normal")
        ctx.oblige("ensures.taginv", tag_inv(ev, has, val), kind="post-normal")
        ctx.oblige("ensures.no-graph-call", z3.And(self.G.get(ctx, "calls") == 0, self.G.get(ctx, "eff") == self.eff0),
                   kind="post-normal")
        ctx.oblige("ensures.armed-preserved[C18 Armed]", self.armed(ev, self.G.get(ctx, "eff")), kind="post-normal")


class PopTag(NSKernel):
    name = "NodeScheduler::pop_tag"
    fn_name = "pop_tag"
    title = "pop_tag(tag, default): remove the tag's event and return its time"

    def params(self, I):
        self.tag = z3.Int("tag")
        self.dflt = z3.Int("default_time")
        I.ctx.assume(self.tag >= 0)
        I.ctx.assume(self.armed(self.ev0, self.eff0))
        return {"tag": self.tag, "default_time": self.dflt}

    def post(self, I, ret):
        ctx = I.ctx
        ev, has, val = self.cur(I)
        hit = self.has0[self.tag]
        ctx.oblige("ensures.state-live", z3.Not(self.state_null), kind="post-normal")
        ctx.oblige("ensures.result[C18 tag lookups agree]", ret == z3.If(hit, self.val0[self.tag], self.dflt), kind="post-normal")
        ctx.oblige("ensures.events=minus-tag-event[C18 pop]",
                   z3.ForAll([qt, qg], sel2(ev, qt, qg) == z3.And(sel2(self.ev0, qt, qg), z3.Not(z3.And(
                       hit, qt == self.val0[self.tag], qg == self.tag)))), kind="post-normal")
        ctx.oblige("ensures.tags=minus-tag",
                   z3.ForAll([qk], z3.And(has[qk] == z3.And(self.has0[qk], qk != self.tag),
                                          z3.Implies(has[qk], val[qk] == self.val0[qk]))), kind="post-normal")
        ctx.oblige("ensures.taginv", tag_inv(ev, has, val), kind="post-normal")
        ctx.oblige("ensures.no-graph-call", z3.And(self.G.get(ctx, "calls") == 0, self.G.get(ctx, "eff") == self.eff0),
                   kind="post-normal")
        ctx.oblige("ensures.armed-preserved[C18 Armed]", self.armed(ev, self.G.get(ctx, "eff")), kind="post-normal")


class Reset(NSKernel):
    name = "NodeScheduler::reset"
    fn_name = "reset"
    title = "reset(): drop every pending event"

    def post(self, I, ret):
        ctx = I.ctx
        ev, has, val = self.cur(I)
        ctx.oblige("ensures.state-live", z3.Not(self.state_null), kind="post-normal")
        ctx.oblige("ensures.events-empty[C18 reset]", z3.ForAll([qt, qg], z3.Not(sel2(ev, qt, qg))), kind="post-normal")
        ctx.oblige("ensures.tags-empty", z3.ForAll([qk], z3.Not(has[qk])), kind="post-normal")
        ctx.oblige("ensures.taginv", tag_inv(ev, has, val), kind="post-normal")
        ctx.oblige("ensures.no-graph-call", z3.And(self.G.get(ctx, "calls") == 0, self.G.get(ctx, "eff") == self.eff0),
                   kind="post-normal")


# ------------------------------------------------------------------ queries


class Query(NSKernel):
    def post_common(self, I):
        I.ctx.oblige("ensures.pure", self.unchanged(I), kind="post-normal")

    def raise_allowed(self, I, exc):
        return z3.BoolVal(False)


class NextScheduledTime(Query):
    name = "NodeScheduler::next_scheduled_time"
    fn_name = "next_scheduled_time"
    title = "next_scheduled_time() == min(events) or MIN_DT"

    def post(self, I, ret):
        ev = self.ev0
        live = z3.And(z3.Not(self.state_null), self.nonempty(ev))
        I.ctx.oblige("ensures.result=min-or-MIN_DT[C18 answers agree with pending set]",
                     z3.And(z3.Implies(live, self.is_min_time(ev, ret)), z3.Implies(z3.Not(live), ret == 0)),
                     kind="post-normal")
        self.post_common(I)


class IsScheduled(Query):
    name = "NodeScheduler::is_scheduled"
    fn_name = "is_scheduled"
    title = "is_scheduled() <=> events != {}"

    def post(self, I, ret):
        I.ctx.oblige("ensures.result[C18 answers agree with pending set]",
                     ret == z3.And(z3.Not(self.state_null), self.nonempty(self.ev0)), kind="post-normal")
        self.post_common(I)


class IsScheduledNow(Query):
    name = "NodeScheduler::is_scheduled_now"
    fn_name = "is_scheduled_now"
    title = "is_scheduled_now() <=> min(events) == now"

    def post(self, I, ret):
        ev = self.ev0
        I.ctx.oblige("ensures.result[C18 answers agree with pending set]",
                     ret == z3.And(z3.Not(self.state_null), self.is_min_time(ev, self.now)), kind="post-normal")
        self.post_common(I)


class HasTag(Query):
    name = "NodeScheduler::has_tag"
    fn_name = "has_tag"
    title = "has_tag(tag) <=> tag in dom(tags)"

    def params(self, I):
        self.tag = z3.Int("tag")
        I.ctx.assume(self.tag >= 0)
        return {"tag": self.tag}

    def post(self, I, ret):
        I.ctx.oblige("ensures.result[C18 tag lookups agree]", ret == z3.And(z3.Not(self.state_null), self.has0[self.tag]),
                     kind="post-normal")
        self.post_common(I)


class TagTime(Query):
    name = "NodeScheduler::tag_time"
    fn_name = "tag_time"
    title = "tag_time(tag, default)"

    def params(self, I):
        self.tag = z3.Int("tag")
        self.dflt = z3.Int("default_time")
        I.ctx.assume(self.tag >= 0)
        return {"tag": self.tag, "default_time": self.dflt}

    def post(self, I, ret):
        I.ctx.oblige("ensures.result[C18 tag lookups agree]",
                     ret == z3.If(z3.And(z3.Not(self.state_null), self.has0[self.tag]), self.val0[self.tag], self.dflt),
                     kind="post-normal")
        self.post_common(I)


class TagIsScheduledNow(Query):
    name = "NodeScheduler::tag_is_scheduled_now"
    fn_name = "tag_is_scheduled_now"
    title = "tag_is_scheduled_now(tag) <=> tags[tag] == now"

    def params(self, I):
        self.tag = z3.Int("tag")
        I.ctx.assume(self.tag >= 0)
        return {"tag": self.tag}

    def post(self, I, ret):
        I.ctx.oblige("ensures.result[C18 tag lookups agree]",
                     ret == z3.And(z3.Not(self.state_null), self.has0[self.tag], self.val0[self.tag] == self.now),
                     kind="post-normal")
        self.post_common(I)


KERNELS = [Advance, Schedule, ScheduleDelta, UnScheduleTag, UnScheduleNext, PopTag, Reset,
           NextScheduledTime, IsScheduled, IsScheduledNow, HasTag, TagTime, TagIsScheduledNow]


# ------------------------------------------------------------------ native replay of counter-models (real header, real code)
#
# A refuted obligation of a NodeScheduler kernel comes with a finite-scope counter-model: an entry state (pending events,
# tag index, now, node index, flags, arguments).  The replay builds exactly that NodeScheduler natively (native/replay/
# ns_replay.cpp includes the REAL node_scheduler.h of the tree being checked; only GraphValue::schedule_node is a recording
# stub with the contract the kernels use), runs the operation, reads the final state back and evaluates the kernel's own
# postconditions on (entry state, final state, result).  "confirmed" = the named clause is false on the real run.

import os as _os
import subprocess as _sp
import hashlib as _hl

from cxxvc.interp import Ctx as _Ctx, Interp as _Interp, MAX_DT_VALUE as _MAXV
from cxxvc import extract as _extract


def _parse_model_value(s):
    """z3's printed model value -> python: int / bool / (default, {index: value}) for arrays"""
    ns = {"Int": None, "Bool": None, "True": True, "False": False,
          "K": lambda sort, v: (v, {}),
          "Store": lambda a, i, v: (a[0], dict(list(a[1].items()) + [(i, v)]))}
    return eval(s.replace("\n", " "), {"__builtins__": {}}, ns)


def _arr_get(a, i):
    return a[1].get(i, a[0])


class _Replay:
    OPS = {"Advance": "advance", "Schedule": "schedule_dt", "ScheduleDelta": "schedule_td", "UnScheduleTag": "un_schedule_tag",
           "UnScheduleNext": "un_schedule", "PopTag": "pop_tag", "Reset": "reset", "NextScheduledTime": "next_scheduled_time",
           "IsScheduled": "is_scheduled", "IsScheduledNow": "is_scheduled_now", "HasTag": "has_tag", "TagTime": "tag_time",
           "TagIsScheduledNow": "tag_is_scheduled_now"}

    @staticmethod
    def harness():
        d = _os.path.join(_extract.CACHE, "replay")
        _os.makedirs(d, exist_ok=True)
        src = _os.path.join(_extract.VERIF, "native", "replay", "ns_replay.cpp")
        hdr = _os.path.join(_extract.REPO, "include/hgraph/runtime/node_scheduler.h")
        key = _hl.sha256(open(src, "rb").read() + open(hdr, "rb").read() + _extract.tree_hash().encode()).hexdigest()[:16]
        exe = _os.path.join(d, "ns_replay_" + key)
        if not _os.path.exists(exe):
            cmd = ["g++", "-std=c++23", "-O0", "-w", "-DFMT_HEADER_ONLY", "-DHGRAPH_STATIC_DEFINE", "-I" + _extract.gen_dir(),
                   "-I" + _os.path.join(_extract.REPO, "include"), "-I" + _os.path.join(_extract.REPO, "include/third_party"),
                   "-I" + _extract.WHEEL_INC, src, "-o", exe]
            p = _sp.run(cmd, capture_output=True, text=True)
            if p.returncode != 0:
                raise RuntimeError("replay harness does not build: " + p.stderr[-800:])
        return exe


def _ns_native_replay(self, ob, r):
    op = _Replay.OPS.get(type(self).__name__)
    if op is None or not r.get("model"):
        return None
    m = {k: _parse_model_value(v) for k, v in r["model"].items()}
    ms = m.get("MAX_DT", 3)
    real = lambda v: v if v < ms else _MAXV + (v - ms)
    if m.get("on_wall_clock") and m.get("supports_wall"):
        return {"status": "unsupported", "detail": "wall-clock alarm: the wall clock read is not replayed"}
    # finite-scope models constrain arrays only over the scope's universe; outside it the default is meaningless
    sc = getattr(self, "scope", None) or {"lo": 0, "hi": 3}
    U = [v for v in range(sc["lo"] - 2, sc["hi"] + 3) if v >= 0]
    ev0 = m.get("events_mem0", ((False, {}), {}))
    events = [(t, k) for t in U if t <= ms for k in U if _arr_get(_arr_get(ev0, t), k)]
    has0, val0 = m.get("tags_has0", (False, {})), m.get("tags_val0", (0, {}))
    tags = [(k, _arr_get(val0, k)) for k in U if k != 0 and _arr_get(has0, k)]
    g = lambda k, d=0: m.get(k, d)
    b = lambda k: 1 if m.get(k, False) else 0
    lines = ["%d %d %d %d %d %d %d %d" % (real(g("now")), g("node_index"), b("started"), b("graph_null"), b("state_null"),
                                           b("supports_wall"), real(g("G_T")), g("G_n"))]
    lines.append(" ".join([str(len(events))] + ["%d %d" % (real(t), k) for t, k in events]))
    lines.append(" ".join([str(len(tags))] + ["%d %d" % (k, real(t)) for k, t in tags]))
    if op == "schedule_dt":
        lines.append("%s %d %d %d %d" % (op, real(g("when")), b("tag_has"), g("tag_val"), b("on_wall_clock")))
    elif op == "schedule_td":
        lines.append("%s %d %d %d %d" % (op, g("delta"), b("tag_has"), g("tag_val"), b("on_wall_clock")))
    elif op in ("un_schedule_tag", "has_tag", "tag_is_scheduled_now"):
        lines.append("%s %d" % (op, g("tag")))
    elif op in ("pop_tag", "tag_time"):
        lines.append("%s %d %d" % (op, g("tag"), real(g("default_time")) if g("default_time") >= 0 else 0))
    else:
        lines.append(op)
    if any(t < 0 for _, t in tags):
        return {"status": "unsupported", "detail": "counter-model outside the representable entry states"}
    exe = _Replay.harness()
    p = _sp.run([exe], input="\n".join(lines) + "\n", capture_output=True, text=True, timeout=60)
    if p.returncode != 0:
        return {"status": "harness-error", "detail": (p.stdout + p.stderr)[-400:]}
    out = {l.split()[0]: l.split()[1:] for l in p.stdout.splitlines() if l.strip()}
    exc = out["exc"][0]
    fe = [(int(out["events"][1 + 2 * i]), int(out["events"][2 + 2 * i])) for i in range(int(out["events"][0]))]
    ft = [(int(out["tags"][1 + 2 * i]), int(out["tags"][2 + 2 * i])) for i in range(int(out["tags"][0]))]
    calls = [(int(out["calls"][1 + 2 * i]), int(out["calls"][2 + 2 * i])) for i in range(int(out["calls"][0]))]
    # ---- evaluate the kernel's own postconditions on the real run
    I_ = z3.IntSort()
    B_ = z3.BoolSort()

    def arr2(pairs):
        a = z3.K(I_, z3.K(I_, z3.BoolVal(False)))
        rows = {}
        for t, k in pairs:
            rows.setdefault(t, []).append(k)
        for t, ks in rows.items():
            row = z3.K(I_, z3.BoolVal(False))
            for k in ks:
                row = z3.Store(row, k, True)
            a = z3.Store(a, t, row)
        return a

    def arr_has(pairs):
        a = z3.K(I_, z3.BoolVal(False))
        for k, _ in pairs:
            a = z3.Store(a, k, True)
        return a

    def arr_val(pairs, default=0):
        a = z3.K(I_, z3.IntVal(default))
        for k, t in pairs:
            a = z3.Store(a, k, t)
        return a

    eff0 = m.get("G_eff", (ms + 1, {}))
    eff_pre = z3.K(I_, z3.IntVal(real(eff0[0])))
    for i, v in eff0[1].items():
        eff_pre = z3.Store(eff_pre, i, real(v))
    saved = self.current_property if hasattr(self, "current_property") else None
    self.current_property = None
    ctx = _Ctx(self, [])
    I = _Interp(self, ctx)
    self.setup(I)
    eff_fin = eff_pre
    effv = dict((i, real(v)) for i, v in eff0[1].items())
    for i, w in calls:
        cur = effv.get(i, real(eff0[0]))
        effv[i] = min(cur, w)
        eff_fin = z3.Store(eff_fin, i, effv[i])
    ctx.store[self.ev.loc("mem").key] = arr2(fe)
    ctx.store[self.tg.loc("has").key] = arr_has(ft)
    ctx.store[self.tg.loc("val").key] = arr_val(ft)
    ctx.store[self.G.loc("eff").key] = eff_fin
    ctx.store[self.G.loc("calls").key] = z3.IntVal(len(calls))
    if calls:
        ctx.store[self.G.loc("last_i").key] = z3.IntVal(calls[-1][0])
        ctx.store[self.G.loc("last_t").key] = z3.IntVal(calls[-1][1])
    ctx.hyps, ctx.obligs = [], []
    try:
        if exc != "-":
            self.post_exc(I, ExcVal(exc, origin="native"))
        else:
            rv = out["ret"][0]
            if rv == "-":
                ret = models.VOID
            elif type(self).__name__ in ("IsScheduled", "IsScheduledNow", "HasTag", "TagIsScheduledNow"):
                ret = z3.BoolVal(rv == "1")
            else:
                ret = z3.IntVal(int(rv))
            self.post(I, ret)
    finally:
        self.current_property = saved
    subst = [(z3.Array("events_mem0", I_, z3.ArraySort(I_, B_)), arr2([(real(t), k) for t, k in events])),
             (z3.Array("tags_has0", I_, B_), arr_has(tags)), (z3.Array("tags_val0", I_, I_), arr_val([(k, real(t)) for k, t in tags])),
             (z3.Array("G_eff", I_, I_), eff_pre), (z3.Int("MAX_DT"), z3.IntVal(_MAXV))]
    for nm in ("now", "G_T", "when", "default_time"):
        if nm in m:
            subst.append((z3.Int(nm), z3.IntVal(real(m[nm]) if m[nm] >= 0 else m[nm])))
    for nm in ("node_index", "G_n", "tag", "tag_val", "delta"):
        if nm in m:
            subst.append((z3.Int(nm), z3.IntVal(m[nm])))
    for nm in ("started", "graph_null", "state_null", "supports_wall", "tag_has", "on_wall_clock"):
        if nm in m:
            subst.append((z3.Bool(nm), z3.BoolVal(bool(m[nm]))))
    failed, undecided = [], []
    for o2 in ctx.obligs:
        f = z3.substitute(o2.claim, *subst)
        s = z3.Solver()
        s.set("timeout", 10000)
        s.add(z3.Not(f))
        rr = s.check()
        if rr == z3.sat:
            failed.append(o2.name)
        elif rr != z3.unsat:
            undecided.append(o2.name)
    rec = {"entry_state": lines, "native_output": p.stdout.splitlines(), "clauses_false_on_the_real_run": failed,
           "clauses_undecided": undecided, "harness": "native/replay/ns_replay.cpp (real node_scheduler.h)"}
    rec["status"] = "confirmed" if ob.name in failed else ("not-reproduced" if ob.name not in undecided else "undecided")
    return rec


NSKernel.native_replay = _ns_native_replay
