"""node.cpp kernels (C03, C14, C15, C18, C02): evaluate_impl, ready_to_evaluate, activate/deactivate_input_slots,
start_impl, stop_impl, schedule_node_from_storage."""
import z3

from cxxvc.kernel import Kernel, LoopSpec, Lemma
from cxxvc.interp import Obj, Ptr, Loc, ArrLoc, Opt, Gap, MAX_DT, ExcVal, VOID, ThrowEx
from cxxvc import extract, models
from cxxvc.models import SetPairs, MapKV, Vec, sel2

TU = "src/hgraph/runtime/node.cpp"
I_ = z3.IntSort()
B_ = z3.BoolSort()
qs, qk, qt, qg = z3.Ints("qs qk qt qg")


class FnPtr(Obj):
    cls = "fnptr"

    def __init__(self, fn, name="fn"):
        Obj.__init__(self, name=name)
        self.fn = fn

    def call(self, I, args, n):
        return self.fn(I, args, n)

    def truth(self, I):
        return z3.BoolVal(True)


class NodeKernel(Kernel):
    tu = TU
    scope = {"lo": 0, "hi": 3}

    # ---- common abstract node
    def make_node(self, I):
        ctx = I.ctx
        self.T = z3.Int("evaluation_time")
        ctx.assume(z3.And(self.T >= 1, self.T < MAX_DT))
        self.view = Obj("NodeView", "view")
        self.rt = Obj("NodeRuntimeContext", "runtime")
        lay = Obj("NodeRuntimeLayout", "layout")
        self.layout = lay
        ctx.store[(self.rt.oid, "layout")] = lay
        self.has_scheduler = z3.Bool("has_scheduler")
        self.has_input = z3.Bool("has_input")
        self.has_error_output = z3.Bool("has_error_output")
        self.st = Obj("NodeRuntimeStorage", "node_state")
        self.started0 = z3.Bool("node_started")
        ctx.store[(self.st.oid, "started")] = self.started0
        ctx.store[(self.st.oid, "starting")] = z3.BoolVal(False)
        ctx.store[(self.st.oid, "stopping")] = z3.BoolVal(False)
        self.node_index = z3.Int("node_index")
        ctx.store[(self.st.oid, "node_index")] = self.node_index
        self.graph_null = z3.Bool("graph_null")
        self.G = GraphGhost(ctx)
        ctx.store[(self.st.oid, "graph")] = Ptr(self.G, self.graph_null)
        ctx.assume(z3.And(self.node_index >= 0, self.node_index < self.G.get(ctx, "n"), self.G.get(ctx, "T") == self.T))
        # schema
        sch = Obj("NodeTypeMetaData", "node_schema")
        self.schema = sch
        self.schema_null = z3.BoolVal(False)
        self.captures = z3.Bool("captures_errors")
        ctx.store[(sch.oid, "captures_errors")] = self.captures
        self.schedule_on_start = z3.Bool("schedule_on_start")
        ctx.store[(sch.oid, "schedule_on_start")] = self.schedule_on_start
        # callbacks
        cb = Obj("NodeCallbacks", "callbacks")
        self.cb = cb
        self.has_eval_cb = z3.Bool("has_evaluate_callback")
        self.validity_in_evaluate = z3.Bool("input_validity_in_evaluate")
        ctx.store[(cb.oid, "input_validity_in_evaluate")] = self.validity_in_evaluate
        g = Obj("ghost", "ng")
        self.g = g
        for nm in ("eval_calls", "start_calls", "stop_calls", "err_writes", "activations", "deactivations", "ready_calls"):
            ctx.store[(g.oid, nm)] = z3.IntVal(0)
        ctx.store[(g.oid, "err_msg")] = z3.Int("err_msg0")
        ctx.store[(g.oid, "err_t")] = z3.Int("err_t0")
        ctx.store[(g.oid, "threw")] = z3.BoolVal(False)
        ctx.store[(g.oid, "thrown_msg")] = z3.Int("thrown_msg0")
        ctx.store[(g.oid, "eval_t")] = z3.Int("eval_t0")
        ctx.store[(g.oid, "user_phase")] = z3.IntVal(0)
        ctx.store[(cb.oid, "evaluate")] = Ptr(FnPtr(self.cb_evaluate, "evaluate"), z3.Not(self.has_eval_cb))
        self.has_start_cb = z3.Bool("has_start_callback")
        self.has_stop_cb = z3.Bool("has_stop_callback")
        ctx.store[(cb.oid, "start")] = Ptr(FnPtr(self.cb_start, "start"), z3.Not(self.has_start_cb))
        ctx.store[(cb.oid, "stop")] = Ptr(FnPtr(self.cb_stop, "stop"), z3.Not(self.has_stop_cb))
        self.ctx_token = Obj("context", "context")

    def gg(self, ctx, nm):
        return ctx.store[(self.g.oid, nm)]

    def gs_(self, I, nm, v):
        I.ctx.write(Loc((self.g.oid, nm)), v)

    def user_throw(self, I, origin):
        ctx = I.ctx
        e = ExcVal("unknown", origin=origin)
        self.gs_(I, "threw", z3.BoolVal(True))
        self.gs_(I, "thrown_msg", e.what_term(ctx))
        ctx.uncaught += 1
        raise ThrowEx(e)

    def cb_evaluate(self, I, args, n):
        ctx = I.ctx
        self.gs_(I, "eval_calls", self.gg(ctx, "eval_calls") + 1)
        self.gs_(I, "eval_t", ctx.rv(args[1]))
        self.user_effects(I)
        if ctx.choose(2, "user evaluate outcome") == 1:
            self.user_throw(I, "callbacks.evaluate")
        return VOID

    def cb_start(self, I, args, n):
        ctx = I.ctx
        self.gs_(I, "start_calls", self.gg(ctx, "start_calls") + 1)
        if ctx.choose(2, "user start outcome") == 1:
            self.user_throw(I, "callbacks.start")
        return VOID

    def cb_stop(self, I, args, n):
        ctx = I.ctx
        self.gs_(I, "stop_calls", self.gg(ctx, "stop_calls") + 1)
        if ctx.choose(2, "user stop outcome") == 1:
            self.user_throw(I, "callbacks.stop")
        return VOID

    def user_effects(self, I):
        pass

    # ---- callee table shared by the node.cpp kernels
    def function_handler(self, name, node, callee_node):
        h = getattr(self, "f_" + name, None)
        if h is not None:
            return h
        return Kernel.function_handler(self, name, node, callee_node)

    def f_runtime_context(self, I, args, n):
        return self.rt

    def f_node_storage(self, I, args, n):
        return self.st

    def f_callbacks(self, I, args, n):
        return self.cb

    def method_handler(self, obj, name, node):
        k = self
        if obj is self.layout:
            m = {"has_scheduler": self.has_scheduler, "has_input": self.has_input,
                 "has_error_output": self.has_error_output}
            if name in m:
                return lambda I, o, a, n, v=m[name]: v
        if obj is self.view:
            h = getattr(self, "v_" + name, None)
            if h is not None:
                return h
        return Kernel.method_handler(self, obj, name, node)

    def v_started(self, I, o, a, n):
        return I.ctx.store[(self.st.oid, "started")]

    def v_data(self, I, o, a, n):
        return Ptr(Obj("mem", "node_memory"), z3.BoolVal(False))

    def v_schema(self, I, o, a, n):
        return Ptr(self.schema, self.schema_null)

    def v_node_index(self, I, o, a, n):
        return self.node_index

    def v_graph_value(self, I, o, a, n):
        return Ptr(self.G, self.graph_null)

    def v_has_input(self, I, o, a, n):
        return self.has_input


class GraphGhost(Obj):
    """GraphValue through the contract of schedule_node (C02)"""
    cls = "GraphValue"

    def __init__(self, ctx):
        Obj.__init__(self, name="graph")
        ctx.store[(self.oid, "T")] = z3.Int("G_T")
        ctx.store[(self.oid, "n")] = z3.Int("G_n")
        ctx.store[(self.oid, "eff")] = z3.Array("G_eff", I_, I_)
        ctx.store[(self.oid, "calls")] = z3.IntVal(0)
        ctx.store[(self.oid, "last_i")] = z3.Int("G_last_i0")
        ctx.store[(self.oid, "last_t")] = z3.Int("G_last_t0")
        self.eff0 = ctx.store[(self.oid, "eff")]

    def get(self, ctx, f):
        return ctx.store[(self.oid, f)]

    def m_view(self, I, args, n):
        return self

    def m_evaluation_time(self, I, args, n):
        return self.get(I.ctx, "T")

    # observers of the graph's schedule (graph.cpp): the cache is a lower bound of every pending slot (C02 cache_le); a raw
    # slot is the node's pending time when it has one, otherwise a consumed time (<= T) or MIN_DT
    def m_next_scheduled_time(self, I, args, n):
        ctx = I.ctx
        c = ctx.fresh("graph_next_scheduled_time")
        eff = self.get(ctx, "eff")
        ctx.assume(z3.ForAll([qk], z3.Implies(z3.And(qk >= 0, qk < self.get(ctx, "n")), c <= eff[qk])))
        return c

    def m_node_scheduled_time(self, I, args, n):
        ctx = I.ctx
        i = ctx.rv(args[0])
        s = ctx.fresh("raw_slot")
        eff, T = self.get(ctx, "eff"), self.get(ctx, "T")
        ctx.assume(z3.If(eff[i] <= MAX_DT, s == eff[i], z3.And(s >= 0, s <= T)))
        return s

    def m_schedule_node(self, I, args, n):
        ctx = I.ctx
        i, w = ctx.rv(args[0]), ctx.rv(args[1])
        T, nn, eff = self.get(ctx, "T"), self.get(ctx, "n"), self.get(ctx, "eff")
        if not ctx.decide(i < nn, "schedule_node.index-in-range"):
            I.throw_from_callee("GraphValue::schedule_node", cls="std::out_of_range")
        if ctx.decide(w < T, "schedule_node.in-the-past"):
            I.throw_from_callee("GraphValue::schedule_node", cls="std::runtime_error")
        ctx.write(self.loc("eff"), z3.Store(eff, i, z3.If(w < eff[i], w, eff[i])))
        ctx.write(self.loc("calls"), self.get(ctx, "calls") + 1)
        ctx.write(self.loc("last_i"), i)
        ctx.write(self.loc("last_t"), w)
        return VOID


# =====================================================================================================
# evaluate_impl
# =====================================================================================================


class SchedFacade(Obj):
    """NodeScheduler constructed in evaluate_impl, with the contracts proved in c18_node_scheduler"""
    cls = "NodeScheduler"

    def __init__(self, k, I, args, n):
        Obj.__init__(self, name="sched")
        ctx = I.ctx
        self.k = k
        st = ctx.rv(args[0])
        g = ctx.rv(args[1])
        idx = ctx.rv(args[2])
        now = ctx.rv(args[3])
        # construction-site facts that the C18 contracts rely on
        ctx.oblige("callee-pre.NodeScheduler:constructed-at-the-graph's-evaluation-time[C18 rely]",
                   z3.And(now == k.G.get(ctx, "T"), idx == k.node_index, idx < k.G.get(ctx, "n")), kind="callee-pre",
                   line=extract.line_of(n))
        self.state = st
        self.now = now

    def events(self, ctx):
        return self.k.ev.mem(ctx)

    def m_advance(self, I, args, n):
        ctx = I.ctx
        k = self.k
        ev0 = self.events(ctx)
        ev1 = ctx.fresh("events_after_advance", ev0.sort())
        k.ev.set_mem(I, ev1)
        ctx.assume(z3.ForAll([qt, qg], sel2(ev1, qt, qg) == z3.And(sel2(ev0, qt, qg), qt > self.now)))
        ne, mt, mg = SetPairs.min_of(ctx, ev1, "events_after")
        if ctx.decide(ne, "advance.rearm"):
            k.G.m_schedule_node(I, [k.node_index, mt], n)
        k.gs_(I, "advanced", z3.BoolVal(True))
        return VOID

    def m_is_scheduled(self, I, args, n):
        return z3.Not(SetPairs.is_empty_term(I.ctx, self.events(I.ctx), "events"))

    def m_next_scheduled_time(self, I, args, n):
        ne, mt, mg = SetPairs.min_of(I.ctx, self.events(I.ctx), "events")
        return z3.If(ne, mt, z3.IntVal(0))


class NodeEvaluateImpl(NodeKernel):
    name = "node.cpp:evaluate_impl"
    fn_name = "evaluate_impl"
    filter = "evaluate_impl"
    sig = "bool (const void *, const hgraph::NodeView &, hgraph::DateTime)"
    property_ids = ("C03", "C15", "C18", "C02", "C14", "C17")
    title = "node evaluate_impl: lifecycle/readiness gate, optional error capture, scheduler tail"

    def setup(self, I):
        ctx = I.ctx
        self.make_node(I)
        ss = Obj("NodeSchedulerState", "scheduler_state")
        self.ev = SetPairs(ctx, "events")
        self.tg = MapKV(ctx, "tags")
        ctx.store[(ss.oid, "events")] = self.ev
        ctx.store[(ss.oid, "tags")] = self.tg
        self.ss = ss
        self.ev0 = self.ev.mem(ctx)
        self.ready = z3.Bool("ready_to_evaluate")
        ctx.store[(self.g.oid, "advanced")] = z3.BoolVal(False)
        # why the graph slot of this node equals T (C03 "exactly when"): an active input ticked, the node asked
        # for T at start, its scheduler has an event at T -- or a scheduler request armed the slot and was then
        # cancelled / replaced (stale).  The graph only evaluates the node when one of these holds.
        self.reason_input = z3.Bool("some_active_input_ticked_at_T")
        self.reason_start = z3.Bool("asked_for_T_during_start")
        self.stale_arm = z3.Bool("slot_armed_by_a_cancelled_scheduler_request")
        scheduled_now = z3.And(self.has_scheduler, z3.Exists([qg], sel2(self.ev0, self.T, qg)),
                               z3.ForAll([qt, qg], z3.Implies(sel2(self.ev0, qt, qg), qt >= self.T)))
        self.scheduled_now_spec = scheduled_now
        ctx.assume(z3.Or(self.reason_input, self.reason_start, scheduled_now, self.stale_arm))
        ctx.assume(z3.Implies(self.stale_arm, self.has_scheduler))
        # pending events are never in the past of the cycle (advance consumes them) and bounded
        ctx.assume(z3.ForAll([qt, qg], z3.Implies(sel2(self.ev0, qt, qg), z3.And(qt >= self.T, qt <= MAX_DT, qg >= 0))))
        ctx.assume(z3.Not(self.graph_null))
        return None, {"context": self.ctx_token, "view": self.view, "evaluation_time": self.T}

    def f_node_scheduler_state(self, I, args, n):
        I.ctx.oblige("callee-pre.node_scheduler_state:layout-has-a-scheduler", self.has_scheduler, kind="callee-pre")
        return self.ss

    def f_ready_to_evaluate(self, I, args, n):
        self.gs_(I, "ready_calls", self.gg(I.ctx, "ready_calls") + 1)
        return self.ready

    def f_write_node_error(self, I, args, n):
        ctx = I.ctx
        self.gs_(I, "err_writes", self.gg(ctx, "err_writes") + 1)
        self.gs_(I, "err_t", ctx.rv(args[2]))
        self.gs_(I, "err_msg", ctx.rv(args[3]))
        return VOID

    def ctor_handler(self, qt_, node):
        if qt_ in ("NodeScheduler", "hgraph::NodeScheduler"):
            return lambda I, a, n: SchedFacade(self, I, a, n)
        return Kernel.ctor_handler(self, qt_, node)

    def user_effects(self, I):
        """user code may use its scheduler (schedule / un_schedule / pop / reset): the pending set changes arbitrarily
        within the C18 contracts (every new time strictly in the future), the graph slot only through schedule_node"""
        ctx = I.ctx
        ev1 = ctx.fresh("events_after_user", self.ev0.sort())
        old = self.ev.mem(ctx)
        self.ev.set_mem(I, ev1)
        ctx.assume(z3.ForAll([qt, qg], z3.Implies(sel2(ev1, qt, qg), z3.And(
            qt <= MAX_DT, qg >= 0, z3.Or(sel2(old, qt, qg), qt > self.T)))))
        eff = self.G.get(ctx, "eff")
        eff1 = ctx.fresh("eff_after_user", eff.sort())
        ctx.write(self.G.loc("eff"), eff1)
        ctx.assume(z3.ForAll([qk], eff1[qk] <= eff[qk]))

    def post(self, I, ret):
        ctx = I.ctx
        started = self.started0
        gate = z3.And(started, z3.Or(self.validity_in_evaluate, z3.Not(self.has_input), self.ready))
        ran = self.gg(ctx, "eval_calls")
        ctx.oblige("ensures.returns-true", ret, kind="post-normal")
        ctx.oblige("ensures.user-code-at-most-once-per-call[C01/C03]", z3.And(ran >= 0, ran <= 1), kind="post-normal")
        ctx.oblige("ensures.user-code-runs-iff-started-and-ready[C03 started, required inputs valid]",
                   (ran == 1) == z3.And(gate, self.has_eval_cb), kind="post-normal")
        ctx.oblige("ensures.user-code-at-the-cycle-time", z3.Implies(ran == 1, self.gg(ctx, "eval_t") == self.T),
                   kind="post-normal")
        ctx.oblige("ensures.not-started:nothing-happens[C14 no evaluation before start / after stop]",
                   z3.Implies(z3.Not(started), z3.And(ran == 0, self.G.get(ctx, "calls") == 0,
                                                     self.ev.mem(ctx) == self.ev0)), kind="post-normal")
        ctx.oblige("ensures.readiness-not-polled-when-the-node-checks-validity-itself",
                   z3.Implies(z3.Or(self.validity_in_evaluate, z3.Not(self.has_input)), self.gg(ctx, "ready_calls") == 0),
                   kind="post-normal")
        # C03 property-derived: user code runs only for a reason (F1)
        ctx.oblige("ensures.user-code-runs-only-when-an-active-input-ticked-or-a-requested-wake-up-is-due[C03 exactly when]",
                   z3.Implies(ran == 1, z3.Or(self.reason_input, self.reason_start, self.scheduled_now_spec)),
                   kind="post-normal")
        # C15
        capture = z3.And(self.has_error_output, self.captures)
        threw = self.gg(ctx, "threw")
        ctx.oblige("ensures.captured-failure=>exactly-one-error-write-this-cycle-with-the-message[C15]",
                   z3.Implies(threw, z3.And(capture, self.gg(ctx, "err_writes") == 1, self.gg(ctx, "err_t") == self.T,
                                            self.gg(ctx, "err_msg") == self.gg(ctx, "thrown_msg"))), kind="post-normal")
        ctx.oblige("ensures.no-failure=>no-error-write[C15]", z3.Implies(z3.Not(threw), self.gg(ctx, "err_writes") == 0),
                   kind="post-normal")
        # C18 / C02: scheduler tail
        ev1 = self.ev.mem(ctx)
        eff1 = self.G.get(ctx, "eff")
        ctx.oblige("ensures.scheduler-tail:armed-after-every-evaluation[C18 Armed; C02 node scheduler re-arms the slot; C03 a requested "
                   "wake-up still becomes due after an input-driven evaluation; "
                   "C15 also after a captured failure; C17 an alarm that falls due is delivered, not dropped]",
                   z3.Implies(z3.And(started, self.has_scheduler),
                              z3.ForAll([qt, qg], z3.Implies(z3.And(sel2(ev1, qt, qg), qt < MAX_DT, qt > self.T),
                                                             eff1[self.node_index] <= qt))), kind="post-normal")
        ctx.oblige("ensures.scheduler-tail:fired-events-consumed-iff-fired-by-the-scheduler[C18; C17]",
                   z3.Implies(z3.And(started, self.has_scheduler),
                              self.gg(ctx, "advanced") == self.scheduled_now_spec), kind="post-normal")

    def post_exc(self, I, exc):
        ctx = I.ctx
        capture = z3.And(self.has_error_output, self.captures)
        ctx.oblige("raises.only-an-uncaptured-user-failure-propagates-unchanged[C15]",
                   z3.And(z3.BoolVal(exc.origin == "callbacks.evaluate"), z3.Not(capture), self.gg(ctx, "err_writes") == 0),
                   kind="post-exceptional")
        # a wrapper further out (try_except_, a keyed map with capture) may still capture this failure and let the run go on:
        # the scheduler must be left as after any other evaluation -- fired events consumed, the next one armed
        ev1 = self.ev.mem(ctx)
        eff1 = self.G.get(ctx, "eff")
        live = z3.And(self.started0, self.has_scheduler) if hasattr(self, "started0") else self.has_scheduler
        ctx.oblige("raises.scheduler-tail-also-after-a-propagating-failure:no-stale-event,next-one-armed[C15 in later cycles the failing "
                   "node is evaluated normally again, also under try_except; C18 pending set]",
                   z3.Implies(live, z3.And(
                       z3.ForAll([qt, qg], z3.Implies(sel2(ev1, qt, qg), qt > self.T)),
                       z3.ForAll([qt, qg], z3.Implies(z3.And(sel2(ev1, qt, qg), qt < MAX_DT), eff1[self.node_index] <= qt)))),
                   kind="post-exceptional")

    def matches_known(self, finding, ob, res):
        """F1 only covers the stale-arm entry state"""
        m = res.get("model") or {}
        return (m.get("slot_armed_by_a_cancelled_scheduler_request") == "True"
                and m.get("some_active_input_ticked_at_T") == "False"
                and m.get("asked_for_T_during_start") == "False")


# =====================================================================================================
# ready_to_evaluate
# =====================================================================================================


class InputViewObj(Obj):
    cls = "TSInputView"

    def __init__(self, k, slot=None):
        Obj.__init__(self, name="input_view")
        self.k = k
        self.slot = slot

    def m_valid(self, I, args, n):
        k = self.k
        if self.slot is None:
            return k.root_valid
        I.ctx.oblige("callee-pre.slot-view-in-range", z3.And(self.slot >= 0, self.slot < k.F), kind="callee-pre")
        return k.valid[self.slot]

    def m_all_valid(self, I, args, n):
        k = self.k
        I.ctx.oblige("callee-pre.slot-view-in-range", z3.And(self.slot >= 0, self.slot < k.F), kind="callee-pre")
        return k.all_valid[self.slot]

    def m_indexed_child_at(self, I, args, n):
        return InputViewObj(self.k, I.ctx.rv(args[0]))

    def m_child_from_prepared(self, I, args, n):
        r = I.ctx.rv(args[0])
        return InputViewObj(self.k, r.slot)

    def m_as_bundle(self, I, args, n):
        return BundleObj(self.k)

    def m_make_active(self, I, args, n):
        return self.k.set_mode(I, self.slot, 1)

    def m_make_structural_active(self, I, args, n):
        return self.k.set_mode(I, self.slot, 2)

    def m_make_passive(self, I, args, n):
        return self.k.set_mode(I, self.slot, 0)


class BundleObj(Obj):
    cls = "TSBInputView"

    def __init__(self, k):
        Obj.__init__(self, name="bundle")
        self.k = k

    def op(self, I, op, rest, n, a0):
        if op == "[]":
            return InputViewObj(self.k, I.ctx.rv(rest[0]))
        return NotImplemented


class RouteObj(Obj):
    cls = "PreparedInputSlotRoute"

    def __init__(self, k, slot):
        Obj.__init__(self, name="route")
        self.k, self.slot = k, slot

    def m_ready(self, I, args, n):
        return self.k.route_ready[self.slot]


class RoutesArr(Obj):
    cls = "routes"

    def __init__(self, k):
        Obj.__init__(self, name="routes")
        self.k = k

    def index(self, I, idx, n):
        return RouteObj(self.k, idx)


class InputShapeKernel(NodeKernel):
    """shared input-shape state for ready_to_evaluate / activate / deactivate"""
    bounded_fallback = 3

    def bound_sizes(self, I, n):
        ctx = I.ctx
        ctx.assume(self.F <= n)
        for v in (self.vi, self.avi, self.ai, self.si):
            ctx.assume(v.length(ctx) <= n)

    def make_inputs(self, I):
        ctx = I.ctx
        self.make_node(I)
        self.F = z3.Int("field_count")
        ctx.assume(self.F >= 0)
        self.is_tsb = z3.Bool("input_is_TSB")
        self.input_schema_null = z3.Bool("input_schema_null")
        isch = Obj("TSValueTypeMetaData", "input_schema")
        self.isch = isch
        ctx.store[(isch.oid, "kind")] = z3.If(self.is_tsb, z3.IntVal(7), z3.IntVal(1))
        ctx.store[(self.schema.oid, "input_schema")] = Ptr(isch, self.input_schema_null)
        self.valid = z3.Array("slot_valid", I_, B_)
        self.all_valid = z3.Array("slot_all_valid", I_, B_)
        self.route_ready = z3.Array("route_ready", I_, B_)
        self.root_valid = z3.Bool("root_valid")
        self.vi_has = z3.Bool("valid_inputs_has_value")
        self.vi = Vec(ctx, "valid_inputs")
        self.avi = Vec(ctx, "all_valid_inputs")
        self.ai_has = z3.Bool("active_inputs_has_value")
        self.ai = Vec(ctx, "active_inputs")
        self.si = Vec(ctx, "structural_inputs")
        for v in (self.vi, self.avi, self.ai, self.si):
            ctx.assume(v.length(ctx) >= 0)
            ctx.assume(z3.ForAll([qk], v.data(ctx)[qk] >= 0))  # std::size_t elements
        ctx.store[(self.schema.oid, "valid_inputs")] = Opt(self.vi_has, self.vi)
        ctx.store[(self.schema.oid, "all_valid_inputs")] = self.avi
        ctx.store[(self.schema.oid, "active_inputs")] = Opt(self.ai_has, self.ai)
        ctx.store[(self.schema.oid, "structural_inputs")] = self.si
        self.routes_null = z3.Bool("routes_null")
        self.mode_key = (self.g.oid, "mode")
        ctx.store[self.mode_key] = z3.Array("slot_mode0", I_, I_)
        ctx.store[(self.g.oid, "root_mode")] = z3.Int("root_mode0")
        self.mode0 = ctx.store[self.mode_key]

    def set_mode(self, I, slot, m):
        ctx = I.ctx
        if slot is None:
            ctx.write(Loc((self.g.oid, "root_mode")), z3.IntVal(m))
        else:
            ctx.oblige("callee-pre.slot-in-range", z3.And(slot >= 0, slot < self.F), kind="callee-pre")
            ctx.write(Loc(self.mode_key), z3.Store(ctx.store[self.mode_key], slot, z3.IntVal(m)))
        return VOID

    def enum_const(self, I, ref):
        if ref.get("name") == "TSB":
            return z3.IntVal(7)
        return z3.IntVal(100 + abs(hash(ref.get("name"))) % 50)

    def method_handler(self, obj, name, node):
        k = self
        if obj is self.schema and name == "has_input":
            return lambda I, o, a, n: k.has_input
        if obj is self.isch and name == "field_count":
            return lambda I, o, a, n: k.F
        if obj is self.view:
            if name == "input":
                return lambda I, o, a, n: InputViewObj(k)
            if name == "prepared_input_routes":
                return lambda I, o, a, n: Ptr(RoutesArr(k), k.routes_null)
        return NodeKernel.method_handler(self, obj, name, node)


class ReadyToEvaluate(InputShapeKernel):
    name = "node.cpp:ready_to_evaluate"
    fn_name = "ready_to_evaluate"
    filter = "ready_to_evaluate"
    property_ids = ("C03",)
    title = "ready_to_evaluate: every required input valid, every all-valid input all-valid"

    def setup(self, I):
        self.make_inputs(I)
        return None, {"view": self.view, "evaluation_time": self.T}

    def sel_ok(self, ctx, vec, upto, pred):
        d = vec.data(ctx)
        return z3.ForAll([qk], z3.Implies(z3.And(qk >= 0, qk < upto), z3.And(d[qk] >= 0, d[qk] < self.F, pred[d[qk]])))

    # loops in source order: 0 valid_inputs range-for, 1 all-fields for, 2 all_valid_inputs range-for
    def inv_valid_sel(self, I, ctx):
        k = self.range_pos(I)
        yield "pos-range", z3.And(k >= 0, k <= self.vi.length(ctx))
        yield "selected-so-far-in-range-and-valid", self.sel_ok(ctx, self.vi, k, self.valid)

    def inv_all_fields(self, I, ctx):
        s = self.local(I, "slot")
        yield "slot-range", z3.And(s >= 0, s <= self.F)
        yield "fields-so-far-valid", z3.ForAll([qs], z3.Implies(z3.And(qs >= 0, qs < s), self.valid[qs]))

    def inv_all_valid_sel(self, I, ctx):
        k = self.range_pos(I)
        yield "pos-range", z3.And(k >= 0, k <= self.avi.length(ctx))
        yield "selected-so-far-in-range-and-all-valid", self.sel_ok(ctx, self.avi, k, self.all_valid)
        yield "valid-part-done", self.valid_part(ctx)

    def valid_part(self, ctx):
        return z3.If(self.vi_has, self.sel_ok(ctx, self.vi, self.vi.length(ctx), self.valid),
                     z3.ForAll([qs], z3.Implies(z3.And(qs >= 0, qs < self.F), self.valid[qs])))

    @property
    def loops(self):
        return {0: LoopSpec(self.inv_valid_sel), 1: LoopSpec(self.inv_all_fields), 2: LoopSpec(self.inv_all_valid_sel)}

    def post(self, I, ret):
        ctx = I.ctx
        trivial = z3.Or(self.schema_null, z3.Not(self.has_input))
        non_tsb = z3.Or(self.input_schema_null, z3.Not(self.is_tsb))
        full = z3.And(self.valid_part(ctx), self.sel_ok(ctx, self.avi, self.avi.length(ctx), self.all_valid))
        ctx.oblige("ensures.no-input=>ready", z3.Implies(trivial, ret), kind="post-normal")
        ctx.oblige("ensures.single-input=>ready-iff-valid", z3.Implies(z3.And(z3.Not(trivial), non_tsb), ret == self.root_valid),
                   kind="post-normal")
        ctx.oblige("ensures.true=>every-required-input-valid-and-every-all_valid-input-all-valid[C03 required inputs valid]",
                   z3.Implies(z3.And(z3.Not(trivial), z3.Not(non_tsb), ret), full), kind="post-normal")
        ctx.oblige("ensures.false=>some-required-input-is-not[C03 runs exactly when ... every required input holds a value]",
                   z3.Implies(z3.And(z3.Not(trivial), z3.Not(non_tsb), z3.Not(ret)), z3.Not(full)), kind="post-normal")

    def post_exc(self, I, exc):
        ctx = I.ctx
        non_tsb = z3.Or(self.input_schema_null, z3.Not(self.is_tsb))
        has_sel = z3.Or(self.vi_has, self.avi.length(ctx) != 0)
        oor = lambda vec: z3.Exists([qk], z3.And(qk >= 0, qk < vec.length(ctx), vec.data(ctx)[qk] >= self.F))
        ctx.oblige("raises.logic_error-for-selectors-on-a-non-TSB-input,out_of_range-for-a-bad-selector",
                   z3.Or(z3.And(z3.BoolVal(exc.cls == "std::logic_error"), non_tsb, has_sel),
                         z3.And(z3.BoolVal(exc.cls == "std::out_of_range"), z3.Not(non_tsb),
                                z3.Or(z3.And(self.vi_has, oor(self.vi)), oor(self.avi)))), kind="post-exceptional")


# =====================================================================================================
# activate / deactivate
# =====================================================================================================


class ActivateInputSlots(InputShapeKernel):
    name = "node.cpp:activate_input_slots"
    fn_name = "activate_input_slots"
    filter = "activate_input_slots"
    property_ids = ("C03",)
    title = "activate_input_slots: exactly the active (and structural) selectors are subscribed"
    target_mode = 1

    def setup(self, I):
        self.make_inputs(I)
        ctx = I.ctx
        # selectors were validated at wiring (with_passive_inputs / builder): in range
        for v in (self.ai, self.si):
            ctx.assume(z3.ForAll([qk], z3.Implies(z3.And(qk >= 0, qk < v.length(ctx)),
                                                  z3.And(v.data(ctx)[qk] >= 0, v.data(ctx)[qk] < self.F))))
        return None, {"view": self.view, "evaluation_time": self.T}

    def in_vec(self, ctx, vec, s, upto=None):
        return z3.Exists([qk], z3.And(qk >= 0, qk < (vec.length(ctx) if upto is None else upto), vec.data(ctx)[qk] == s))

    def mode(self, ctx):
        return ctx.store[self.mode_key]

    def inv_all(self, I, ctx):
        s = self.local(I, "slot")
        m = self.mode(ctx)
        yield "slot-range", z3.And(s >= 0, s <= self.F)
        yield "prefix-set", z3.ForAll([qs], m[qs] == z3.If(z3.And(qs >= 0, qs < s), self.target_mode, self.mode0[qs]))

    def inv_active(self, I, ctx):
        k = self.range_pos(I)
        m = self.mode(ctx)
        yield "pos-range", z3.And(k >= 0, k <= self.ai.length(ctx))
        yield "selected-prefix-set", z3.ForAll([qs], m[qs] == z3.If(self.in_vec(ctx, self.ai, qs, k), self.target_mode,
                                                                    self.mode0[qs]))

    def inv_structural(self, I, ctx):
        k = self.range_pos(I)
        m = self.mode(ctx)
        smode = 2 if self.target_mode == 1 else 0
        yield "pos-range", z3.And(k >= 0, k <= self.si.length(ctx))
        yield "structural-prefix-set", z3.ForAll([qs], m[qs] == z3.If(
            self.in_vec(ctx, self.si, qs, k), smode,
            z3.If(self.in_vec(ctx, self.ai, qs), self.target_mode, self.mode0[qs])))

    def frame(self, I, ctx):
        return [Loc(self.mode_key)]

    @property
    def loops(self):
        return {0: LoopSpec(self.inv_all, self.frame), 1: LoopSpec(self.inv_active, self.frame),
                2: LoopSpec(self.inv_structural, self.frame)}

    def post(self, I, ret):
        ctx = I.ctx
        m = self.mode(ctx)
        non_tsb = z3.Or(self.input_schema_null, z3.Not(self.is_tsb))
        smode = 2 if self.target_mode == 1 else 0
        ctx.oblige("ensures.no-input=>nothing", z3.Implies(z3.Not(self.has_input), z3.And(
            m == self.mode0, ctx.store[(self.g.oid, "root_mode")] == z3.Int("root_mode0"))), kind="post-normal")
        ctx.oblige("ensures.single-input=>root-(de)activated", z3.Implies(z3.And(self.has_input, non_tsb), z3.And(
            m == self.mode0,
            ctx.store[(self.g.oid, "root_mode")] == (z3.If(self.si.length(ctx) != 0, 2, 1) if self.target_mode == 1 else 0))),
            kind="post-normal")
        ctx.oblige("ensures.bundle:exactly-the-active-and-structural-selectors[C03 ticks on passive inputs alone never run it]",
                   z3.Implies(z3.And(self.has_input, z3.Not(non_tsb)), z3.ForAll([qs], m[qs] == z3.If(
                       self.ai_has,
                       z3.If(self.in_vec(ctx, self.si, qs), smode,
                             z3.If(self.in_vec(ctx, self.ai, qs), self.target_mode, self.mode0[qs])),
                       z3.If(z3.And(qs >= 0, qs < self.F), self.target_mode, self.mode0[qs])))), kind="post-normal")

    def post_exc(self, I, exc):
        I.ctx.oblige("raises.nothing-for-in-range-selectors", False, kind="post-exceptional")


class DeactivateInputSlots(ActivateInputSlots):
    name = "node.cpp:deactivate_input_slots"
    fn_name = "deactivate_input_slots"
    filter = "deactivate_input_slots"
    title = "deactivate_input_slots: the inverse of activate over the same selectors"
    target_mode = 0


# =====================================================================================================
# node start_impl / stop_impl / schedule_node_from_storage
# =====================================================================================================


class NodeStartImpl(NodeKernel):
    name = "node.cpp:start_impl"
    fn_name = "start_impl"
    filter = "start_impl"
    sig = "void (const void *, const hgraph::NodeView &, hgraph::DateTime)"
    property_ids = ("C14", "C03", "C18")
    title = "node start_impl: activate inputs, user start, mark started; a throwing start leaves the node idle"

    def setup(self, I):
        self.make_node(I)
        return None, {"context": self.ctx_token, "view": self.view, "evaluation_time": self.T}

    def f_activate_input_slots(self, I, args, n):
        self.gs_(I, "activations", self.gg(I.ctx, "activations") + 1)
        return VOID

    def f_deactivate_input_slots(self, I, args, n):
        self.gs_(I, "deactivations", self.gg(I.ctx, "deactivations") + 1)
        return VOID

    def post(self, I, ret):
        ctx = I.ctx
        was = self.started0
        ctx.oblige("ensures.idempotent-on-started[C14 exactly once]", z3.Implies(was, z3.And(
            self.gg(ctx, "start_calls") == 0, self.gg(ctx, "activations") == 0, self.G.get(ctx, "calls") == 0)),
            kind="post-normal")
        ctx.oblige("ensures.started-with-inputs-active-and-user-start-run-once", z3.Implies(z3.Not(was), z3.And(
            ctx.store[(self.st.oid, "started")], self.gg(ctx, "activations") == 1, self.gg(ctx, "deactivations") == 0,
            self.gg(ctx, "start_calls") == z3.If(self.has_start_cb, 1, 0), z3.Not(ctx.store[(self.st.oid, "starting")]))),
            kind="post-normal")
        ctx.oblige("ensures.schedule_on_start:node-due-in-the-start-cycle[C03 a wake-up asked for at start]",
                   z3.Implies(z3.And(z3.Not(was), self.schedule_on_start, z3.Not(self.graph_null)),
                              z3.And(self.G.get(ctx, "calls") == 1, self.G.get(ctx, "last_i") == self.node_index,
                                     self.G.get(ctx, "last_t") == self.T)), kind="post-normal")

    def post_exc(self, I, exc):
        ctx = I.ctx
        ctx.oblige("raises.failed-user-start:node-not-started,inputs-deactivated[C14 a failed start did not start the node]",
                   z3.And(z3.BoolVal(exc.origin == "callbacks.start"), z3.Not(ctx.store[(self.st.oid, "started")]),
                          self.gg(ctx, "activations") == 1, self.gg(ctx, "deactivations") == 1,
                          z3.Not(ctx.store[(self.st.oid, "starting")])), kind="post-exceptional")


class NodeStopImpl(NodeStartImpl):
    name = "node.cpp:stop_impl"
    fn_name = "stop_impl"
    filter = "stop_impl"
    property_ids = ("C14",)
    title = "node stop_impl: always ends stopped with inputs deactivated, even when the user stop throws"

    def post(self, I, ret):
        ctx = I.ctx
        was = self.started0
        ctx.oblige("ensures.idempotent-on-stopped[C14 exactly once]", z3.Implies(z3.Not(was), z3.And(
            self.gg(ctx, "stop_calls") == 0, self.gg(ctx, "deactivations") == 0)), kind="post-normal")
        ctx.oblige("ensures.stopped,inputs-deactivated,user-stop-run-once", z3.Implies(was, z3.And(
            z3.Not(ctx.store[(self.st.oid, "started")]), self.gg(ctx, "deactivations") == 1,
            self.gg(ctx, "stop_calls") == z3.If(self.has_stop_cb, 1, 0), z3.Not(ctx.store[(self.st.oid, "stopping")]))),
            kind="post-normal")

    def post_exc(self, I, exc):
        ctx = I.ctx
        ctx.oblige("raises.failing-user-stop:node-still-ends-stopped-and-deactivated[C14 a stop attempt leaves it stopped]",
                   z3.And(z3.BoolVal(exc.origin == "callbacks.stop"), z3.Not(ctx.store[(self.st.oid, "started")]),
                          self.gg(ctx, "deactivations") == 1, z3.Not(ctx.store[(self.st.oid, "stopping")])),
                   kind="post-exceptional")


class ScheduleNodeFromStorage(NodeKernel):
    name = "node.cpp:schedule_node_from_storage"
    fn_name = "schedule_node_from_storage"
    filter = "schedule_node_from_storage"
    property_ids = ("C03",)
    title = "notification -> schedule_node(node_index, max(modified_time, graph time))"

    def setup(self, I):
        ctx = I.ctx
        self.make_node(I)
        self.mt = z3.Int("modified_time")
        ctx.assume(z3.And(self.mt >= 0, self.mt <= MAX_DT))
        return None, {"graph": Ptr(self.G, self.graph_null), "node_index": self.node_index, "modified_time": self.mt}

    def post(self, I, ret):
        ctx = I.ctx
        G = self.G
        T = self.T
        want = z3.If(self.mt != 0, z3.If(self.mt >= T, self.mt, T), T)
        ctx.oblige("ensures.unattached=>nothing", z3.Implies(self.graph_null, G.get(ctx, "calls") == 0), kind="post-normal")
        ctx.oblige("ensures.node-scheduled-once-for-the-tick's-time-never-in-the-past[C03 notification schedules the owner]",
                   z3.Implies(z3.Not(self.graph_null), z3.And(G.get(ctx, "calls") == 1, G.get(ctx, "last_i") == self.node_index,
                                                              G.get(ctx, "last_t") == want)), kind="post-normal")

    def post_exc(self, I, exc):
        I.ctx.oblige("no-exception", False, kind="post-exceptional")


models.install_guards(NodeKernel)

KERNELS = [NodeEvaluateImpl, ReadyToEvaluate, ActivateInputSlots, DeactivateInputSlots, NodeStartImpl, NodeStopImpl,
           ScheduleNodeFromStorage]


# ------------------------------------------------------------------ NodeBuilder::with_passive_inputs (the passive(...) marker)
#
# The active-input list is kept as a set of slots (it is an ascending duplicate-free vector: either the schema's canonical
# list or the identity list 0..n-1 built here).  std::erase(vector, value) removes the value when present and nothing else.


class SlotSet(Obj):
    """std::vector<size_t> holding an ascending duplicate-free list of slots: membership array"""
    cls = "std::vector<size_t>(slots)"
    custom = True

    def __init__(self, ctx, name, mem=None):
        Obj.__init__(self, name=name)
        ctx.store[(self.oid, "mem")] = mem if mem is not None else z3.K(I_, z3.BoolVal(False))

    def mem(self, ctx):
        return ctx.store[(self.oid, "mem")]

    def m_empty(self, I, args, n):
        return z3.ForAll([qs], z3.Not(self.mem(I.ctx)[qs]))

    def m_resize(self, I, args, n):
        # resize(n) of an empty list followed by active[slot] = slot for every slot: positions hold a value only once assigned
        I.ctx.write(Loc((self.oid, "mem")), z3.K(I_, z3.BoolVal(False)))
        return VOID

    def op(self, I, op, rest, n, a0):
        if op == "[]":
            return SlotCell(self, I.ctx.rv(rest[0]))
        if op == "=":
            o = I.ctx.rv(rest[0])
            if isinstance(o, SlotSet):
                I.ctx.write(Loc((self.oid, "mem")), o.mem(I.ctx))
                return self
        return NotImplemented

    def m_begin(self, I, args, n):
        return ("slots_begin", self)

    def m_end(self, I, args, n):
        return SlotIter(self, None)

    def m_erase(self, I, args, n):
        it = I.ctx.rv(args[0])
        if not isinstance(it, SlotIter) or it.elem is None:
            raise Gap("erase of a non-dereferenceable slot iterator")
        I.ctx.write(Loc((self.oid, "mem")), z3.Store(self.mem(I.ctx), it.elem, False))
        return it


class SlotCell:
    def __init__(self, s, pos):
        self.s, self.pos = s, pos

    def op(self, I, op, rest, n, a0):
        if op == "=":
            v = I.ctx.rv(rest[0])
            I.ctx.oblige("model.identity-fill:active[slot]=slot", v == self.pos, kind="model")
            I.ctx.write(Loc((self.s.oid, "mem")), z3.Store(self.s.mem(I.ctx), self.pos, True))
            return self
        return NotImplemented

    def assign(self, I, v):
        return self.op(I, "=", [v], None, None)


class SlotIter:
    def __init__(self, s, elem, is_end=None):
        self.s, self.elem = s, elem
        self.is_end = z3.BoolVal(elem is None) if is_end is None else is_end

    def compare(self, I, op, other):
        if not isinstance(other, SlotIter):
            raise Gap("slot iterator compared with %r" % (other,))
        if other.elem is None:
            e = self.is_end
        elif self.elem is None:
            e = other.is_end
        else:
            raise Gap("comparison of two interior slot iterators")
        return e if op == "==" else z3.Not(e)


class WithPassiveInputs(Kernel):
    tu = TU
    scope = {"lo": 0, "hi": 3}
    name = "node.cpp:NodeBuilder::with_passive_inputs"
    fn_name = "with_passive_inputs"
    filter = "NodeBuilder::with_passive_inputs"
    property_ids = ("C03",)
    title = "with_passive_inputs: exactly the marked slots leave the active and structural lists; nothing else does"

    def setup(self, I):
        ctx = I.ctx
        self.n_slots = z3.Int("n_marked")
        self.marked = z3.Array("marked_slot", I_, I_)
        self.input_count = z3.Int("input_count")
        self.has_active = z3.Bool("schema_has_active_inputs")
        self.active0 = z3.Array("schema_active0", I_, B_)
        self.struct0 = z3.Array("structural0", I_, B_)
        self.type_present, self.native = z3.Bool("type_present"), z3.Bool("native_ops")
        ctx.assume(z3.And(self.n_slots >= 0, self.input_count >= 0))
        ctx.assume(z3.ForAll([qs], z3.And(z3.Implies(self.active0[qs], z3.And(qs >= 0, qs < self.input_count)),
                                          z3.Implies(self.struct0[qs], z3.And(qs >= 0, qs < self.input_count)),
                                          self.marked[qs] >= 0)))
        k = self
        th = Obj("NodeBuilder", "this_builder")
        self.th = th
        ty = Obj("NodeTypeRef", "type_")
        ty.truth = lambda I_2: k.type_present
        ops = Obj("NodeOps", "node_ops")
        ctx.store[(ops.oid, "start_impl")] = FnCmp(self.native)
        ctx.store[(ops.oid, "stop_impl")] = FnCmp(self.native)
        origin = Obj("NodeRuntimeContext", "origin")
        ctx.store[(origin.oid, "plan")] = Ptr(Wild3(name="plan"), z3.Bool("origin_plan_null"))
        ctx.store[(origin.oid, "callbacks")] = Wild3(name="callbacks")
        ctx.store[(origin.oid, "runtime_type_id")] = z3.Int("runtime_type_id")
        ctx.store[(ops.oid, "context")] = Ptr(origin, z3.Not(self.native))
        ty.m_ops_ref = lambda I_2, a, n: ops
        self.schema_obj = None
        ty.m_schema = lambda I_2, a, n: Ptr(SchemaSrc(k))
        ty.m_record = lambda I_2, a, n: Ptr(Wild3(name="record"))
        ctx.store[(th.oid, "type_")] = ty
        for nm in ("input_endpoint_", "output_endpoint_", "output_value_storage_", "label_", "scalars_"):
            ctx.store[(th.oid, nm)] = Wild3(name=nm)
        g = Obj("ghost", "pg")
        self.g = g
        ctx.store[(g.oid, "made_type")] = z3.IntVal(0)
        self.final_active = None
        return th, {"slots": Vec(ctx, "slots", length=self.n_slots, data=self.marked)}

    def function_handler(self, name, node, callee_node):
        k = self
        if name == "erase":
            def er(I, args, n):
                v, val = I.ctx.rv(args[0]), I.ctx.rv(args[1])
                if not isinstance(v, SlotSet):
                    raise Gap("std::erase on something that is not a slot list")
                I.ctx.write(Loc((v.oid, "mem")), z3.Store(v.mem(I.ctx), val, False))
                return I.ctx.fresh("erased_count")
            return er
        if name == "lower_bound":
            def lb(I, args, n):
                ctx = I.ctx
                b = ctx.rv(args[0])
                s = b[1] if isinstance(b, tuple) else None
                if not isinstance(s, SlotSet):
                    raise Gap("lower_bound on something that is not a slot list")
                val = ctx.rv(args[2])
                mem = s.mem(ctx)
                e, none = ctx.fresh("lower_bound_elem"), ctx.fresh("lower_bound_is_end", "bool")
                ctx.assume(z3.If(none, z3.ForAll([qs], z3.Implies(mem[qs], qs < val)),
                                 z3.And(mem[e], e >= val, z3.ForAll([qs], z3.Implies(z3.And(mem[qs], qs >= val), e <= qs)))))
                return SlotIter(s, e, none)
            return lb
        if name == "move":
            return lambda I, a, n: I.ctx.rv(a[0])
        if name == "node_storage_plan_for":
            return lambda I, a, n: Wild3(name="plan")
        if name == "node_runtime_registry":
            reg = Wild3(name="registry")

            def mk(I, a, n):
                sch = I.ctx.rv(a[0])
                I.ctx.write(Loc((k.g.oid, "made_type")), I.ctx.store[(k.g.oid, "made_type")] + 1)
                k.final_schema = sch
                return Wild3(name="new_type")
            reg.m_make_type = mk
            return lambda I, a, n: reg
        return Kernel.function_handler(self, name, node, callee_node)

    def ctor_handler(self, qt, node):
        k = self
        if qt.endswith("NodeTypeMetaData"):
            def mk(I, args, n):
                a = [I.ctx.rv(x) for x in args]
                if a and isinstance(a[0], SchemaCopy):
                    return a[0]
                return SchemaCopy(I.ctx, k)
            return mk
        if "iterator" in qt:
            return lambda I, args, n: I.ctx.rv(args[0])
        if "vector<" in qt and ("size_t" in qt or "unsigned long" in qt) and "NodeStorageField" not in qt:
            def mkv(I, args, n):
                a = [I.ctx.rv(x) for x in args]
                if a and isinstance(a[0], SlotSet):
                    return a[0]
                return SlotSet(I.ctx, "active")
            return mkv
        if qt.endswith("NodeBuilder"):
            def mkb(I, args, n):
                a = [I.ctx.rv(x) for x in args]
                if len(a) == 1 and isinstance(a[0], Obj) and a[0].cls == "NodeBuilder":
                    return a[0]
                o = Obj("NodeBuilder", "result")
                o.is_new = True
                for nm in ("output_endpoint_", "output_value_storage_", "label_", "scalars_"):
                    I.ctx.store[(o.oid, nm)] = Wild3(name=nm)
                return o
            return mkb
        if "NodeStorageField" in qt or qt.endswith("NodeTypeRef"):
            return lambda I, args, n: Wild3(name="fields")
        return Kernel.ctor_handler(self, qt, node)

    def enum_const(self, I, ref):
        if ref.get("name") == "TSB":
            return z3.IntVal(6)
        raise Gap("enum constant %s" % ref.get("name"))

    def global_var(self, I, ref, node):
        if ref.get("name") == "node_prepared_inputs_field":
            return z3.IntVal(self.string_id("node_prepared_inputs_field"))
        return None

    def method_handler(self, obj, name, node):
        if isinstance(obj, Wild3):
            if hasattr(obj, "m_" + name):
                return Kernel.method_handler(self, obj, name, node)
            if name in ("find_component",):
                return lambda I, o, a, n: Ptr(Wild3(name="component"), I.ctx.fresh("component_null", "bool"))
            return lambda I, o, a, n: Wild3(name=name)
        return Kernel.method_handler(self, obj, name, node)

    def inv_fill(self, I, ctx):
        s = self.local(I, "slot")
        act = self.local_obj(I, "active")
        yield "identity-list-so-far", z3.And(s >= 0, s <= self.input_count, z3.ForAll([qs], act.mem(ctx)[qs] == z3.And(qs >= 0, qs < s)))

    def frame_fill(self, I, ctx):
        return [Loc((self.local_obj(I, "active").oid, "mem"))]

    def start_active(self):
        return lambda q: z3.If(self.has_active, self.active0[q], z3.And(q >= 0, q < self.input_count))

    def in_marked(self, q, upto):
        return z3.Exists([qk], z3.And(qk >= 0, qk < upto, self.marked[qk] == q))

    def inv_marks(self, I, ctx):
        pos = self.range_pos(I)
        act = self.local_obj(I, "active")
        sc = self.local_obj(I, "schema")
        st = ctx.store[(sc.oid, "structural_inputs")]
        a0 = self.start_active()
        yield "position-range", z3.And(pos >= 0, pos <= self.n_slots)
        yield "marked-slots-so-far-in-range", z3.ForAll([qk], z3.Implies(z3.And(qk >= 0, qk < pos), self.marked[qk] < self.input_count))
        yield "exactly-the-marked-slots-so-far-removed[C03]", z3.ForAll([qs], z3.And(
            act.mem(ctx)[qs] == z3.And(a0(qs), z3.Not(self.in_marked(qs, pos))),
            st.mem(ctx)[qs] == z3.And(self.struct0[qs], z3.Not(self.in_marked(qs, pos)))))

    def frame_marks(self, I, ctx):
        sc = self.local_obj(I, "schema")
        return [Loc((self.local_obj(I, "active").oid, "mem")), Loc((ctx.store[(sc.oid, "structural_inputs")].oid, "mem"))]

    @property
    def loops(self):
        return {0: LoopSpec(self.inv_fill, self.frame_fill), 1: LoopSpec(self.inv_marks, self.frame_marks)}

    def post(self, I, ret):
        ctx = I.ctx
        a0 = self.start_active()
        if self.n_slots is None:
            return
        same = z3.BoolVal(ret is self.th)
        made = ctx.store[(self.g.oid, "made_type")]
        if ret is self.th:
            ctx.oblige("ensures.no-marker=>the-same-builder", z3.And(self.n_slots == 0, made == 0), kind="post-normal")
            return
        sch = getattr(self, "final_schema", None)
        if not isinstance(sch, SchemaCopy):
            raise Gap("with_passive_inputs: the new type was not made from the adjusted schema")
        fa = ctx.store[(sch.oid, "active_inputs")]
        st = ctx.store[(sch.oid, "structural_inputs")]
        if not isinstance(fa, SlotSet):
            raise Gap("active_inputs of the new schema is not the adjusted list")
        ctx.oblige("ensures.active'=active-minus-exactly-the-marked-slots;structural'=structural-minus-the-marked-slots[C03 a passive "
                   "input does not trigger evaluation; every other input keeps triggering it]", z3.And(made == 1, z3.ForAll([qs], z3.And(
                       fa.mem(ctx)[qs] == z3.And(a0(qs), z3.Not(self.in_marked(qs, self.n_slots))),
                       st.mem(ctx)[qs] == z3.And(self.struct0[qs], z3.Not(self.in_marked(qs, self.n_slots)))))), kind="post-normal")

    def post_exc(self, I, exc):
        ctx = I.ctx
        ctx.oblige("raises.only-as-specified", z3.BoolVal(exc.cls in ("std::logic_error", "std::invalid_argument", "std::out_of_range")),
                   kind="post-exceptional")


class FnCmp:
    """a function-pointer member compared with the address of the native start/stop implementation"""
    custom_binop = True

    def __init__(self, native):
        self.native = native

    def binop(self, I, op, other):
        if op == "==":
            return self.native
        if op == "!=":
            return z3.Not(self.native)
        raise Gap("function pointer %s" % op)

    rbinop = binop


class Wild3(Obj):
    cls = "wild"

    def member(self, ctx, name, node):
        return Wild3(name=name)

    def op(self, I, op, rest, n, a0):
        return self


class SchemaSrc(Obj):
    """*type_.schema(): the node's current schema (copied into the local `schema`)"""
    cls = "NodeTypeMetaData(source)"

    def __init__(self, k):
        Obj.__init__(self, name="type_schema")
        self.k = k


class SchemaCopy(Obj):
    cls = "NodeTypeMetaData"

    def __init__(self, ctx, k):
        Obj.__init__(self, name="schema")
        self.k = k
        insch = Obj("TSValueTypeMetaData", "input_schema")
        ctx.store[(insch.oid, "kind")] = z3.IntVal(6)           # TSB
        insch.m_field_count = lambda I_2, a, n: k.input_count
        ctx.store[(self.oid, "input_schema")] = Ptr(insch, z3.BoolVal(False))
        ai = ActiveOpt(ctx, k)
        ctx.store[(self.oid, "active_inputs")] = ai
        ctx.store[(self.oid, "structural_inputs")] = SlotSet(ctx, "structural_inputs", mem=k.struct0)


class ActiveOpt(Obj):
    cls = "std::optional<std::vector<size_t>>"

    def __init__(self, ctx, k):
        Obj.__init__(self, name="active_inputs")
        self.k = k
        self.content = SlotSet(ctx, "schema_active_inputs", mem=k.active0)

    def m_has_value(self, I, args, n):
        return self.k.has_active

    def op(self, I, op, rest, n, a0):
        if op == "*":
            return self.content
        return NotImplemented


KERNELS += [WithPassiveInputs]


# ------------------------------------------------------------------ target_link.cpp: who gets scheduled when a bound target ticks

TLTU2 = "src/hgraph/types/time_series/ts_input/target_link.cpp"


class TargetLinkNotify(Kernel):
    tu = TLTU2
    scope = {"lo": 0, "hi": 3}
    name = "target_link.cpp:TSInputTargetLinkState::notify"
    fn_name = "notify"
    filter = "TSInputTargetLinkState::notify"
    property_ids = ("C03",)
    title = "TSInputTargetLinkState::notify: a target tick schedules the owning node only through a locally active root observation"

    def setup(self, I):
        ctx = I.ctx
        self.T = z3.Int("modified_time")
        self.owner_null, self.root_null = z3.Bool("owner_null"), z3.Bool("root_null")
        self.locally_active, self.sched_subscribed, self.same = z3.Bool("root_locally_active"), z3.Bool("root_scheduling_subscribed"), \
            z3.Bool("root_observes_this_target")
        self.kind = z3.Int("root_observation_kind")
        g = Obj("ghost", "ng")
        self.g = g
        for nm in ("owner_told", "notified"):
            ctx.store[(g.oid, nm)] = z3.IntVal(0)
        ctx.store[(g.oid, "notified_t")] = z3.IntVal(-9)
        k = self
        th = Obj("TSInputTargetLinkState", "this_state")
        owner = Obj("owner", "owner")

        def told(I_2, a, n):
            I_2.ctx.write(Loc((g.oid, "owner_told")), I_2.ctx.store[(g.oid, "owner_told")] + 1)
            return VOID
        owner.m_record_target_modified = told
        ctx.store[(th.oid, "owner")] = Ptr(owner, self.owner_null)
        root = Obj("TSInputTargetActiveNode", "root")
        ctx.store[(root.oid, "locally_active")] = self.locally_active
        ctx.store[(root.oid, "observation_kind")] = self.kind
        ctx.store[(root.oid, "scheduling_subscribed")] = self.sched_subscribed
        obs = Obj("TSOutputHandle", "observed")
        obs.m_same_as = lambda I_2, a, n: k.same
        ctx.store[(root.oid, "observed")] = obs
        ctx.store[(th.oid, "target")] = Obj("TSOutputHandle", "target")
        notifier = Obj("Notifier", "scheduling_notifier")

        def notif(I_2, a, n):
            I_2.ctx.write(Loc((g.oid, "notified")), I_2.ctx.store[(g.oid, "notified")] + 1)
            I_2.ctx.write(Loc((g.oid, "notified_t")), I_2.ctx.rv(a[0]))
            return VOID
        notifier.m_notify = notif
        ctx.store[(th.oid, "scheduling_notifier")] = notifier
        self.root = root
        return th, {"modified_time": self.T}

    def method_handler(self, obj, name, node):
        if name == "active_root":
            return lambda I, o, a, n: Ptr(self.root, self.root_null)
        return Kernel.method_handler(self, obj, name, node)

    def enum_const(self, I, ref):
        if ref.get("name") == "Value":
            return z3.IntVal(1)
        raise Gap("enum constant %s" % ref.get("name"))

    def post(self, I, ret):
        ctx = I.ctx
        g = lambda nm: ctx.store[(self.g.oid, nm)]
        should = z3.And(z3.Not(self.root_null), self.locally_active, self.kind == 1, z3.Not(self.sched_subscribed), self.same)
        ctx.oblige("ensures.the-node-is-scheduled-only-through-a-locally-active-root[C03 a passive input, and an input made passive at "
                   "run time, never triggers evaluation]", z3.Implies(g("notified") >= 1, z3.And(z3.Not(self.root_null), self.locally_active)),
                   kind="post-normal")
        ctx.oblige("ensures.scheduled-exactly-when-the-active-root-rides-on-this-link's-own-observer,at-the-tick's-time[C03 an active "
                   "input's tick triggers evaluation]", z3.And(g("notified") == z3.If(should, 1, 0), z3.Implies(should, g("notified_t") == self.T)),
                   kind="post-normal")
        ctx.oblige("ensures.owner-told-once-iff-present", g("owner_told") == z3.If(self.owner_null, 0, 1), kind="post-normal")


class TargetLinkMakePassive(Kernel):
    tu = TLTU2
    scope = {"lo": 0, "hi": 3}
    name = "target_link.cpp:TSInputTargetLinkStorage::make_passive"
    fn_name = "make_passive"
    filter = "TSInputTargetLinkStorage::make_passive"
    property_ids = ("C03",)
    title = "TSInputTargetLinkStorage::make_passive: an active observation is torn down and the node marked not active"

    def setup(self, I):
        ctx = I.ctx
        self.arg_null, self.root_null = z3.Bool("node_argument_null"), z3.Bool("root_null")
        g = Obj("ghost", "mg")
        self.g = g
        ctx.store[(g.oid, "unsubscribed")] = z3.IntVal(0)
        ctx.store[(g.oid, "unsubscribed_root")] = z3.BoolVal(False)
        self.nodes = {}
        for nm in ("arg", "root"):
            o = Obj("TSInputTargetActiveNode", nm + "_node")
            ctx.store[(o.oid, "locally_active")] = z3.Bool(nm + "_locally_active0")
            ctx.store[(o.oid, "scheduling_subscribed")] = z3.Bool(nm + "_scheduling_subscribed")
            self.nodes[nm] = o
        th = Obj("TSInputTargetLinkStorage", "this_storage")
        st = Obj("TSInputTargetLinkState", "state_")
        ctx.store[(st.oid, "scheduling_notifier")] = Obj("Notifier", "scheduling_notifier")
        k = self
        st.m_active_root = lambda I_2, a, n: Ptr(k.nodes["root"], k.root_null)
        ctx.store[(th.oid, "state_")] = st
        return th, {"node": Ptr(self.nodes["arg"], self.arg_null)}

    def function_handler(self, name, node, callee_node):
        if name == "unsubscribe_node":
            def un(I, a, n):
                ctx = I.ctx
                tgt = ctx.rv(a[0])
                ctx.write(Loc((self.g.oid, "unsubscribed")), ctx.store[(self.g.oid, "unsubscribed")] + 1)
                ctx.write(Loc((self.g.oid, "unsubscribed_root")), z3.BoolVal(tgt is self.nodes["root"]))
                return VOID
            return un
        return Kernel.function_handler(self, name, node, callee_node)

    def post(self, I, ret):
        ctx = I.ctx
        g = lambda nm: ctx.store[(self.g.oid, nm)]
        la = lambda nm: ctx.store[(self.nodes[nm].oid, "locally_active")]
        la0 = lambda nm: z3.Bool(nm + "_locally_active0")
        # the addressed node: the argument, or the root when the argument is null
        for nm, cond in (("arg", z3.Not(self.arg_null)), ("root", z3.And(self.arg_null, z3.Not(self.root_null)))):
            ctx.oblige("ensures.%s:an-active-observation-is-unsubscribed-once-and-marked-not-active[C03 an input made passive at run "
                       "time stops triggering evaluation]" % nm,
                       z3.Implies(cond, z3.And(z3.Not(la(nm)), g("unsubscribed") == z3.If(la0(nm), 1, 0),
                                               z3.Implies(la0(nm), g("unsubscribed_root") == z3.BoolVal(nm == "root")))), kind="post-normal")
        ctx.oblige("ensures.no-node=>nothing-happens", z3.Implies(z3.And(self.arg_null, self.root_null), g("unsubscribed") == 0),
                   kind="post-normal")


KERNELS += [TargetLinkNotify, TargetLinkMakePassive]
