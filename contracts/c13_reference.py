"""C13 -- reading through a reference: the input cursor blends the link's own tracking with the target's
(ts_input/base_view.cpp InputDataCursor::modified / last_modified_time, TSInputView::delta_value) and the selection
operators publish a reference only when it changes (control_impl.h if_then_else_impl / if_cmp_impl, extraction mode E2)."""
import os
import re
import z3

from cxxvc.kernel import Kernel, LoopSpec, Lemma
from cxxvc.interp import Obj, Ptr, Loc, Opt, Gap, MAX_DT, VOID
from cxxvc import extract, models

TU = "src/hgraph/types/time_series/ts_input/base_view.cpp"


class DataViewObj(Obj):
    """TSDataView with (valid, lmt); contracts proved under C04 (modified(T) <=> lmt == T and T concrete)"""
    cls = "TSDataView"

    def __init__(self, name, valid, lmt):
        Obj.__init__(self, name=name)
        self.valid, self.lmt = valid, lmt
        self.vid = z3.Int(name + "_value_id")
        self.did = z3.Int(name + "_delta_id")
        self.delta_has = z3.Bool(name + "_delta_has_value")

    def m_valid(self, I, args, n):
        return self.valid

    def m_last_modified_time(self, I, args, n):
        return self.lmt

    def m_modified(self, I, args, n):
        t = I.ctx.rv(args[0])
        return z3.And(t != 0, self.lmt == t)

    def m_value(self, I, args, n):
        return ValueTok("value", self)

    def m_delta_value(self, I, args, n):
        t = I.ctx.rv(args[0])
        # C04: a delta has a payload only in the cycle that produced it
        I.ctx.assume(z3.Implies(self.delta_has, z3.And(t != 0, self.lmt == t)))
        return ValueTok("delta", self)


class ValueTok(Obj):
    cls = "ValueView"

    def __init__(self, kind, src):
        Obj.__init__(self, name=kind)
        self.kind, self.src = kind, src

    def m_has_value(self, I, args, n):
        return self.src.delta_has if self.kind == "delta" else z3.BoolVal(True)


class LinkObj(Obj):
    cls = "TSInputTargetLinkStorage"

    def __init__(self, k):
        Obj.__init__(self, name="link")
        self.k = k

    def m_sampled_structural_transition(self, I, args, n):
        return self.k.sampled_transition

    def m_structural_transition_time(self, I, args, n):
        return self.k.transition_time

    def member(self, ctx, name, node):
        if name == "tracking":
            o = Obj("TSDataTracking", "link_tracking")
            ctx.store[(o.oid, "last_modified_time")] = self.k.link_lmt
            return o
        raise Gap("link member %s" % name)


class CursorKernel(Kernel):
    tu = TU
    property_ids = ("C13", "C04")
    scope = {"lo": 0, "hi": 3}

    def base(self, I):
        ctx = I.ctx
        self.T = z3.Int("evaluation_time")
        ctx.assume(z3.And(self.T >= 0, self.T <= MAX_DT))
        self.is_target = z3.Bool("is_target_position")
        self.is_root = z3.Bool("is_target_root")
        self.link_null = z3.Bool("link_storage_null")
        self.sampled_transition = z3.Bool("sampled_structural_transition")
        self.transition_time = z3.Int("structural_transition_time")
        self.link_lmt = z3.Int("link_lmt")        # the link's own tracking (raw_data)
        self.target_valid = z3.Bool("target_valid")
        self.target_lmt = z3.Int("target_lmt")
        ctx.assume(z3.And(self.link_lmt >= 0, self.target_lmt >= 0))
        # a root of a link tree is a target position; its raw data is the link's own storage
        ctx.assume(z3.Implies(self.is_root, self.is_target))
        self.raw = DataViewObj("raw", z3.BoolVal(True), self.link_lmt)
        self.data = DataViewObj("target", self.target_valid, self.target_lmt)
        th = Obj("InputDataCursor", "this_cursor")
        self.th = th
        ctx.store[(th.oid, "raw_data")] = self.raw
        return th

    def method_handler(self, obj, name, node):
        k = self
        if obj is self.th:
            m = {"resolved_value_data": lambda I, o, a, n: k.data,
                 "is_target_position": lambda I, o, a, n: k.is_target,
                 "is_target_root": lambda I, o, a, n: k.is_root,
                 "link_storage": lambda I, o, a, n: Ptr(LinkObj(k), k.link_null)}
            if name in m:
                return m[name]
        return Kernel.method_handler(self, obj, name, node)


class CursorModified(CursorKernel):
    name = "ts_input/base_view.cpp:InputDataCursor::modified"
    filter = "InputDataCursor::modified"
    fn_name = "modified"
    title = "input modified(T): own link record, sampled structural transition, or the target's tick"

    def setup(self, I):
        th = self.base(I)
        return th, {"evaluation_time": self.T}

    def post(self, I, ret):
        ctx = I.ctx
        T = self.T
        tick = lambda lmt: z3.And(T != 0, lmt == T)
        trans = z3.And(z3.Not(self.link_null), self.sampled_transition, self.transition_time == T)
        spec = z3.If(T == 0, z3.BoolVal(False),
               z3.If(z3.Not(self.is_target), z3.And(self.target_valid, tick(self.target_lmt)),
               z3.If(z3.Not(self.target_valid), tick(self.link_lmt),
                     z3.Or(z3.And(self.is_root, tick(self.link_lmt)), trans, tick(self.target_lmt)))))
        ctx.oblige("ensures.modified<=>link-recorded-at-T-or-structural-transition-at-T-or-target-ticked-at-T[C13 a retarget "
                   "is seen as modified even though the target did not tick; C04 consumers see the producer's modified]",
                   ret == spec, kind="post-normal")
        ctx.oblige("ensures.plain-bound-input-sees-exactly-the-producer's-tick[C04]",
                   z3.Implies(z3.And(z3.Not(self.is_target), self.target_valid), ret == tick(self.target_lmt)), kind="post-normal")


class CursorLastModified(CursorKernel):
    name = "ts_input/base_view.cpp:InputDataCursor::last_modified_time"
    filter = "InputDataCursor::last_modified_time"
    fn_name = "last_modified_time"
    title = "input last_modified_time: max(link, target) on a target root, else the target's"

    def setup(self, I):
        th = self.base(I)
        return th, {}

    def post(self, I, ret):
        ctx = I.ctx
        mx = z3.If(self.link_lmt >= self.target_lmt, self.link_lmt, self.target_lmt)
        spec = z3.If(self.is_target, z3.If(z3.Not(self.target_valid), self.link_lmt, z3.If(self.is_root, mx, self.target_lmt)),
                     self.target_lmt)
        ctx.oblige("ensures.lmt=max(link,target)-on-a-root-else-target[C13/C04]", ret == spec, kind="post-normal")


class CursorConsistency(Lemma):
    name = "lemma:input-modified-agrees-with-last-modified-time"
    property_ids = ("C13", "C04")
    title = "for a bound target root (no time in the future): modified(T) <=> last_modified_time() == T, given that a sampled transition records the link"
    scope = {"lo": 0, "hi": 3}

    def lemmas(self):
        T, l, t, tt = z3.Ints("T link_lmt target_lmt transition_time")
        trans = z3.Bool("sampled_transition")
        hyp = [T >= 1, l >= 0, t >= 0, l <= T, t <= T,
               # bind_sampled records the link at the time of the transition it publishes (target_link.cpp, not under contract)
               z3.Implies(z3.And(trans, tt == T), l == T)]
        modified = z3.Or(l == T, z3.And(trans, tt == T), t == T)
        lmt = z3.If(l >= t, l, t)
        yield "root-with-valid-target", hyp, modified == (lmt == T)


class InputDeltaValue(CursorKernel):
    name = "ts_input/base_view.cpp:TSInputView::delta_value"
    filter = "TSInputView::delta_value"
    fn_name = "delta_value"
    property_ids = ("C13",)
    title = "input delta_value: the target's whole value after a retarget to an older valid target, else the target's own delta"

    def setup(self, I):
        ctx = I.ctx
        self.base(I)
        view = Obj("TSInputView", "this_view")
        self.view = view
        ctx.store[(view.oid, "evaluation_time_")] = self.T
        cur = Obj("InputDataCursor", "data_")
        self.cur = cur
        ctx.store[(view.oid, "data_")] = cur
        self.kind_ts = z3.Bool("schema_kind_is_TS")
        self.schema_null = z3.Bool("schema_null")
        self.view_modified = z3.Bool("view_modified")
        return view, {}

    def method_handler(self, obj, name, node):
        k = self
        if obj is self.view:
            m = {"data_view": lambda I, o, a, n: k.data, "is_target_position": lambda I, o, a, n: k.is_target,
                 "modified": lambda I, o, a, n: k.view_modified}
            if name in m:
                return m[name]
            if name == "schema":
                def sch(I, o, a, n):
                    s = Obj("schema", "schema")
                    I.ctx.store[(s.oid, "kind")] = z3.If(k.kind_ts, z3.IntVal(1), z3.IntVal(5))
                    return Ptr(s, k.schema_null)
                return sch
        if obj is self.cur and name == "link_storage":
            return lambda I, o, a, n: Ptr(LinkObj(k), k.link_null)
        return Kernel.method_handler(self, obj, name, node)

    def enum_const(self, I, ref):
        return z3.IntVal(1) if ref.get("name") == "TS" else z3.IntVal(50)

    def post(self, I, ret):
        ctx = I.ctx
        if not isinstance(ret, ValueTok):
            raise Gap("delta_value returned %r" % (ret,))
        sampled = z3.And(self.is_target, z3.Not(self.link_null), self.link_lmt > self.target_lmt)
        is_value = z3.BoolVal(ret.kind == "value")
        ctx.oblige("ensures.retargeted-after-the-target's-last-tick=>whole-current-value,never-a-stale-delta[C13 sees the new "
                   "target's current value as modified]", z3.Implies(sampled, is_value), kind="post-normal")
        ctx.oblige("ensures.otherwise=>the-target's-own-delta-for-this-cycle-when-it-has-one[C13 exactly the delta of the "
                   "currently referenced target]",
                   z3.Implies(z3.And(z3.Not(sampled), self.data.delta_has), z3.Not(is_value)), kind="post-normal")
        ctx.oblige("ensures.value-fallback-only-for-a-modified-atomic-TS", z3.Implies(
            z3.And(z3.Not(sampled), z3.Not(self.data.delta_has), is_value),
            z3.And(z3.Not(self.schema_null), self.kind_ts, self.view_modified)), kind="post-normal")
        ctx.oblige("ensures.reads-the-current-target", z3.BoolVal(ret.src is self.data), kind="post-normal")

    def post_exc(self, I, exc):
        I.ctx.oblige("raises.logic_error-iff-no-live-target", z3.And(z3.BoolVal(exc.cls == "std::logic_error"),
                                                                   z3.Not(self.target_valid)), kind="post-exceptional")


KERNELS = [CursorModified, CursorLastModified, InputDeltaValue]
LEMMAS = [CursorConsistency]


# =====================================================================================================
# if_then_else_impl / if_cmp_impl (extraction mode E2)
# =====================================================================================================
# clang 14 crashes on every translation unit that includes control_impl.h (static-node template machinery), so the text
# of the two structs is cut mechanically from the header on every run (brace matching from `struct <name>`) and pasted
# under signature-only declarations of the wrapper types it mentions.  The wrappers' behaviour comes only from the
# contracts below, exactly as for any opaque callee.  Dropped: everything else in the header.

SHIMS = r"""
#include <cstddef>
namespace hgraph {
  using Bool = bool;
  using DateTime = long;
  struct TimeSeriesReference { bool operator==(const TimeSeriesReference &) const; };
  struct ValueView { template <class T> const T &checked_as() const; };
  struct TSOutputMutationView { bool copy_value_from(const ValueView &); };
  struct TSInputView { bool modified() const; bool valid() const; ValueView value() const; };
  struct TSOutputView { bool valid() const; ValueView value() const; DateTime evaluation_time() const;
                        TSOutputMutationView begin_mutation(DateTime) const; };
  template <std::size_t N> struct fixed_string { char v[N]; constexpr fixed_string(const char (&s)[N]) { for (std::size_t i = 0; i < N; ++i) v[i] = s[i]; } };
  enum class InputValidity { Checked, Unchecked };
  enum class CmpResult { LT, EQ, GT };
  template <class T> struct TS {};
  template <class T> struct REF {};
  template <fixed_string S> struct TsVar {};
  template <class S> struct shim_value_of;
  template <class T> struct shim_value_of<TS<T>> { using type = T; };
  template <class T> struct shim_value_of<REF<T>> { using type = ValueView; };
  template <fixed_string N, class S, InputValidity V = InputValidity::Checked> struct In {
    bool modified() const; bool valid() const; typename shim_value_of<S>::type value() const; const TSInputView &base() const; };
  template <class S> struct Out : TSOutputView {};
namespace stdlib {
"""


def cut_struct(text, name):
    m = re.search(r"\n(\s*)struct %s\b" % re.escape(name), text)
    if not m:
        raise Gap("struct %s not found in control_impl.h" % name)
    i = text.index("{", m.end())
    depth, j = 0, i
    while True:
        c = text[j]
        if c == "{":
            depth += 1
        elif c == "}":
            depth -= 1
            if depth == 0:
                break
        j += 1
    return text[m.start():j + 1] + ";\n"


def make_gen_tu():
    hdr = os.path.join(extract.REPO, "include/hgraph/lib/std/operators/impl/control_impl.h")
    text = open(hdr).read()
    return SHIMS + cut_struct(text, "if_then_else_impl") + cut_struct(text, "if_cmp_impl") + "\n}}\n"


class SelInput(Obj):
    """In<...>: (valid, modified, value) of one input; base() is the erased TSInputView of the same input"""
    cls = "In"

    def __init__(self, k, name):
        Obj.__init__(self, name=name)
        self.k = k
        self.valid = z3.Bool(name + "_valid")
        self.modified = z3.Bool(name + "_modified")
        self.ref = z3.Int(name + "_reference")

    def m_valid(self, I, args, n):
        return self.valid

    def m_modified(self, I, args, n):
        return self.modified

    def m_base(self, I, args, n):
        return self

    def m_value(self, I, args, n):
        self.k.values_read.append(self.name)
        return RefVal(self.ref)


class RefVal(Obj):
    cls = "ValueView(reference)"

    def __init__(self, rid):
        Obj.__init__(self, name="reference")
        self.rid = rid

    def m_checked_as(self, I, args, n):
        return self

    def op(self, I, op, rest, n, a0):
        if op == "==":
            return self.rid == rest[0].rid
        return NotImplemented

    def compare(self, I, op, other):
        e = self.rid == other.rid
        return e if op == "==" else z3.Not(e)


class OutObj(Obj):
    cls = "Out"

    def __init__(self, k):
        Obj.__init__(self, name="out")
        self.k = k

    def m_valid(self, I, args, n):
        return self.k.out_valid

    def m_value(self, I, args, n):
        return RefVal(self.k.out_ref)

    def m_evaluation_time(self, I, args, n):
        return self.k.T

    def m_begin_mutation(self, I, args, n):
        I.ctx.write(Loc((self.k.g.oid, "mut_t")), I.ctx.rv(args[0]))
        return OutMutation(self.k)


class OutMutation(Obj):
    cls = "mutation"

    def __init__(self, k):
        Obj.__init__(self, name="mutation")
        self.k = k

    def m_copy_value_from(self, I, args, n):
        ctx = I.ctx
        v = ctx.rv(args[0])
        ctx.write(Loc((self.k.g.oid, "writes")), ctx.store[(self.k.g.oid, "writes")] + 1)
        ctx.write(Loc((self.k.g.oid, "written")), v.rid)
        return ctx.fresh("first", "bool")


class SelectionKernel(Kernel):
    tu = "gen:control_impl_selection"
    extraction_mode = "E2: struct text cut from include/hgraph/lib/std/operators/impl/control_impl.h under signature-only shims (clang 14 crashes on the real header)"
    property_ids = ("C13",)
    scope = {"lo": 0, "hi": 3}
    fn_name = "eval"

    def requests(self):
        extract.GEN_TUS["control_impl_selection"] = make_gen_tu()
        return [(self.tu, self.filter)]

    def base(self, I):
        ctx = I.ctx
        self.T = z3.Int("evaluation_time")
        self.out_valid = z3.Bool("out_valid")
        self.out_ref = z3.Int("out_reference")
        g = Obj("ghost", "sg")
        self.g = g
        ctx.store[(g.oid, "writes")] = z3.IntVal(0)
        ctx.store[(g.oid, "written")] = z3.IntVal(-9)
        ctx.store[(g.oid, "mut_t")] = z3.IntVal(-9)
        self.values_read = []

    def sel_post(self, I, selector_modified, selected, others):
        ctx = I.ctx
        g = self.g
        writes, written = ctx.store[(g.oid, "writes")], ctx.store[(g.oid, "written")]
        sv, sm, sr = selected
        should = z3.And(z3.Or(selector_modified, sm), sv, z3.Not(z3.And(self.out_valid, self.out_ref == sr)))
        ctx.oblige("ensures.publishes-the-selected-reference-iff-it-changes[C13 republishing an unchanged reference causes no "
                   "tick; a retarget is published in the same cycle]",
                   z3.And(writes == z3.If(should, 1, 0), z3.Implies(should, z3.And(written == sr, ctx.store[(g.oid, "mut_t")] == self.T))),
                   kind="post-normal")
        ctx.oblige("ensures.nothing-written-unless-the-selector-or-the-selected-input-ticked-and-the-selection-is-valid[C13 "
                   "ticks of targets that are not selected never reach the consumer]",
                   z3.Implies(z3.Or(z3.Not(z3.Or(selector_modified, sm)), z3.Not(sv)), writes == 0), kind="post-normal")


class IfThenElse(SelectionKernel):
    name = "control_impl.h:if_then_else_impl::eval"
    filter = "if_then_else_impl"
    cls = "if_then_else_impl"
    title = "if_then_else: same-reference de-duplication, only the selected input is read"

    def setup(self, I):
        self.base(I)
        self.cond = z3.Bool("condition_value")
        self.cond_mod = z3.Bool("condition_modified")
        self.tv, self.fv = SelInput(self, "true_value"), SelInput(self, "false_value")
        k = self

        class Cond(Obj):
            cls = "In(condition)"

            def m_value(self_, I2, a, n):
                return k.cond

            def m_modified(self_, I2, a, n):
                return k.cond_mod
        return None, {"condition": Cond(name="condition"), "true_value": self.tv, "false_value": self.fv, "out": OutObj(self)}

    def post(self, I, ret):
        pick = lambda a, b: z3.If(self.cond, a, b)
        self.sel_post(I, self.cond_mod, (pick(self.tv.valid, self.fv.valid), pick(self.tv.modified, self.fv.modified),
                                        pick(self.tv.ref, self.fv.ref)), None)
        unsel = "false_value" if z3.is_true(z3.simplify(self.cond)) else "true_value"
        I.ctx.oblige("ensures.the-unselected-input-is-never-read-for-its-value[C13]",
                     z3.And(z3.Implies(self.cond, z3.BoolVal("false_value" not in self.values_read)),
                            z3.Implies(z3.Not(self.cond), z3.BoolVal("true_value" not in self.values_read))), kind="post-normal")


class IfCmp(SelectionKernel):
    name = "control_impl.h:if_cmp_impl::eval"
    filter = "if_cmp_impl"
    cls = "if_cmp_impl"
    title = "if_cmp: same-reference de-duplication over three branches"

    def setup(self, I):
        self.base(I)
        self.cmp = z3.Int("cmp_value")
        I.ctx.assume(z3.And(self.cmp >= 0, self.cmp <= 2))
        self.cmp_mod = z3.Bool("cmp_modified")
        self.lt, self.eq_, self.gt = SelInput(self, "lt"), SelInput(self, "eq"), SelInput(self, "gt")
        k = self

        class Cmp(Obj):
            cls = "In(cmp)"

            def m_value(self_, I2, a, n):
                return k.cmp

            def m_modified(self_, I2, a, n):
                return k.cmp_mod
        return None, {"cmp": Cmp(name="cmp"), "lt": self.lt, "eq": self.eq_, "gt": self.gt, "out": OutObj(self)}

    def enum_const(self, I, ref):
        return z3.IntVal({"LT": 0, "EQ": 1, "GT": 2}[ref.get("name")])

    def post(self, I, ret):
        pick = lambda a, b, c: z3.If(self.cmp == 0, a, z3.If(self.cmp == 1, b, c))
        self.sel_post(I, self.cmp_mod, (pick(self.lt.valid, self.eq_.valid, self.gt.valid),
                                       pick(self.lt.modified, self.eq_.modified, self.gt.modified),
                                       pick(self.lt.ref, self.eq_.ref, self.gt.ref)), None)


KERNELS += [IfThenElse, IfCmp]


# ------------------------------------------------------------------ target_link_ops.cpp: what the consumer had been shown
#
# On a retarget over a set/dictionary the consumer's delta is the difference between the OLD contents it had been shown
# (the previous target as of the end of the previous cycle) and the new target's contents.  In terms of the slot store
# (C05 SLInv: added is a subset of live, removed is disjoint from live and still readable):
#     old[s] = (live[s] and not added_this_cycle[s]) or removed_this_cycle[s]
# where this cycle's added/removed marks are only meaningful when the previous target was modified at the transition time.

TLTU = "src/hgraph/types/time_series/ts_input/target_link_ops.cpp"
I_ = z3.IntSort()
B_ = z3.BoolSort()


class FnField(Obj):
    cls = "fnptr"

    def __init__(self, fn):
        Obj.__init__(self, name="fn")
        self.fn = fn

    def call(self, I, args, n):
        return self.fn(I, args, n)


class SlotAccess(Obj):
    cls = "slot_access"

    def __init__(self, k):
        Obj.__init__(self, name="slot_access")
        self.k = k

    def member(self, ctx, name, node):
        k = self.k
        tbl = {
            "slot_occupied": lambda I, a, n: z3.Or(k.live[I.ctx.rv(a[1])], k.removed[I.ctx.rv(a[1])]),
            "slot_published": lambda I, a, n: z3.Or(k.live[I.ctx.rv(a[1])], k.removed[I.ctx.rv(a[1])]),
            "slot_added": lambda I, a, n: k.added[I.ctx.rv(a[1])],
            "slot_removed": lambda I, a, n: k.removed[I.ctx.rv(a[1])],
        }
        if name in tbl:
            return FnField(tbl[name])
        raise Gap("slot access operation %s" % name)


class PrevView(Obj):
    cls = "TSDataView(previous)"

    def __init__(self, k):
        Obj.__init__(self, name="previous")
        self.k = k

    def m_valid(self, I, a, n):
        return z3.And(z3.Not(self.k.link_null), self.k.transition_active, self.k.prev_valid)

    def m_modified(self, I, a, n):
        t = I.ctx.rv(a[0])
        I.ctx.oblige("callee-pre.previous-target-inspected-at-the-transition-time", t == self.k.transition_time, kind="callee-pre")
        return self.k.prev_modified_at_transition


class TLink(Obj):
    cls = "TargetLink"

    def __init__(self, k):
        Obj.__init__(self, name="link")
        self.k = k

    def m_structural_transition_time(self, I, a, n):
        return self.k.transition_time

    def m_structural_transition_active(self, I, a, n):
        return self.k.transition_active


class PreviousSlotWasPublished(Kernel):
    tu = TLTU
    name = "target_link_ops.cpp:target_link_previous_slot_was_published"
    fn_name = "target_link_previous_slot_was_published"
    filter = "target_link_previous_slot_was_published"
    property_ids = ("C13",)
    scope = {"lo": 0, "hi": 3}
    title = "target_link_previous_slot_was_published: a slot counts as shown to the consumer iff it was in the old contents"

    def setup(self, I):
        ctx = I.ctx
        self.live, self.added, self.removed = (z3.Array(nm, I_, B_) for nm in ("slot_live", "slot_added_this_cycle", "slot_removed_this_cycle"))
        qs = z3.Int("qs")
        ctx.assume(z3.ForAll([qs], z3.And(z3.Implies(self.added[qs], self.live[qs]), z3.Not(z3.And(self.removed[qs], self.live[qs])))))
        self.link_null, self.access_null = z3.Bool("link_null"), z3.Bool("slot_access_null")
        self.transition_active, self.prev_valid = z3.Bool("transition_active"), z3.Bool("previous_target_valid")
        self.prev_modified_at_transition = z3.Bool("previous_modified_at_the_transition_time")
        self.transition_time = z3.Int("transition_time")
        self.slot = z3.Int("slot")
        state = Obj("TSInputTargetLinkContext", "state")
        ctx.store[(state.oid, "slot_access")] = Ptr(SlotAccess(self), self.access_null)
        self.state = state
        return None, {"context": Ptr(state), "memory": Ptr(Obj("memory", "memory")), "slot": self.slot}

    def function_handler(self, name, node, callee_node):
        if name == "target_link_for":
            return lambda I, a, n: Ptr(TLink(self), self.link_null)
        if name == "target_link_previous_view":
            return lambda I, a, n: PrevView(self)
        return Kernel.function_handler(self, name, node, callee_node)

    def ctor_handler(self, qt, node):
        if qt.endswith("TSDataView"):
            return lambda I, args, n: (I.ctx.rv(args[0]) if args else PrevView(self))
        return Kernel.ctor_handler(self, qt, node)

    def post(self, I, ret):
        s = self.slot
        usable = z3.And(z3.Not(self.link_null), self.transition_active, self.prev_valid, z3.Not(self.access_null))
        old = z3.If(self.prev_modified_at_transition, z3.Or(z3.And(self.live[s], z3.Not(self.added[s])), self.removed[s]),
                    z3.Or(self.live[s], self.removed[s]))
        I.ctx.oblige("ensures.result<=>the-slot's-key-was-in-the-old-contents-the-consumer-had-been-shown[C13 a retarget over a set or "
                     "dictionary reports the difference between old and new contents]", ret == z3.And(usable, old), kind="post-normal")


KERNELS += [PreviousSlotWasPublished]


class TargetLinkDeltaView(Kernel):
    tu = TLTU
    name = "target_link_ops.cpp:target_link_delta_view"
    fn_name = "target_link_delta_view"
    filter = "target_link_delta_view"
    property_ids = ("C04", "C13")
    scope = {"lo": 0, "hi": 3}
    title = "target_link_delta_view: the delta seen through a link is the target's delta for exactly the asking cycle"

    def setup(self, I):
        ctx = I.ctx
        self.T = z3.Int("evaluation_time")
        self.link_null = z3.Bool("link_null")
        g = Obj("ghost", "dg")
        self.g = g
        ctx.store[(g.oid, "asked")] = z3.IntVal(0)
        ctx.store[(g.oid, "asked_t")] = z3.IntVal(-9)
        ctx.store[(g.oid, "asked_on_target")] = z3.BoolVal(False)
        k = self
        link = Obj("TargetLinkStorage", "link")
        trk = Obj("TSDataTracking", "tracking")
        ctx.store[(trk.oid, "last_modified_time")] = z3.Int("link_last_modified_time")
        ctx.store[(link.oid, "tracking")] = trk

        def view(is_target):
            v = Obj("TSDataView", "target" if is_target else "empty_view")

            def dv(I_, a, n):
                c = I_.ctx
                c.write(Loc((g.oid, "asked")), c.store[(g.oid, "asked")] + 1)
                c.write(Loc((g.oid, "asked_t")), c.rv(a[0]))
                c.write(Loc((g.oid, "asked_on_target")), z3.BoolVal(is_target))
                r = Obj("ValueView", "delta")
                return r
            v.m_delta_value = dv
            return v
        link.m_target_view = lambda I_, a, n: view(True)
        self.link = link
        self.mkview = view
        return None, {"context": Ptr(Obj("TSInputTargetLinkContext", "state")), "memory": Ptr(Obj("memory", "memory")),
                      "evaluation_time": self.T}

    def function_handler(self, name, node, callee_node):
        if name == "target_link_storage_at":
            return lambda I, a, n: Ptr(self.link, self.link_null)
        if name == "min":
            return lambda I, a, n: z3.If(I.ctx.rv(a[0]) < I.ctx.rv(a[1]), I.ctx.rv(a[0]), I.ctx.rv(a[1]))
        return Kernel.function_handler(self, name, node, callee_node)

    def ctor_handler(self, qt, node):
        if qt.endswith("TSDataView"):
            return lambda I, args, n: (I.ctx.rv(args[0]) if args else self.mkview(False))
        if qt.endswith("ValueView"):
            return lambda I, args, n: (I.ctx.rv(args[0]) if args else Obj("ValueView", "empty"))
        return Kernel.ctor_handler(self, qt, node)

    def post(self, I, ret):
        ctx = I.ctx
        g = lambda nm: ctx.store[(self.g.oid, nm)]
        ctx.oblige("ensures.the-target's-delta-is-asked-once,for-exactly-the-caller's-cycle[C04 a delta is readable only in the cycle "
                   "that produced it; C13 reading through a link equals reading its target]",
                   z3.And(g("asked") == 1, g("asked_t") == self.T, g("asked_on_target") == z3.Not(self.link_null)), kind="post-normal")


KERNELS += [TargetLinkDeltaView]


# ------------------------------------------------------------------ target_link.cpp: the binds used on a retarget
#
# A from-reference alternative re-points its consumers with bind_current_value (scalar / fixed shapes) or bind_sampled
# (sets, dictionaries).  C13's "the consumer is evaluated in that same cycle and sees the new target's current value as
# modified even though the target itself did not tick" rests on the link being recorded as modified at the retarget time
# whenever the new target holds a value - independently of when that target last ticked.

TLTU3 = "src/hgraph/types/time_series/ts_input/target_link.cpp"
MIN_DT_ID = "MIN_DT"


class LinkBindKernel(Kernel):
    tu = TLTU3
    scope = {"lo": 0, "hi": 3}
    filter = "TSInputTargetLinkStorage::bind"
    property_ids = ("C13",)

    def setup(self, I):
        ctx = I.ctx
        self.T = z3.Int("modified_time")
        self.has_value = z3.Bool("new_target_has_a_current_value")
        self.bind_throws = z3.Bool("bind_impl_rejects_the_output")
        g = Obj("ghost", "bg")
        self.g = g
        for nm in ("binds", "records", "records_before_bind"):
            ctx.store[(g.oid, nm)] = z3.IntVal(0)
        for nm in ("bind_t", "record_t"):
            ctx.store[(g.oid, nm)] = z3.IntVal(-9)
        for nm in ("bind_sampled", "bind_replay", "bind_args_ok"):
            ctx.store[(g.oid, nm)] = z3.BoolVal(False)
        th = Obj("TSInputTargetLinkStorage", "this_link")
        self.schema = Obj("TSValueTypeMetaData", "schema")
        out = Obj("TSOutputView", "output")
        dv = Obj("TSDataView", "output_data")
        # whatever else the code asks the source about is unconstrained: only has_current_value decides the sampling
        dv.m_has_current_value = lambda I_2, a, n: self.has_value
        dv.m_last_modified_time = lambda I_2, a, n: z3.Int("new_target_last_modified_time")
        dv.m_modified = lambda I_2, a, n: z3.Bool("new_target_modified_now")
        dv.m_valid = lambda I_2, a, n: z3.Bool("new_target_valid")
        out.m_data_view = lambda I_2, a, n: dv
        self.out = out
        st = Obj("TSInputTargetLinkState", "state_")
        tgt = Obj("TSOutputHandle", "previous_target")
        tgt.m_bound = lambda I_2, a, n: z3.Bool("link_was_bound_before")
        ctx.store[(st.oid, "target")] = tgt
        ctx.store[(th.oid, "state_")] = st
        th.m_bound = lambda I_2, a, n: z3.Bool("link_was_bound_before")
        th.m_target_output = lambda I_2, a, n: tgt
        self.th = th
        return th, {"schema": self.schema, "output": out, "modified_time": self.T}

    def method_handler(self, obj, name, node):
        g = self.g
        if name == "bind_impl":
            def bi(I, o, a, n):
                c = I.ctx
                v = [c.rv(x) for x in a]
                c.write(Loc((g.oid, "binds")), c.store[(g.oid, "binds")] + 1)
                c.write(Loc((g.oid, "bind_args_ok")), z3.BoolVal(v[0] is self.schema and v[1] is self.out))
                c.write(Loc((g.oid, "bind_t")), v[2])
                c.write(Loc((g.oid, "bind_sampled")), v[3] if z3.is_expr(v[3]) else z3.BoolVal(bool(v[3])))
                c.write(Loc((g.oid, "bind_replay")), v[4] if z3.is_expr(v[4]) else z3.BoolVal(bool(v[4])))
                if c.decide(self.bind_throws, "bind_impl throws"):
                    I.throw_from_callee("bind_impl", cls="std::invalid_argument")
                return VOID
            return bi
        if name == "record_target_modified":
            def rec(I, o, a, n):
                c = I.ctx
                c.write(Loc((g.oid, "records")), c.store[(g.oid, "records")] + 1)
                c.write(Loc((g.oid, "record_t")), c.rv(a[0]))
                c.write(Loc((g.oid, "records_before_bind")), c.store[(g.oid, "records_before_bind")] +
                        z3.If(c.store[(g.oid, "binds")] == 0, 1, 0))
                return VOID
            return rec
        return Kernel.method_handler(self, obj, name, node)

    def gv(self, ctx, nm):
        return ctx.store[(self.g.oid, nm)]


class BindCurrentValue(LinkBindKernel):
    name = "target_link.cpp:TSInputTargetLinkStorage::bind_current_value"
    fn_name = "bind_current_value"
    title = "bind_current_value: a (re)bind to a target that holds a value is recorded as modified at the bind time, whenever " \
            "that target last ticked"

    def post(self, I, ret):
        ctx = I.ctx
        g = lambda nm: self.gv(ctx, nm)
        ctx.oblige("ensures.bound-once,unsampled,to-the-given-output", z3.And(
            self.T != z3.IntVal(0), g("binds") == 1, g("bind_args_ok"), g("bind_t") == z3.IntVal(0),
            z3.Not(g("bind_sampled")), z3.Not(g("bind_replay"))), kind="post-normal")
        ctx.oblige("ensures.link-recorded-modified-at-the-bind-time-iff-the-new-target-holds-a-value[C13 on a retarget to a valid target "
                   "the consumer is evaluated in that same cycle and sees the target's current value as modified: a target that ticked "
                   "earlier, in the same cycle, or never since]",
                   z3.And(g("records") == z3.If(self.has_value, 1, 0), g("records_before_bind") == 0,
                          z3.Implies(self.has_value, g("record_t") == self.T)), kind="post-normal")

    def post_exc(self, I, exc):
        ctx = I.ctx
        g = lambda nm: self.gv(ctx, nm)
        ctx.oblige("raises.invalid_argument:no-evaluation-time(nothing-bound)-or-bind_impl-rejected(nothing-recorded)",
                   z3.And(z3.BoolVal(exc.cls == "std::invalid_argument"), g("records") == 0,
                          z3.Or(z3.And(self.T == z3.IntVal(0), g("binds") == 0), z3.And(self.bind_throws, g("binds") == 1))),
                   kind="post-exceptional")


class BindSampled(LinkBindKernel):
    name = "target_link.cpp:TSInputTargetLinkStorage::bind_sampled"
    fn_name = "bind_sampled"
    title = "bind_sampled: a keyed-shape retarget binds sampled at the retarget time"

    def post(self, I, ret):
        ctx = I.ctx
        g = lambda nm: self.gv(ctx, nm)
        ctx.oblige("ensures.bound-once,sampled-at-the-bind-time[C13 for sets and dictionaries the retarget is reported at the retarget "
                   "cycle as the difference between old and new contents]", z3.And(
                       self.T != z3.IntVal(0), g("binds") == 1, g("bind_args_ok"), g("bind_t") == self.T, g("bind_sampled"),
                       z3.Not(g("bind_replay"))), kind="post-normal")

    def post_exc(self, I, exc):
        ctx = I.ctx
        g = lambda nm: self.gv(ctx, nm)
        ctx.oblige("raises.invalid_argument:no-evaluation-time(nothing-bound)-or-bind_impl-rejected",
                   z3.And(z3.BoolVal(exc.cls == "std::invalid_argument"),
                          z3.Or(z3.And(self.T == z3.IntVal(0), g("binds") == 0), z3.And(self.bind_throws, g("binds") == 1))),
                   kind="post-exceptional")


class RecordTargetModified(Kernel):
    tu = TLTU3
    scope = {"lo": 0, "hi": 3}
    filter = "TSInputTargetLinkStorage::record_target_modified"
    name = "target_link.cpp:TSInputTargetLinkStorage::record_target_modified"
    fn_name = "record_target_modified"
    property_ids = ("C13", "C04")
    title = "record_target_modified: a newly recorded link time is passed up to the owning input"

    def setup(self, I):
        ctx = I.ctx
        self.T = z3.Int("modified_time")
        self.newly = z3.Bool("tracking_recorded_a_new_time")
        g = Obj("ghost", "rg")
        self.g = g
        ctx.store[(g.oid, "recorded")] = z3.IntVal(0)
        ctx.store[(g.oid, "recorded_t")] = z3.IntVal(-9)
        ctx.store[(g.oid, "parent_told")] = z3.IntVal(0)
        ctx.store[(g.oid, "parent_t")] = z3.IntVal(-9)
        th = Obj("TSInputTargetLinkStorage", "this_link")
        trk = Obj("TSDataTracking", "tracking")
        parent = Obj("TSParentLink", "parent")

        def rm(I_2, a, n):
            c = I_2.ctx
            c.write(Loc((g.oid, "recorded")), c.store[(g.oid, "recorded")] + 1)
            c.write(Loc((g.oid, "recorded_t")), c.rv(a[0]))
            return self.newly
        trk.m_record_modified = rm

        def pn(I_2, a, n):
            c = I_2.ctx
            c.write(Loc((g.oid, "parent_told")), c.store[(g.oid, "parent_told")] + 1)
            c.write(Loc((g.oid, "parent_t")), c.rv(a[0]))
            return VOID
        parent.m_notify_child_modified = pn
        ctx.store[(trk.oid, "parent")] = parent
        ctx.store[(th.oid, "tracking")] = trk
        return th, {"modified_time": self.T}

    def post(self, I, ret):
        ctx = I.ctx
        g = lambda nm: ctx.store[(self.g.oid, nm)]
        ctx.oblige("ensures.link-time-recorded-once,parent-told-iff-it-was-new[C13 the consumer below the reference is scheduled in the "
                   "retarget cycle; C04 one modification time per cycle]",
                   z3.And(g("recorded") == 1, g("recorded_t") == self.T, g("parent_told") == z3.If(self.newly, 1, 0),
                          z3.Implies(self.newly, g("parent_t") == self.T)), kind="post-normal")


KERNELS += [BindCurrentValue, BindSampled, RecordTargetModified]


# ---------------------------------------------------------------- alternative.cpp bind_target_link_at (C13_r6_2)
class HandleObj(Obj):
    """TSOutputHandle: identity of one output POSITION = (producing output, storage type record, data address); the schema it is
    read as is a further attribute that two different positions of one output may share"""
    cls = "TSOutputHandle"

    def __init__(self, name, out, st, data, schema):
        Obj.__init__(self, name=name)
        self.out, self.st, self.data, self.schema = out, st, data, schema

    def m_same_as(self, I, args, n):
        o = I.ctx.rv(args[0])
        if not isinstance(o, HandleObj):
            raise Gap("same_as(%r)" % (o,))
        # base_view.h TSOutputHandle::same_as (one line): output, storage type and data address all equal
        return z3.And(self.out == o.out, self.st == o.st, self.data == o.data)

    def m_output(self, I, args, n):
        return self.out

    def m_schema(self, I, args, n):
        return self.schema

    def m_handle(self, I, args, n):
        return self


class LinkStore(Obj):
    cls = "TSInputTargetLinkStorage"

    def __init__(self, k):
        Obj.__init__(self, name="link")
        self.k = k

    def m_bound(self, I, args, n):
        return self.k.link_bound

    def m_target_output(self, I, args, n):
        return self.k.existing

    def _bind(self, I, args, n, how):
        ctx = I.ctx
        g = self.k.g
        ctx.write(Loc((g.oid, "binds")), ctx.store[(g.oid, "binds")] + 1)
        ctx.write(Loc((g.oid, "how")), z3.IntVal(how))
        out = ctx.rv(args[1])
        ctx.write(Loc((g.oid, "bound_to_new")), z3.BoolVal(out is self.k.new))
        ctx.write(Loc((g.oid, "bind_time")), ctx.rv(args[2]))
        sch = ctx.rv(args[0])
        ctx.write(Loc((g.oid, "bind_schema_ok")), z3.BoolVal(getattr(sch, "cls", None) == "TSValueTypeMetaData(target)"))
        return VOID

    def m_bind_sampled(self, I, args, n):
        return self._bind(I, args, n, 1)

    def m_bind_current_value(self, I, args, n):
        return self._bind(I, args, n, 2)


class BindTargetLinkAt(Kernel):
    name = "alternative.cpp:bind_target_link_at"
    tu = "src/hgraph/types/time_series/ts_output/alternative.cpp"
    filter = "bind_target_link_at"
    fn_name = "bind_target_link_at"
    property_ids = ("C13",)
    scope = {"lo": 0, "hi": 3}
    title = ("bind_target_link_at: applying a reference (re)binds the consumer's link to the referenced position unless the link "
             "already points at exactly that position (same output, same storage record, same data address)")

    def setup(self, I):
        ctx = I.ctx
        g = Obj("ghost", "bg")
        self.g = g
        for nm, v in (("binds", z3.IntVal(0)), ("how", z3.IntVal(0)), ("bound_to_new", z3.BoolVal(False)), ("bind_time", z3.IntVal(-1)),
                      ("bind_schema_ok", z3.BoolVal(False))):
            ctx.store[(g.oid, nm)] = v
        self.link_null, self.link_bound, self.schema_null = z3.Bool("link_storage_null"), z3.Bool("link_bound"), z3.Bool("target_schema_null")
        self.kind = z3.Int("target_schema_kind")
        e = [z3.Int(x) for x in ("existing_output", "existing_storage_type", "existing_data", "existing_schema")]
        nw = [z3.Int(x) for x in ("new_output", "new_storage_type", "new_data", "new_schema")]
        self.existing = HandleObj("existing_target", *e)
        self.new = HandleObj("output", *nw)
        # a position determines the schema it is read as (not conversely)
        ctx.assume(z3.Implies(z3.And(e[0] == nw[0], e[1] == nw[1], e[2] == nw[2]), e[3] == nw[3]))
        self.t = z3.Int("modified_time")
        ctx.assume(self.t > 0)
        self.target = Obj("TSDataView", "target")
        self.link = LinkStore(self)
        self.schema_obj = Obj("TSValueTypeMetaData(target)", "target_schema")
        ctx.store[(self.schema_obj.oid, "kind")] = self.kind
        return None, {"target": self.target, "output": self.new, "modified_time": self.t}

    KINDS = {"TSS": 101, "TSD": 102}

    def enum_const(self, I, ref):
        nm = ref.get("name")
        if nm in self.KINDS:
            return z3.IntVal(self.KINDS[nm])
        return z3.IntVal(200 + (hash(nm) % 50))

    def function_handler(self, name, node, callee_node):
        if name == "mutable_target_link_storage":
            return lambda I, a, n: Ptr(self.link, self.link_null)
        if name == "target_link_schema":
            return lambda I, a, n: Ptr(self.schema_obj, self.schema_null)
        return Kernel.function_handler(self, name, node, callee_node)

    def same_position(self):
        e, n = self.existing, self.new
        return z3.And(e.out == n.out, e.st == n.st, e.data == n.data)

    def post(self, I, ret):
        ctx = I.ctx
        g = self.g
        dedup = z3.And(z3.Not(self.link_null), self.link_bound, self.same_position())
        keyed = z3.Or(self.kind == self.KINDS["TSS"], self.kind == self.KINDS["TSD"])
        ctx.oblige("ensures.rebind-skipped-iff-already-bound-to-exactly-that-position[C13 a retarget - also between two positions of one "
                   "output read with the same schema - re-binds the consumer, which is then evaluated in that cycle and follows the new target]",
                   ctx.store[(g.oid, "binds")] == z3.If(dedup, 0, 1), kind="post-normal")
        ctx.oblige("ensures.bound-to-the-referenced-output-at-the-retarget-time-with-the-target's-schema[C13 sees the new target's value]",
                   z3.Implies(z3.Not(dedup), z3.And(ctx.store[(g.oid, "bound_to_new")], ctx.store[(g.oid, "bind_time")] == self.t,
                                                    ctx.store[(g.oid, "bind_schema_ok")])), kind="post-normal")
        ctx.oblige("ensures.keyed-shapes-are-bound-sampled,others-sample-the-current-value[C13 delta of a freshly bound target]",
                   z3.Implies(z3.Not(dedup), ctx.store[(g.oid, "how")] == z3.If(keyed, 1, 2)), kind="post-normal")

    def post_exc(self, I, exc):
        ctx = I.ctx
        dedup = z3.And(z3.Not(self.link_null), self.link_bound, self.same_position())
        ctx.oblige("raises.logic_error-iff-no-link-storage-or-no-schema", z3.And(
            z3.BoolVal(exc.cls == "std::logic_error"), z3.Not(dedup), z3.Or(self.link_null, self.schema_null),
            ctx.store[(self.g.oid, "binds")] == 0), kind="post-exceptional")


KERNELS += [BindTargetLinkAt]
