"""C14 -- mesh_ node: MeshNodeStorage::stop_all_noexcept (mesh_node.cpp), the stop path of the dynamically created mesh children:
every child graph that is started is given stop exactly once, a child whose stop throws does not keep the others from stopping
(the helper is noexcept: failures are swallowed by fallback_on_exception), nothing is stopped twice and no child that is not
started is stopped."""
import z3

from cxxvc.kernel import Kernel, LoopSpec
from cxxvc.interp import Obj, Ptr, Loc, VOID
from cxxvc import models
from contracts.c10_map import MapKernel, EntriesStore, I_, B_, qs

TU = "src/hgraph/runtime/mesh_node.cpp"


class Clearable(Obj):
    cls = "container"

    def m_clear(self, I, args, n):
        I.ctx.write(Loc((self.k.g.oid, "cleared_" + self.nm)), z3.BoolVal(True))
        return VOID

    m_reset = m_clear

    def op(self, I, op, rest, n, a0):
        if op == "=":
            return self.m_clear(I, [], n)      # `x = {}`
        return NotImplemented


class MeshEntries(EntriesStore):
    def m_destroy_all(self, I, args, n):
        ctx = I.ctx
        k = self.k
        ctx.oblige("entries.destroy_all:no-child-is-still-started[C14 a child is stopped before its storage is destroyed]",
                   z3.ForAll([qs], z3.Implies(z3.And(qs >= 0, qs < k.cap), z3.Not(ctx.store[(k.g.oid, "started")][qs]))), kind="callee-pre")
        ctx.write(Loc((k.g.oid, "destroyed")), z3.BoolVal(True))
        return VOID


class MeshStopAll(MapKernel):
    name = "mesh_node.cpp:MeshNodeStorage::stop_all_noexcept"
    tu = TU
    fn_name = "stop_all_noexcept"
    filter = "stop_all_noexcept"
    property_ids = ("C14",)
    title = "mesh_ stop_all_noexcept: every started child graph is given stop exactly once, whichever child's stop throws"
    bounded_fallback = 3

    def bound_sizes(self, I, n):
        I.ctx.assume(self.cap <= n)

    def setup(self, I):
        ctx = I.ctx
        self.base(I)
        self.cap = z3.Int("slot_capacity")
        ctx.assume(self.cap >= 0)
        ctx.store[(self.g.oid, "destroyed")] = z3.BoolVal(False)
        ctx.store[(self.st.oid, "entries")] = MeshEntries(self)
        for nm in ("refresh_all_bindings", "primed", "requested_keys_source_cleared"):
            ctx.store[(self.st.oid, nm)] = z3.Bool(nm + "0")
        ctx.store[(self.st.oid, "max_rank")] = z3.Int("max_rank0")
        ctx.store[(self.st.oid, "retirement_time")] = z3.Int("retirement_time0")
        for nm in ("dependents", "graphs_to_remove", "outer_sources", "evaluation_candidates", "evaluation_order", "child_schedule_queue",
                   "current_eval_key"):
            c = Clearable(name=nm)
            c.k, c.nm = self, nm
            ctx.store[(self.g.oid, "cleared_" + nm)] = z3.BoolVal(False)
            ctx.store[(self.st.oid, nm)] = c
        return self.st, {}

    def ctor_handler(self, qt, node):
        if "TypedPtr<" in qt or qt.endswith("Value"):
            return lambda I, args, n: Obj("Value", "empty_value")
        return MapKernel.ctor_handler(self, qt, node)

    def inv(self, I, ctx):
        s = self.local(I, "slot")
        started, stops = self.gg(ctx, "started"), self.gg(ctx, "stops")
        yield "slot-range", z3.And(s >= 0, s <= self.cap)
        yield "children-below-the-cursor-stopped-once[C14]", z3.ForAll([qs], z3.And(
            z3.Implies(z3.And(qs >= 0, qs < s), z3.And(z3.Not(started[qs]), stops[qs] == z3.If(self.started0[qs], 1, 0))),
            z3.Implies(z3.Or(qs < 0, qs >= s), z3.And(started[qs] == self.started0[qs], stops[qs] == 0))))
        yield "nothing-destroyed-yet", z3.Not(self.gg(ctx, "destroyed"))

    def frame(self, I, ctx):
        return [Loc((self.g.oid, nm)) for nm in ("started", "stops", "stop_throws")]

    @property
    def loops(self):
        return {0: LoopSpec(self.inv, self.frame)}

    def post(self, I, ret):
        ctx = I.ctx
        started, stops = self.gg(ctx, "started"), self.gg(ctx, "stops")
        ctx.oblige("ensures.every-started-child-stopped-exactly-once,whichever-stop-throws[C14 dynamically created children; a failing "
                   "stop does not prevent the remaining ones]",
                   z3.ForAll([qs], z3.Implies(z3.And(qs >= 0, qs < self.cap), z3.And(
                       z3.Not(started[qs]), stops[qs] == z3.If(self.started0[qs], 1, 0)))), kind="post-normal")
        ctx.oblige("ensures.children-destroyed-and-bookkeeping-cleared-after-the-stops", z3.And(
            self.gg(ctx, "destroyed"), *[self.gg(ctx, "cleared_" + nm) for nm in ("dependents", "graphs_to_remove", "outer_sources")]),
            kind="post-normal")

    def post_exc(self, I, exc):
        I.ctx.oblige("noexcept:no-exception-escapes[C14 a second failure during clean-up must not terminate the process]", False,
                     kind="post-exceptional")


models.install_guards(MeshStopAll)
KERNELS = [MeshStopAll]
