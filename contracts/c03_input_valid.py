"""C03 -- the readiness gate's view of an assembled (non-peered) TSL / TSB input: ts_input.cpp input_has_current_value
(`valid`: some direct child holds a value) and input_all_valid (`all_valid`: there is at least one child and EVERY direct child
holds a value).  node.cpp ready_to_evaluate (under contract in c03_node) asks exactly these through the input ops table.

children: n slots; a child holds a value iff its storage type is set, its element memory is resolvable and the element's ops
table reports has_current_value (opaque per child: chas[i])."""
import z3

from cxxvc.kernel import Kernel, LoopSpec
from cxxvc.interp import Obj, Ptr, Loc, Gap, VOID
from cxxvc import models

I_ = z3.IntSort()
B_ = z3.BoolSort()
qi = z3.Int("qi")
TU = "src/hgraph/types/time_series/ts_input.cpp"


class ChildMem(Obj):
    cls = "child_memory"

    def __init__(self, idx):
        Obj.__init__(self, name="child_memory")
        self.idx = idx


class HasFn:
    def __init__(self, k):
        self.k = k

    def call(self, I, args, n):
        mem = I.ctx.rv(args[1])
        if isinstance(mem, Ptr):
            I.ctx.oblige("requires.has_current_value_impl: element memory not null", z3.Not(mem.null), kind="callee-pre")
            mem = mem.target
        if not isinstance(mem, ChildMem):
            raise Gap("has_current_value_impl on %r" % (mem,))
        k = self.k
        k.polled = getattr(k, "polled", 0) + 1
        return k.chas[mem.idx]


class TypeRef(Obj):
    cls = "TSRoleTypeRef"

    def __init__(self, k, idx):
        Obj.__init__(self, name="child_type")
        self.k = k
        self.idx = idx

    def truth(self, I=None):
        return self.k.tset[self.idx]

    def op(self, I, op, rest, n, a0):
        if op == "!" and not rest:
            return z3.Not(self.k.tset[self.idx])
        return NotImplemented

    def m_ops(self, I, args, n):
        o = Obj("TSDataOps", "child_ops")
        I.ctx.store[(o.oid, "has_current_value_impl")] = HasFn(self.k)
        I.ctx.store[(o.oid, "context")] = z3.IntVal(0)
        return Ptr(o, z3.Not(self.k.tset[self.idx]))


class InputValidKernel(Kernel):
    tu = TU
    property_ids = ("C03",)
    scope = {"lo": 0, "hi": 3}
    bounded_fallback = 3
    sig = "bool (const void *, const void *)"

    def setup(self, I):
        ctx = I.ctx
        self.n = z3.Int("n_children")
        ctx.assume(self.n >= 0)
        self.chas = z3.Array("child_has_current_value", I_, B_)
        self.tset = z3.Array("child_type_set", I_, B_)
        self.dnull = z3.Array("child_memory_null", I_, B_)
        st = Obj("InputBindingContext", "binding_context")
        self.children = models.Vec(ctx, name="children", length=self.n)
        ctx.store[(st.oid, "children")] = self.children
        self.st = st
        self.ctxp = Ptr(st, z3.BoolVal(False))
        self.mem = Ptr(Obj("input_memory", "input_memory"), z3.BoolVal(False))
        return None, {"context": self.ctxp, "memory": self.mem}

    def bound_sizes(self, I, n):
        I.ctx.assume(self.n <= n)

    def hv(self, i):
        return z3.And(self.tset[i], z3.Not(self.dnull[i]), self.chas[i])

    def f_type(self, I, args, n):
        return TypeRef(self, I.ctx.rv(args[2]))

    def f_mem(self, I, args, n):
        i = I.ctx.rv(args[2])
        return Ptr(ChildMem(i), self.dnull[i])

    def function_handler(self, name, node, callee_node):
        if name == "input_value_storage_type":
            return self.f_type
        if name == "input_element_memory":
            return self.f_mem
        return Kernel.function_handler(self, name, node, callee_node)

    def post_exc(self, I, exc):
        I.ctx.oblige("no-exception", False, kind="post-exceptional")


class InputHasCurrentValue(InputValidKernel):
    name = "ts_input.cpp:input_has_current_value"
    fn_name = "input_has_current_value"
    filter = "input_has_current_value"
    title = "assembled input `valid`: true iff some direct child holds a value"

    def _inv(self, I, ctx):
        idx = self.local(I, "index")
        yield "index-range", z3.And(idx >= 0, idx <= self.n)
        yield "no-valued-child-so-far", z3.ForAll([qi], z3.Implies(z3.And(qi >= 0, qi < idx), z3.Not(self.hv(qi))))

    @property
    def loops(self):
        return {0: LoopSpec(inv=self._inv)}

    def post(self, I, ret):
        I.ctx.oblige("ensures.valid<=>some-child-holds-a-value[C03 every input it requires to be valid holds a value]",
                     ret == z3.Exists([qi], z3.And(qi >= 0, qi < self.n, self.hv(qi))), kind="post-normal")


class InputAllValid(InputValidKernel):
    name = "ts_input.cpp:input_all_valid"
    fn_name = "input_all_valid"
    filter = "input_all_valid"
    inline = ("input_has_current_value",)
    title = "assembled input `all_valid`: true iff there is a child and every direct child holds a value"

    def _inv0(self, I, ctx):
        idx = self.local(I, "index")
        yield "index-range", z3.And(idx >= 0, idx <= self.n)
        yield "no-valued-child-so-far", z3.ForAll([qi], z3.Implies(z3.And(qi >= 0, qi < idx), z3.Not(self.hv(qi))))

    def _inv1(self, I, ctx):
        idx = self.local(I, "index")
        yield "index-range", z3.And(idx >= 0, idx <= self.n)
        yield "every-child-so-far-holds-a-value", z3.ForAll([qi], z3.Implies(z3.And(qi >= 0, qi < idx), self.hv(qi)))

    @property
    def loops(self):
        return {"input_has_current_value:0": LoopSpec(inv=self._inv0), 0: LoopSpec(inv=self._inv1)}

    def post(self, I, ret):
        I.ctx.oblige("ensures.all_valid<=>at-least-one-child-and-every-child-holds-a-value[C03 every input it requires to be valid "
                     "holds a value: an all-valid input with any value-less element keeps the node from running]",
                     ret == z3.And(self.n >= 1, z3.ForAll([qi], z3.Implies(z3.And(qi >= 0, qi < self.n), self.hv(qi)))),
                     kind="post-normal")


KERNELS = [InputHasCurrentValue, InputAllValid]
