"""graph.cpp scheduling kernels (C01, C02, C09): schedule_node_impl<Root|Nested>, the rely relation R
of node callbacks, nested_schedule_node_impl, propagate_nested_parent_schedule."""
import z3

from cxxvc.kernel import Kernel, LoopSpec, Lemma
from cxxvc.interp import Obj, Ptr, Loc, ArrLoc, Gap, MAX_DT, ExcVal, VOID
from contracts.gs import GS, GraphKernel, cache_le, rely_R, qj, qi, qk, INVALID_CURSOR, NodeViewObj

INF = MAX_DT + 1


def eff(s, T, L):
    """earliest time at which a node with slot value s is still due; L = 'the node can still run in the
    current cycle' (evaluating and not yet passed by the scan, or the graph is starting)"""
    return z3.If(z3.Or(s > T, z3.And(s == T, L)), s, INF)


class ScheduleNodeImpl(GraphKernel):
    fn_name = "schedule_node_impl"
    filter = "schedule_node_impl"
    property_ids = ("C02", "C01", "C09", "C18")
    title = "schedule_node_impl: slot replacement rule and cache update"

    def setup(self, I):
        ctx = I.ctx
        gs = self.make_gs(I)
        self.i = z3.Int("node_index")
        self.w = z3.Int("when")
        self.L = z3.Bool("L_can_still_run_now")  # ghost: node i can still run at T in this cycle
        ctx.assume(z3.And(self.i >= 0, self.w >= 0, self.w <= MAX_DT))
        return None, {"context": self.ctx_token, "graph": gs.view, "node_index": self.i, "when": self.w}

    def unchanged(self, I):
        ctx = I.ctx
        gs = self.gs
        return z3.And(gs.sched(ctx) == gs.sched0, gs.header_unchanged(ctx, ctx.pre_store))

    def post_exc(self, I, exc):
        ctx = I.ctx
        gs = self.gs
        ctx.oblige("raises.out_of_range-iff-bad-index,runtime_error-iff-past",
                   z3.Or(z3.And(z3.BoolVal(exc.cls == "std::out_of_range"), self.i >= gs.n),
                         z3.And(z3.BoolVal(exc.cls == "std::runtime_error"), self.i < gs.n, self.w < gs.T0)),
                   kind="post-exceptional")
        ctx.oblige("raises.state-unchanged", self.unchanged(I), kind="post-exceptional")

    def post(self, I, ret):
        ctx = I.ctx
        gs = self.gs
        s0, s1 = gs.sched0, gs.sched(ctx)
        T, nst0, nst1 = gs.T0, gs.nst0, gs.get(ctx, "next_scheduled_time")
        i, w, L = self.i, self.w, self.L
        ctx.oblige("ensures.accepted-iff-valid", z3.And(i < gs.n, w >= T), kind="post-normal")
        ctx.oblige("ensures.other-slots-unchanged", z3.ForAll([qj], z3.Implies(qj != i, s1[qj] == s0[qj])),
                   kind="post-normal")
        ctx.oblige("ensures.header-frame", gs.header_unchanged(ctx, ctx.pre_store, (
            "evaluation_time", "evaluation_cursor", "started", "evaluating", "evaluation_failed")), kind="post-normal")
        # property-derived (C02: never dropped, coalesced, early or late): the earliest due time of node i
        # becomes min(old, when), given the two call-site obligations the body cannot check
        honourable = z3.Or(w > T, L)
        no_overtake = z3.Not(z3.And(L, s0[i] == T, w > T))
        e0, e1 = eff(s0[i], T, L), eff(s1[i], T, L)
        ctx.oblige("ensures.eff'=min(eff,when)[C02 never dropped/early/late; C01 same-cycle only ahead of the scan]",
                   z3.Implies(z3.And(honourable, no_overtake), e1 == z3.If(w < e0, w, e0)), kind="post-normal")
        ctx.oblige("ensures.cache=min(cache,when)-for-future-times[C02]",
                   z3.Implies(z3.Implies(s0[i] > T, nst0 <= s0[i]),
                              nst1 == z3.If(z3.And(w > T, w < nst0), w, nst0)), kind="post-normal")
        ctx.oblige("ensures.cache-only-lowered-to-when", z3.Or(nst1 == nst0, z3.And(nst1 == w, w > T, w < nst0)),
                   kind="post-normal")
        ctx.oblige("ensures.cache-below-the-slot-preserved[C02 cache never above a pending time]",
                   z3.Implies(z3.Implies(s0[i] > T, nst0 <= s0[i]), z3.Implies(s1[i] > T, nst1 <= s1[i])),
                   kind="post-normal")
        ctx.oblige("ensures.no-phantom-wake-up[C02 no cycle for which nothing was requested]",
                   z3.Implies(nst1 != nst0, z3.And(s1[i] == nst1, nst1 > T)), kind="post-normal")
        ctx.oblige("ensures.rely-R[one call is an R step]", rely_R(s0, nst0, s1, nst1, T, gs.n), kind="post-normal")


class ScheduleNodeImplRoot(ScheduleNodeImpl):
    name = "graph.cpp:schedule_node_impl<Root>"
    nested = False


class ScheduleNodeImplNested(ScheduleNodeImpl):
    name = "graph.cpp:schedule_node_impl<Nested>"
    nested = True


class RelyLemmas(Lemma):
    """R (gs.rely_R) is the reflexive-transitive summary of schedule_node_impl calls"""
    name = "lemma:rely-R"
    property_ids = ("C02", "C01")
    title = "R is reflexive and transitive (so it summarises any number of schedule_node_impl calls)"
    scope = {"lo": 0, "hi": 3}

    def lemmas(self):
        I_ = z3.IntSort()
        s0, s1, s2 = (z3.Array("s%d" % k, I_, I_) for k in range(3))
        n0, n1, n2 = z3.Ints("nst0 nst1 nst2")
        T, n = z3.Ints("T n")
        base = [T >= 0, T <= MAX_DT, n >= 0]
        wf = lambda s, nst: z3.And(z3.ForAll([qj], z3.And(s[qj] >= 0, s[qj] <= MAX_DT)), nst >= 0)
        yield "R-reflexive", base + [wf(s0, n0)], rely_R(s0, n0, s0, n0, T, n)
        yield "R-transitive", base + [rely_R(s0, n0, s1, n1, T, n), rely_R(s1, n1, s2, n2, T, n)], \
            rely_R(s0, n0, s2, n2, T, n)
        # what the scan of evaluate_impl needs from R
        c = z3.Int("cur")
        yield "R-preserves-folded-prefix", base + [c >= 0, c <= n, cache_le(s0, n0, T, n, upto=c),
                                                   rely_R(s0, n0, s1, n1, T, n)], cache_le(s1, n1, T, n, upto=c)


KERNELS = [ScheduleNodeImplRoot, ScheduleNodeImplNested]
LEMMAS = [RelyLemmas]


# =====================================================================================================
# evaluate_impl<Root|Nested>
# =====================================================================================================

from cxxvc.interp import ThrowEx  # noqa: E402


class PushQueueObj(Obj):
    cls = "PushQueueEngineView"


class Chain(Obj):
    """graph.root().executor() ... : opaque navigation objects"""
    cls = "chain"


class EvaluateImpl(GraphKernel):
    fn_name = "evaluate_impl"
    filter = "evaluate_impl"
    sig = "bool (const void *, const hgraph::GraphView &, hgraph::DateTime)"
    property_ids = ("C01", "C02", "C09", "C14", "C15", "C16")
    title = "evaluate_impl: one engine cycle over the node array"
    max_paths = 20000

    # ---------------- pre-state
    def setup(self, I):
        ctx = I.ctx
        gs = self.make_gs(I)
        self.Tn = z3.Int("evaluation_time_arg")
        ctx.assume(z3.And(self.Tn >= 0, self.Tn < MAX_DT))
        self.first = z3.Int("push_source_nodes_end") if not self.nested else z3.IntVal(0)
        ctx.assume(z3.And(self.first >= 0, self.first <= gs.n))
        self.schema = Obj("GraphSchema", "schema")
        ctx.store[(self.schema.oid, "push_source_nodes_end")] = self.first
        # ghosts of this call
        g = Obj("eval_ghost", "eg")
        self.g = g
        ctx.store[(g.oid, "ev_cnt")] = z3.K(z3.IntSort(), z3.IntVal(0))
        ctx.store[(g.oid, "visited")] = z3.K(z3.IntSort(), z3.IntVal(0))
        ctx.store[(g.oid, "turn")] = z3.Array("turn0", z3.IntSort(), z3.IntSort())
        ctx.store[(g.oid, "resets")] = z3.IntVal(0)
        ctx.store[(g.oid, "parent_calls")] = z3.IntVal(0)
        ctx.store[(g.oid, "parent_when")] = z3.Int("parent_when0")
        ctx.store[(g.oid, "pup")] = z3.BoolVal(False)
        ctx.store[(g.oid, "flag")] = z3.Bool("push_update_pending_flag0")   # the executor's push_update_pending
        ctx.store[(g.oid, "marked")] = z3.BoolVal(False)                    # a push node re-marked it after the last reset
        ctx.store[(g.oid, "throw_index")] = z3.IntVal(-1)
        self.pq = PushQueueObj(name="push_queue")
        # a paused (resumable) cycle: cursor strictly inside, not failed, same time, prefix already folded
        c0 = gs.cur0
        self.resumable = z3.And(c0 != 0, c0 != INVALID_CURSOR, z3.Not(gs.failed0))
        ctx.assume(z3.Implies(self.resumable, z3.And(
            c0 >= self.first, c0 < gs.n, self.Tn == gs.T0, cache_le(gs.sched0, gs.nst0, self.Tn, gs.n, upto=c0),
            z3.Or(gs.nst0 == MAX_DT, gs.nst0 > self.Tn))))
        # a failed cycle leaves the cursor on the failing node
        ctx.assume(z3.Implies(gs.failed0, z3.And(c0 >= 0, c0 < gs.n)))
        ctx.assume(z3.Not(gs.evaluating0))
        ctx.assume(self.Tn >= gs.T0)
        return None, {"context": self.ctx_token, "graph": gs.view, "evaluation_time": self.Tn}

    def gget(self, ctx, nm):
        return ctx.store[(self.g.oid, nm)]

    def gset(self, I, nm, v):
        I.ctx.write(Loc((self.g.oid, nm)), v)

    # ---------------- callees
    def f_graph_schedule(self, I, args, n):
        loc = GraphKernel.f_graph_schedule(self, I, args, n)
        ctx = I.ctx
        i = loc.index
        if ctx.uncaught > 0:
            return loc      # the failure path's fold reads the slots; it is not a turn of the scan
        # ghost: this index had its turn; remember the slot value seen at the turn
        self.gset(I, "visited", z3.Store(self.gget(ctx, "visited"), i, 1))
        self.gset(I, "turn", z3.Store(self.gget(ctx, "turn"), i, self.gs.sched(ctx)[i]))
        return loc

    def gv_schema(self, I, o, a, n):
        return Ptr(self.schema, z3.BoolVal(False))

    def gv_root(self, I, o, a, n):
        return Chain(name="root_graph")

    def method_handler(self, obj, name, node):
        if isinstance(obj, Chain):
            if name == "executor":
                return lambda I, o, a, n: Chain(name="executor")
            if name == "push_queue_engine":
                return lambda I, o, a, n: self.pq
        if isinstance(obj, PushQueueObj) and name == "reset_push_update_pending":
            return self.pq_reset
        if isinstance(obj, PushQueueObj) and name == "is_push_update_pending":
            return lambda I, o, a, n: self.gget(I.ctx, "flag")
        if isinstance(obj, PushQueueObj) and name == "mark_push_update_pending":
            return self.pq_mark
        return GraphKernel.method_handler(self, obj, name, node)

    def pq_reset(self, I, o, a, n):
        """contract proved on realtime_reset_push_update_pending_impl: returns the old flag and clears it"""
        ctx = I.ctx
        self.gset(I, "resets", self.gget(ctx, "resets") + 1)
        pup = self.gget(ctx, "flag")
        self.gset(I, "pup", pup)
        self.gset(I, "flag", z3.BoolVal(False))
        self.gset(I, "marked", z3.BoolVal(False))
        return pup

    def pq_mark(self, I, o, a, n):
        self.gset(I, "flag", z3.BoolVal(True))
        self.gset(I, "marked", z3.BoolVal(True))
        return VOID

    def nv_evaluate(self, I, o, a, n):
        """rely contract of NodeView::evaluate for node o.index at time a[0]"""
        from cxxvc import extract
        ctx = I.ctx
        gs = self.gs
        i = o.index
        t = ctx.rv(a[0])
        turn = self.gget(ctx, "turn")
        ctx.oblige("callee-pre.evaluate-at-the-cycle-time[C09/C14]", t == self.Tn, kind="callee-pre", line=extract.line_of(n))
        ctx.oblige("callee-pre.evaluate-only-if-slot==T-at-its-turn[C01 run only if due; C16 push nodes when flag set]",
                   z3.Or(turn[i] == self.Tn, z3.And(i < self.first, self.gget(ctx, "pup"))), kind="callee-pre",
                   line=extract.line_of(n))
        ctx.oblige("callee-pre.evaluate-on-the-cursor-node[C15 failed_node names it]",
                   gs.get(ctx, "evaluation_cursor") == i, kind="callee-pre", line=extract.line_of(n))
        ctx.oblige("callee-pre.not-evaluated-before-in-this-cycle[C01 at most once]",
                   self.gget(ctx, "ev_cnt")[i] == 0, kind="callee-pre", line=extract.line_of(n))
        ctx.oblige("callee-pre.graph-started-and-evaluating[C14 no evaluation before start/after stop]",
                   z3.And(gs.get(ctx, "started"), gs.get(ctx, "evaluating")), kind="callee-pre", line=extract.line_of(n))
        self.gset(I, "ev_cnt", z3.Store(self.gget(ctx, "ev_cnt"), i, self.gget(ctx, "ev_cnt")[i] + 1))
        # effect on this graph: any number of schedule_node_impl calls (relation R), nothing else
        s0, nst0 = gs.sched(ctx), gs.get(ctx, "next_scheduled_time")
        s1 = ctx.fresh("sched_after_eval", s0.sort())
        nst1 = ctx.fresh("nst_after_eval")
        ctx.write(Loc(gs.sched_key), s1)
        ctx.write(gs.loc("next_scheduled_time"), nst1)
        ctx.assume(rely_R(s0, nst0, s1, nst1, self.Tn, gs.n))
        ctx.assume(nst1 <= MAX_DT)
        # a push source whose queue still holds values re-marks the executor's pending flag (push_source_eval)
        rem = ctx.fresh("push_node_remarks", "bool")
        self.gset(I, "flag", z3.Or(self.gget(ctx, "flag"), rem))
        self.gset(I, "marked", z3.Or(self.gget(ctx, "marked"), rem))
        k = ctx.choose(2, "node.evaluate outcome")
        if k == 0:
            return ctx.fresh("completed", "bool")
        self.gset(I, "throw_index", i)
        I.throw_from_callee("NodeView::evaluate", tags={"node_index": i})

    def f_propagate_nested_parent_schedule(self, I, args, n):
        """contract (verified as its own kernel below): parent.schedule_node(parent_index, nst) iff nst < MAX_DT"""
        ctx = I.ctx
        nst = self.gs.get(ctx, "next_scheduled_time")
        self.gset(I, "parent_calls", self.gget(ctx, "parent_calls") + z3.If(nst < MAX_DT, 1, 0))
        self.gset(I, "parent_when", z3.If(nst < MAX_DT, nst, self.gget(ctx, "parent_when")))
        return VOID

    # ---------------- invariants
    def main_inv(self, I, ctx):
        gs = self.gs
        cur = gs.get(ctx, "evaluation_cursor")
        s, nst = gs.sched(ctx), gs.get(ctx, "next_scheduled_time")
        T = self.Tn
        evc, vis, turn = self.gget(ctx, "ev_cnt"), self.gget(ctx, "visited"), self.gget(ctx, "turn")
        lo = z3.If(self.resumable, gs.cur0, self.first)
        yield "cursor-range", z3.And(lo <= cur, cur <= gs.n)
        yield "header", z3.And(gs.get(ctx, "evaluation_time") == T, gs.get(ctx, "evaluating"), gs.get(ctx, "started"),
                               z3.Not(gs.get(ctx, "evaluation_failed")))
        yield "cache-below-folded-prefix[C02]", cache_le(s, nst, T, gs.n, upto=cur)
        yield "cache-in-range", z3.And(nst <= MAX_DT, z3.Or(nst == MAX_DT, nst > T))
        yield "sched-in-range", z3.ForAll([qj], z3.And(s[qj] >= 0, s[qj] <= MAX_DT))
        yield "visited-prefix[C01 single increasing scan; C15 fresh cycle after a failure]", \
            z3.ForAll([qj], z3.Implies(z3.And(lo <= qj, qj < cur), vis[qj] == 1))
        yield "evaluated-at-most-once-and-only-behind-the-cursor[C01]", \
            z3.ForAll([qj], z3.And(evc[qj] >= 0, evc[qj] <= 1, z3.Implies(evc[qj] == 1, z3.And(qj < cur, qj >= 0))))
        yield "due-nodes-were-evaluated[C02 honoured in this cycle]", \
            z3.ForAll([qj], z3.Implies(z3.And(lo <= qj, qj < cur, turn[qj] == T), evc[qj] == 1))
        yield "normal-nodes-only-if-due[C01]", \
            z3.ForAll([qj], z3.Implies(z3.And(qj >= self.first, evc[qj] == 1), turn[qj] == T))
        yield "re-marks-survive[C16 a re-arm made while draining is never wiped]", z3.Implies(self.gget(ctx, "marked"),
                                                                                                  self.gget(ctx, "flag"))
        yield "no-parent-call-yet", self.gget(ctx, "parent_calls") == 0
        yield "no-throw-yet", self.gget(ctx, "throw_index") == -1
        for x in self.extra_main_inv(I, ctx):
            yield x

    def extra_main_inv(self, I, ctx):
        return []

    # the unwind guard's loop (F15): after a node failure the slots behind the failing node are folded into the cache
    FOLD_MATCH = "index < runtime.layout.node_count"
    MAIN_MATCH = "state.evaluation_cursor < runtime.layout.node_count"

    def fold_inv(self, I, ctx):
        gs = self.gs
        cur = gs.get(ctx, "evaluation_cursor")
        s, nst = gs.sched(ctx), gs.get(ctx, "next_scheduled_time")
        idx = self.local(I, "index")
        e = [v for k, v in ctx.loop_entry.items()][-1]
        nst_e = e[gs.loc("next_scheduled_time").key]
        yield "index-range", z3.And(cur <= idx, idx <= gs.n, cur >= 0)
        yield "cache-below-every-slot-behind-the-index[C15/C02 wake-ups of the nodes the failed scan did not reach are kept]", \
            cache_le(s, nst, self.Tn, gs.n, upto=idx)
        yield "cache-only-lowered-to-a-pending-slot[C02 no cycle for which nothing was requested]", z3.And(
            nst <= nst_e, z3.Or(nst == nst_e, z3.Exists([qj], z3.And(qj >= cur, qj < idx, s[qj] == nst, nst > self.Tn))))

    def fold_frame(self, I, ctx):
        return [self.gs.loc("next_scheduled_time")]

    def main_frame(self, I, ctx):
        gs = self.gs
        return [Loc(gs.sched_key), gs.loc("next_scheduled_time"), gs.loc("evaluation_cursor"),
                gs.loc("evaluation_failed"), Loc((self.g.oid, "throw_index")), Loc((self.g.oid, "flag")),
                Loc((self.g.oid, "marked")),
                Loc((self.g.oid, "ev_cnt")), Loc((self.g.oid, "visited")), Loc((self.g.oid, "turn"))]

    # ---------------- postconditions
    def post(self, I, ret):
        ctx = I.ctx
        gs = self.gs
        cur = gs.get(ctx, "evaluation_cursor")
        s, nst = gs.sched(ctx), gs.get(ctx, "next_scheduled_time")
        T = self.Tn
        evc, vis, turn = self.gget(ctx, "ev_cnt"), self.gget(ctx, "visited"), self.gget(ctx, "turn")
        lo = z3.If(self.resumable, gs.cur0, self.first)
        done = ret  # completed cycle
        ctx.oblige("ensures.started-required", gs.started0, kind="post-normal")
        ctx.oblige("ensures.not-evaluating-afterwards", z3.Not(gs.get(ctx, "evaluating")), kind="post-normal")
        ctx.oblige("ensures.time-set", gs.get(ctx, "evaluation_time") == T, kind="post-normal")
        ctx.oblige("ensures.completed:cursor-reset", z3.Implies(done, cur == 0), kind="post-normal")
        ctx.oblige("ensures.completed:cache<=every-pending-future-slot[C02 no wake-up above the cache]",
                   z3.Implies(done, cache_le(s, nst, T, gs.n)), kind="post-normal")
        ctx.oblige("ensures.completed:cache-is-future-or-none[C02 time strictly increases]",
                   z3.Implies(done, z3.Or(nst == MAX_DT, nst > T)), kind="post-normal")
        ctx.oblige("ensures.completed:every-index-had-its-turn[C01; C15 a cycle after a failure is a fresh cycle]",
                   z3.Implies(done, z3.ForAll([qj], z3.Implies(z3.And(lo <= qj, qj < gs.n), vis[qj] == 1))),
                   kind="post-normal")
        ctx.oblige("ensures.at-most-once-per-cycle[C01]", z3.ForAll([qj], z3.And(evc[qj] >= 0, evc[qj] <= 1)),
                   kind="post-normal")
        ctx.oblige("ensures.completed:due-nodes-evaluated[C02 honoured by a cycle at exactly that time]",
                   z3.Implies(done, z3.ForAll([qj], z3.Implies(z3.And(lo <= qj, qj < gs.n, turn[qj] == T),
                                                               evc[qj] == 1))), kind="post-normal")
        ctx.oblige("ensures.normal-nodes-run-only-if-due[C01/C02 no evaluation for which nothing was requested]",
                   z3.ForAll([qj], z3.Implies(z3.And(qj >= self.first, evc[qj] == 1), turn[qj] == T)),
                   kind="post-normal")
        ctx.oblige("ensures.paused:cursor-held-on-the-pausing-node", z3.Implies(z3.Not(done), z3.And(
            cur >= lo, cur < gs.n, evc[cur] == 1, z3.Not(gs.get(ctx, "evaluation_failed")))), kind="post-normal")
        self.post_extra(I, ret)

    def post_extra(self, I, ret):
        pass

    def post_exc(self, I, exc):
        ctx = I.ctx
        gs = self.gs
        cur = gs.get(ctx, "evaluation_cursor")
        ti = self.gget(ctx, "throw_index")
        not_started = z3.And(z3.Not(gs.started0), z3.BoolVal(exc.cls == "std::logic_error"))
        ctx.oblige("raises.logic_error-iff-not-started-else-from-a-node",
                   z3.Or(not_started, z3.And(gs.started0, ti >= 0)), kind="post-exceptional")
        ctx.oblige("raises.not-started:state-unchanged",
                   z3.Implies(z3.Not(gs.started0), z3.And(gs.sched(ctx) == gs.sched0,
                                                         gs.header_unchanged(ctx, ctx.pre_store))),
                   kind="post-exceptional")
        ctx.oblige("raises.node-failure:cursor-on-failing-node,failed-flag,not-evaluating[C15 failed_node; C01 the cycle after a failure is a fresh scan (every producer has its turn before its consumers), not a resumed one; C02; C09]",
                   z3.Implies(gs.started0, z3.And(cur == ti, gs.get(ctx, "evaluation_failed"),
                                                  z3.Not(gs.get(ctx, "evaluating")))), kind="post-exceptional")
        # property-derived (C15: in later cycles the failing node AND the rest of the graph evaluate normally again; C02: no
        # requested wake-up is dropped): a cycle cut short by an exception still leaves the cache at or below every pending
        # future slot -- also of the nodes the scan never reached -- because the cache is what the executor / the owning
        # nested node asks for the next cycle (F15)
        ctx.oblige("raises.node-failure:cache<=every-pending-future-slot[C15 later cycles evaluate normally; C02 no wake-up dropped]",
                   z3.Implies(gs.started0, cache_le(gs.sched(ctx), gs.get(ctx, "next_scheduled_time"), self.Tn, gs.n)),
                   kind="post-exceptional")
        self.post_exc_extra(I, exc)

    def post_exc_extra(self, I, exc):
        pass


class EvaluateImplNested(EvaluateImpl):
    name = "graph.cpp:evaluate_impl<Nested>"
    nested = True

    @property
    def loops(self):
        return {0: LoopSpec(self.fold_inv, self.fold_frame, match=self.FOLD_MATCH),
                1: LoopSpec(self.main_inv, self.main_frame, match=self.MAIN_MATCH)}

    def post_extra(self, I, ret):
        ctx = I.ctx
        nst = self.gs.get(ctx, "next_scheduled_time")
        ctx.oblige("ensures.completed:parent-scheduled-at-child-cache[C09 pull delegation]",
                   z3.Implies(ret, z3.If(nst < MAX_DT,
                                         z3.And(self.gget(ctx, "parent_calls") == 1, self.gget(ctx, "parent_when") == nst),
                                         self.gget(ctx, "parent_calls") == 0)), kind="post-normal")
        ctx.oblige("ensures.paused:no-parent-call", z3.Implies(z3.Not(ret), self.gget(ctx, "parent_calls") == 0),
                   kind="post-normal")

    def post_exc_extra(self, I, exc):
        # C15: the message reaches try_except_/map_ unmodified: no annotation inside a nested graph
        I.ctx.oblige("raises.nested:exception-not-annotated[C15 message unchanged for the catcher]",
                     z3.BoolVal(exc.origin != "rethrow_with_node_identity"), kind="post-exceptional")
        ctx = I.ctx
        nst = self.gs.get(ctx, "next_scheduled_time")
        ctx.oblige("raises.nested:parent-scheduled-at-child-cache[C09 no wake-up of the child is lost; C15 later cycles evaluate normally; C02 work inside a nested child is honoured]",
                   z3.Implies(self.gs.started0, z3.If(nst < MAX_DT, z3.And(self.gget(ctx, "parent_calls") == 1,
                                                                          self.gget(ctx, "parent_when") == nst),
                                                      self.gget(ctx, "parent_calls") == 0)), kind="post-exceptional")


class EvaluateImplRoot(EvaluateImpl):
    name = "graph.cpp:evaluate_impl<Root>"
    nested = False

    def push_inv(self, I, ctx):
        gs = self.gs
        fr = I.ctx.frame
        T = self.Tn
        s, nst = gs.sched(ctx), gs.get(ctx, "next_scheduled_time")
        evc, vis, turn = self.gget(ctx, "ev_cnt"), self.gget(ctx, "visited"), self.gget(ctx, "turn")
        idx = self.local(I, "index")
        pup = self.gget(ctx, "pup")
        yield "index-range", z3.And(0 <= idx, idx <= self.first, self.first > 0)
        yield "header", z3.And(gs.get(ctx, "evaluation_time") == T, gs.get(ctx, "evaluating"), gs.get(ctx, "started"),
                               z3.Not(gs.get(ctx, "evaluation_failed")))
        yield "fresh-cycle", z3.Not(self.resumable)
        yield "cache-below-folded-prefix[C02]", cache_le(s, nst, T, gs.n, upto=idx)
        yield "cache-in-range", z3.And(nst <= MAX_DT, z3.Or(nst == MAX_DT, nst > T))
        yield "sched-in-range", z3.ForAll([qj], z3.And(s[qj] >= 0, s[qj] <= MAX_DT))
        yield "visited-prefix", z3.ForAll([qj], z3.Implies(z3.And(0 <= qj, qj < idx), vis[qj] == 1))
        yield "evaluated-at-most-once-and-only-behind-the-index[C01]", \
            z3.ForAll([qj], z3.And(evc[qj] >= 0, evc[qj] <= 1, z3.Implies(evc[qj] == 1, z3.And(qj < idx, qj >= 0))))
        yield "push-nodes-evaluated-when-flag-set-or-due[C16 push phase drains]", \
            z3.ForAll([qj], z3.Implies(z3.And(0 <= qj, qj < idx, z3.Or(pup, turn[qj] == T)), evc[qj] == 1))
        yield "flag-reset-once[C16]", self.gget(ctx, "resets") == 1
        yield "pup-is-the-value-read", pup == self.local(I, "push_update_pending")
        yield "re-marks-survive[C16]", z3.Implies(self.gget(ctx, "marked"), self.gget(ctx, "flag"))
        yield "no-throw-yet", z3.And(self.gget(ctx, "throw_index") == -1, self.gget(ctx, "parent_calls") == 0)


    def push_frame(self, I, ctx):
        return self.main_frame(I, ctx)

    def extra_main_inv(self, I, ctx):
        evc, turn = self.gget(ctx, "ev_cnt"), self.gget(ctx, "turn")
        pup = self.gget(ctx, "pup")
        fresh = z3.Not(self.resumable)
        yield "push-phase-done[C16]", z3.Implies(z3.And(fresh, self.first > 0), z3.And(
            self.gget(ctx, "resets") == 1,
            z3.ForAll([qj], z3.Implies(z3.And(0 <= qj, qj < self.first, z3.Or(pup, turn[qj] == self.Tn)),
                                       evc[qj] == 1))))
        yield "push-phase-skipped-on-resume", z3.Implies(z3.Not(fresh), self.gget(ctx, "resets") == 0)

    @property
    def loops(self):
        return {0: LoopSpec(self.fold_inv, self.fold_frame, match=self.FOLD_MATCH),
                1: LoopSpec(self.push_inv, self.push_frame, match="index < first_normal_node"),
                2: LoopSpec(self.main_inv, self.main_frame, match=self.MAIN_MATCH)}

    def post_extra(self, I, ret):
        ctx = I.ctx
        evc, turn = self.gget(ctx, "ev_cnt"), self.gget(ctx, "turn")
        pup = self.gget(ctx, "pup")
        fresh = z3.Not(self.resumable)
        ctx.oblige("ensures.push-flag-reset-once-per-fresh-cycle-with-push-nodes[C16]",
                   self.gget(ctx, "resets") == z3.If(z3.And(fresh, self.first > 0), 1, 0), kind="post-normal")
        ctx.oblige("ensures.a-re-mark-made-during-the-cycle-is-still-set-at-the-end[C16 every accepted value is delivered: "
                   "the consumer's re-arm is never wiped]",
                   z3.Implies(self.gget(ctx, "marked"), self.gget(ctx, "flag")), kind="post-normal")
        ctx.oblige("ensures.every-push-node-evaluated-when-the-flag-was-set[C16]",
                   z3.Implies(z3.And(fresh, self.first > 0, pup),
                              z3.ForAll([qj], z3.Implies(z3.And(0 <= qj, qj < self.first), evc[qj] == 1))),
                   kind="post-normal")

    def post_exc_extra(self, I, exc):
        ctx = I.ctx
        ti = self.gget(ctx, "throw_index")
        ann = exc.tags.get("annotated_index")
        ctx.oblige("raises.root:error-names-the-failing-node[C14 original error reaches the caller naming the node]",
                   z3.Implies(self.gs.started0, z3.And(z3.BoolVal(ann is not None), (ann == ti) if ann is not None
                                                       else z3.BoolVal(False))), kind="post-exceptional")


KERNELS += [EvaluateImplNested, EvaluateImplRoot]
