"""C04 -- modified / last-modified-time / delta gating (ts_data/types.cpp, ts_data/base_view.{h,cpp})

Abstract state: a chain of TSData nodes, level 0 = the node written, level 1 = its TSData parent, ... level D =
the root; above the root an endpoint (node-owned / input / output / none).  Per level: lmt (last_modified_time),
rcm (record_child_modified_impl calls), notif (observer notifications), nlast (time of the last notification).
ParentInv:  lmt[l] <= lmt[l+1]  (a parent is at least as recently modified as its child).
"""
import z3

from cxxvc.kernel import Kernel, LoopSpec, Lemma
from cxxvc.interp import Obj, Ptr, Loc, ArrLoc, Gap, MAX_DT, ExcVal, VOID, ThrowEx
from cxxvc import extract

I_ = z3.IntSort()
ql, qm = z3.Ints("ql qm")


class Chain(Obj):
    cls = "chain"

    def __init__(self, ctx):
        Obj.__init__(self, name="chain")
        for nm in ("lmt", "rcm", "notif", "nlast", "cid"):
            ctx.store[(self.oid, nm)] = z3.Array("ch_%s0" % nm, I_, I_)
        ctx.store[(self.oid, "ep_calls")] = z3.IntVal(0)
        ctx.store[(self.oid, "ep_last_t")] = z3.Int("ep_last_t0")
        self.D = z3.Int("chain_depth")
        self.top_node_owned = z3.Bool("top_node_owned")
        self.top_endpoint_null = z3.Bool("top_endpoint_null")
        ctx.assume(self.D >= 0)
        lmt = ctx.store[(self.oid, "lmt")]
        ctx.assume(z3.ForAll([ql], z3.And(lmt[ql] >= 0, lmt[ql] <= MAX_DT)))

    def arr(self, ctx, nm):
        return ctx.store[(self.oid, nm)]

    def aloc(self, nm, i):
        return ArrLoc((self.oid, nm), i)


class TKLevel(Obj):
    """TSDataTracking of chain level L"""
    cls = "TSDataTracking"

    def __init__(self, ch, L):
        Obj.__init__(self, name="tracking")
        self.ch, self.L = ch, L

    def member(self, ctx, name, node):
        if name == "last_modified_time":
            return self.ch.aloc("lmt", self.L)
        if name == "observers":
            return ObsLevel(self.ch, self.L)
        if name == "parent":
            return LinkLevel(self.ch, self.L + 1)
        raise Gap("TSDataTracking member %s" % name)

    def m_record_modified(self, I, args, n):
        """contract proved on types.cpp:TSDataTracking::record_modified"""
        ctx = I.ctx
        t = ctx.rv(args[0])
        ch, L = self.ch, self.L
        if ctx.decide(t == 0, "record_modified.MIN_DT"):
            I.throw_from_callee("TSDataTracking::record_modified", cls="std::invalid_argument")
        lmt = ch.arr(ctx, "lmt")
        new = t > lmt[L]
        ctx.write(Loc((ch.oid, "notif")), z3.Store(ch.arr(ctx, "notif"), L, ch.arr(ctx, "notif")[L] + z3.If(new, 1, 0)))
        ctx.write(Loc((ch.oid, "nlast")), z3.Store(ch.arr(ctx, "nlast"), L, z3.If(new, t, ch.arr(ctx, "nlast")[L])))
        ctx.write(Loc((ch.oid, "lmt")), z3.Store(lmt, L, z3.If(new, t, lmt[L])))
        return new


class ObsLevel(Obj):
    cls = "TSDataObserverSet"

    def __init__(self, ch, L):
        Obj.__init__(self, name="observers")
        self.ch, self.L = ch, L

    def m_notify(self, I, args, n):
        ctx = I.ctx
        ch, L = self.ch, self.L
        t = ctx.rv(args[0])
        ctx.write(Loc((ch.oid, "notif")), z3.Store(ch.arr(ctx, "notif"), L, ch.arr(ctx, "notif")[L] + 1))
        ctx.write(Loc((ch.oid, "nlast")), z3.Store(ch.arr(ctx, "nlast"), L, t))
        return VOID


def parent_inv(lmt, D):
    """ParentInv in its transitive form: along the chain last-modified times never decrease upwards"""
    return z3.ForAll([ql, qm], z3.Implies(z3.And(0 <= ql, ql <= qm, qm <= D), lmt[ql] <= lmt[qm]))


def reach(lmt0, P, l, t):
    return z3.ForAll([qm], z3.Implies(z3.And(P <= qm, qm < l), lmt0[qm] < t))


def notify_post(ch, ctx, pre, P, t):
    """postcondition of LinkLevel(P).notify_child_modified(t) relative to the arrays in `pre`"""
    D = ch.D
    lmt0, rcm0, nf0, nl0 = pre["lmt"], pre["rcm"], pre["notif"], pre["nlast"]
    lmt1, rcm1, nf1, nl1 = ch.arr(ctx, "lmt"), ch.arr(ctx, "rcm"), ch.arr(ctx, "notif"), ch.arr(ctx, "nlast")
    new = lambda l: z3.And(reach(lmt0, P, l, t), lmt0[l] < t)
    inside = z3.And(P <= ql, ql <= D)
    top_reached = reach(lmt0, P, D + 1, t)
    ep = z3.And(top_reached, z3.Not(ch.top_node_owned), z3.Not(ch.top_endpoint_null))
    return [
        ("chain:lmt", z3.ForAll([ql], lmt1[ql] == z3.If(z3.And(inside, new(ql)), t, lmt0[ql]))),
        ("chain:child-recorded-on-each-reached-parent", z3.ForAll([ql], rcm1[ql] == rcm0[ql] + z3.If(
            z3.And(inside, reach(lmt0, P, ql, t)), 1, 0))),
        ("chain:observers-notified-once-per-newly-modified-level", z3.ForAll([ql], z3.And(
            nf1[ql] == nf0[ql] + z3.If(z3.And(inside, new(ql)), 1, 0),
            nl1[ql] == z3.If(z3.And(inside, new(ql)), t, nl0[ql])))),
        ("chain:endpoint-told-iff-the-whole-chain-was-new", z3.And(
            ctx.store[(ch.oid, "ep_calls")] == pre["ep_calls"] + z3.If(ep, 1, 0),
            z3.Implies(ep, ctx.store[(ch.oid, "ep_last_t")] == t))),
    ]


def snapshot(ch, ctx):
    return {nm: ctx.store[(ch.oid, nm)] for nm in ("lmt", "rcm", "notif", "nlast", "ep_calls", "ep_last_t", "cid")}


class LinkLevel(Obj):
    """TSParentLink whose TSData parent (if any) is chain level P (P = D + 1: the endpoint above the root)"""
    cls = "TSParentLink"

    def __init__(self, ch, P):
        Obj.__init__(self, name="parent_link")
        self.ch, self.P = ch, P

    def member(self, ctx, name, node):
        if name == "child_id":
            return self.ch.aloc("cid", self.P)
        raise Gap("TSParentLink member %s" % name)

    def m_has_ts_data_parent(self, I, args, n):
        return self.P <= self.ch.D

    def m_has_node_endpoint_parent(self, I, args, n):
        return z3.And(self.P == self.ch.D + 1, self.ch.top_node_owned)

    def m_parent_endpoint(self, I, args, n):
        ep = Endpoint(self.ch)
        return Ptr(ep, z3.Or(self.P != self.ch.D + 1, self.ch.top_node_owned, self.ch.top_endpoint_null))

    def m_parent_storage_type(self, I, args, n):
        return TypeRef(self.ch, self.P)

    def m_parent_data(self, I, args, n):
        return Ptr(MemLevel(self.ch, self.P), z3.BoolVal(False))

    def m_mutable_parent_tracking(self, I, args, n):
        I.ctx.oblige("callee-pre.mutable_parent_tracking:has-ts-data-parent", self.P <= self.ch.D, kind="callee-pre")
        return TKLevel(self.ch, self.P)

    def m_notify_child_modified(self, I, args, n):
        """the contract being proved, used for the recursive call one level up (induction on D + 1 - P)"""
        ctx = I.ctx
        ch = self.ch
        t = ctx.rv(args[0])
        k = I.k
        ctx.oblige("callee-pre.notify_child_modified:concrete-time", t > 0, kind="callee-pre")
        ctx.oblige("callee-pre.notify_child_modified:level-in-range(termination)",
                   z3.And(self.P >= 0, self.P <= ch.D + 1), kind="callee-pre")
        pre = snapshot(ch, ctx)
        for nm in ("lmt", "rcm", "notif", "nlast"):
            ctx.write(Loc((ch.oid, nm)), ctx.fresh("ch_" + nm, pre[nm].sort()))
        ctx.write(Loc((ch.oid, "ep_calls")), ctx.fresh("ep_calls"))
        ctx.write(Loc((ch.oid, "ep_last_t")), ctx.fresh("ep_last_t"))
        for nm, cl in notify_post(ch, ctx, pre, self.P, t):
            ctx.assume(cl)
        return VOID


class Endpoint(Obj):
    cls = "TSDataParent"

    def __init__(self, ch):
        Obj.__init__(self, name="endpoint")
        self.ch = ch

    def m_record_child_modified(self, I, args, n):
        ctx = I.ctx
        ch = self.ch
        ctx.write(Loc((ch.oid, "ep_calls")), ctx.store[(ch.oid, "ep_calls")] + 1)
        ctx.write(Loc((ch.oid, "ep_last_t")), ctx.rv(args[1]))
        return VOID


class MemLevel(Obj):
    cls = "memory"

    def __init__(self, ch, P):
        Obj.__init__(self, name="memory")
        self.ch, self.P = ch, P


class FnPtr(Obj):
    cls = "fnptr"

    def __init__(self, fn, name="fn"):
        Obj.__init__(self, name=name)
        self.fn = fn

    def call(self, I, args, n):
        return self.fn(I, args, n)


class OpsTable(Obj):
    cls = "TSDataOps"

    def __init__(self, ch, P, k=None):
        Obj.__init__(self, name="ops_table")
        self.ch, self.P, self.k = ch, P, k

    def member(self, ctx, name, node):
        ch, P = self.ch, self.P
        if name == "context":
            return Ptr(Obj("ctx", "ops_context"), z3.BoolVal(False))
        if name == "record_child_modified_impl":
            def rcm(I, args, n):
                c = I.ctx
                mem = c.rv(args[1])
                tgt = mem.target if isinstance(mem, Ptr) else mem
                I.ctx.oblige("callee-pre.record_child_modified_impl:on-the-parent's-memory-with-this-child-id",
                             z3.And(z3.BoolVal(isinstance(tgt, MemLevel)), tgt.P == P, c.rv(args[2]) == ch.arr(c, "cid")[P]),
                             kind="callee-pre")
                c.write(Loc((ch.oid, "rcm")), z3.Store(ch.arr(c, "rcm"), P, ch.arr(c, "rcm")[P] + 1))
                return VOID
            return Ptr(FnPtr(rcm), z3.BoolVal(False))
        if name in ("mutable_tracking_impl", "tracking_impl"):
            return Ptr(FnPtr(lambda I, a, n: Ptr(TKLevel(ch, P), z3.BoolVal(False))), z3.BoolVal(False))
        if self.k is not None:
            v = self.k.ops_member(self, ctx, name, node)
            if v is not None:
                return v
        raise Gap("ops table member %s" % name)


class TypeRef(Obj):
    cls = "TSRoleTypeRef"

    def __init__(self, ch, P):
        Obj.__init__(self, name="type_ref")
        self.ch, self.P = ch, P

    def m_ops(self, I, args, n):
        return Ptr(OpsTable(self.ch, self.P, I.k), z3.BoolVal(False))


class C04Kernel(Kernel):
    property_ids = ("C04",)
    scope = {"lo": 0, "hi": 3}

    def make_chain(self, I):
        self.ch = Chain(I.ctx)
        self.pre = snapshot(self.ch, I.ctx)
        return self.ch

    def ops_member(self, table, ctx, name, node):
        return None

    def frame_rest(self, ctx, lo=None, hi=None):
        """levels outside [lo, hi] unchanged in every array"""
        ch = self.ch
        conds = []
        for nm in ("lmt", "rcm", "notif", "nlast"):
            conds.append(ch.arr(ctx, nm)[ql] == self.pre[nm][ql])
        rng = z3.Or(ql < lo, ql > hi)
        return z3.ForAll([ql], z3.Implies(rng, z3.And(*conds)))


# ------------------------------------------------------------------ K1 record_modified


class RecordModified(C04Kernel):
    name = "types.cpp:TSDataTracking::record_modified"
    tu = "src/hgraph/types/time_series/ts_data/types.cpp"
    filter = "TSDataTracking::record_modified"
    fn_name = "record_modified"
    cls = None
    title = "record_modified: monotone, coalescing, notifies observers once per new time"

    def setup(self, I):
        ch = self.make_chain(I)
        self.L = z3.Int("level")
        self.t = z3.Int("modified_time")
        I.ctx.assume(z3.And(self.L >= 0, self.L <= ch.D, self.t >= 0, self.t <= MAX_DT))
        return TKLevel(ch, self.L), {"modified_time": self.t}

    def post(self, I, ret):
        ctx = I.ctx
        ch, L, t = self.ch, self.L, self.t
        lmt0 = self.pre["lmt"]
        ctx.oblige("ensures.result=(t>lmt)[C04 coalesces repeats within a cycle]", ret == (t > lmt0[L]), kind="post-normal")
        ctx.oblige("ensures.lmt'=max(lmt,t)[C04 never rewinds; last-modified-time is the latest write]",
                   ch.arr(ctx, "lmt")[L] == z3.If(t > lmt0[L], t, lmt0[L]), kind="post-normal")
        ctx.oblige("ensures.observers-notified-iff-new,once,with-t[C04/C03 one notification per tick]",
                   z3.And(ch.arr(ctx, "notif")[L] == self.pre["notif"][L] + z3.If(ret, 1, 0),
                          z3.Implies(ret, ch.arr(ctx, "nlast")[L] == t)), kind="post-normal")
        ctx.oblige("ensures.concrete-time", t != 0, kind="post-normal")
        ctx.oblige("ensures.other-levels-unchanged", self.frame_rest(ctx, L, L), kind="post-normal")
        ctx.oblige("ensures.parents-not-touched-here", ch.arr(ctx, "rcm") == self.pre["rcm"], kind="post-normal")

    def post_exc(self, I, exc):
        ctx = I.ctx
        ctx.oblige("raises.invalid_argument-iff-MIN_DT", z3.And(z3.BoolVal(exc.cls == "std::invalid_argument"), self.t == 0),
                   kind="post-exceptional")
        ctx.oblige("raises.state-unchanged", z3.And(*[self.ch.arr(ctx, nm) == self.pre[nm] for nm in (
            "lmt", "rcm", "notif", "nlast")]), kind="post-exceptional")


# ------------------------------------------------------------------ K3 notify_child_modified


class NotifyChildModified(C04Kernel):
    name = "types.cpp:TSParentLink::notify_child_modified"
    tu = "src/hgraph/types/time_series/ts_data/types.cpp"
    filter = "TSParentLink::notify_child_modified"
    fn_name = "notify_child_modified"
    title = "notify_child_modified: one level is recorded, the walk continues upward iff that record was new"

    def setup(self, I):
        ch = self.make_chain(I)
        self.P = z3.Int("parent_level")
        self.t = z3.Int("mutation_time")
        I.ctx.assume(z3.And(self.P >= 0, self.P <= ch.D + 1, self.t > 0, self.t <= MAX_DT))
        return LinkLevel(ch, self.P), {"mutation_time": self.t}

    def post(self, I, ret):
        ctx = I.ctx
        for nm, cl in notify_post(self.ch, ctx, self.pre, self.P, self.t):
            ctx.oblige("ensures." + nm + "[C04 parent propagation once per level per cycle]", cl, kind="post-normal")

    def post_exc(self, I, exc):
        I.ctx.oblige("no-exception-for-a-concrete-time", False, kind="post-exceptional")


# ------------------------------------------------------------------ K2 view queries


class ViewKernel(C04Kernel):
    tu = "src/hgraph/types/time_series/ts_data/base_view.cpp"

    def setup(self, I):
        ch = self.make_chain(I)
        self.T = z3.Int("evaluation_time")
        I.ctx.assume(z3.And(self.T >= 0, self.T <= MAX_DT))
        th = Obj("TSDataView", "this_view")
        self.th = th
        return th, self.params(I)

    def params(self, I):
        return {"evaluation_time": self.T}

    def method_handler(self, obj, name, node):
        if obj is self.th:
            if name == "tracking":
                return lambda I, o, a, n: TKLevel(self.ch, z3.IntVal(0))
            if name == "ops":
                return lambda I, o, a, n: self.table
            if name == "data":
                return lambda I, o, a, n: Ptr(MemLevel(self.ch, z3.IntVal(0)), z3.BoolVal(False))
        return Kernel.method_handler(self, obj, name, node)

    def unchanged(self, ctx):
        return z3.And(*[self.ch.arr(ctx, nm) == self.pre[nm] for nm in ("lmt", "rcm", "notif", "nlast")])


class ViewModified(ViewKernel):
    name = "base_view.cpp:TSDataView::modified"
    filter = "TSDataView::modified"
    fn_name = "modified"
    title = "modified(T) <=> T != MIN_DT and last_modified_time == T"

    def post(self, I, ret):
        ctx = I.ctx
        ctx.oblige("ensures.modified<=>lmt==T-and-T-concrete[C04 modified exactly in the cycles written]",
                   ret == z3.And(self.T != 0, self.pre["lmt"][0] == self.T), kind="post-normal")
        ctx.oblige("ensures.pure", self.unchanged(ctx), kind="post-normal")


class ViewLastModified(ViewKernel):
    name = "base_view.cpp:TSDataView::last_modified_time"
    filter = "TSDataView::last_modified_time"
    fn_name = "last_modified_time"
    title = "last_modified_time() == tracking.last_modified_time"

    def params(self, I):
        return {}

    def post(self, I, ret):
        ctx = I.ctx
        ctx.oblige("ensures.result=lmt[C04]", ret == self.pre["lmt"][0], kind="post-normal")
        ctx.oblige("ensures.pure", self.unchanged(ctx), kind="post-normal")


class ValueViewObj(Obj):
    cls = "ValueView"

    def __init__(self, payload_null, origin):
        Obj.__init__(self, name="value_view")
        self.payload_null = payload_null
        self.origin = origin

    def m_concrete(self, I, args, n):
        return self


class ViewDeltaValue(ViewKernel):
    name = "base_view.cpp:TSDataView::delta_value"
    filter = "TSDataView::delta_value"
    fn_name = "delta_value"
    title = "delta_value(T): a payload only if last_modified_time == T (generic path), else the ops-specific view"

    def setup(self, I):
        r = ViewKernel.setup(self, I)
        self.table = OpsTable(self.ch, z3.IntVal(0), self)
        self.has_delta_view = z3.Bool("ops_has_delta_view_impl")
        return r

    def ops_member(self, table, ctx, name, node):
        if name == "delta_view_impl":
            return Ptr(FnPtr(lambda I, a, n: ValueViewObj(I.ctx.fresh("dv_null", "bool"), "delta_view_impl")),
                       z3.Not(self.has_delta_view))
        if name == "layout_impl":
            lay = Obj("TSDataLayout", "layout")
            ctx.store.setdefault((lay.oid, "delta_binding"), Obj("binding", "delta_binding"))
            return Ptr(FnPtr(lambda I, a, n: Ptr(lay, z3.BoolVal(False))), z3.BoolVal(False))
        if name == "delta_memory_impl":
            return Ptr(FnPtr(lambda I, a, n: Ptr(Obj("mem", "delta_memory"), z3.BoolVal(False))), z3.BoolVal(False))
        return None

    def ctor_handler(self, qt, node):
        if qt in ("ValueView", "hgraph::ValueView"):
            def h(I, args, n):
                if len(args) == 1 and isinstance(I.ctx.rv(args[0]), ValueViewObj):
                    return I.ctx.rv(args[0])
                mem = I.ctx.rv(args[1])
                return ValueViewObj(mem.null if isinstance(mem, Ptr) else z3.BoolVal(False), "generic")
            return h
        return Kernel.ctor_handler(self, qt, node)

    def post(self, I, ret):
        ctx = I.ctx
        if not isinstance(ret, ValueViewObj):
            raise Gap("delta_value returned %r" % (ret,))
        generic = z3.Not(self.has_delta_view)
        ctx.oblige("ensures.generic-path:payload-only-in-the-producing-cycle[C04 a delta is readable only during the "
                   "cycle that produced it]",
                   z3.Implies(generic, z3.And(z3.BoolVal(ret.origin == "generic"),
                                              z3.Not(ret.payload_null) == z3.And(self.T != 0, self.pre["lmt"][0] == self.T))),
                   kind="post-normal")
        ctx.oblige("ensures.specialised-path-delegates", z3.Implies(self.has_delta_view,
                                                                   z3.BoolVal(ret.origin == "delta_view_impl")),
                   kind="post-normal")
        ctx.oblige("ensures.pure", self.unchanged(ctx), kind="post-normal")


# ------------------------------------------------------------------ K4 mutation view: mark_modified


class MarkModified(C04Kernel):
    name = "base_view.h:TSDataMutationView::mark_modified(table)"
    tu = "src/hgraph/types/time_series/ts_data/base_view.cpp"
    filter = "TSDataMutationView"
    cls = "TSDataMutationView"
    fn_name = "mark_modified"
    sig = "void (const hgraph::TSDataOps &)"
    inline = ("require_active_mutation",)
    title = "mark_modified: record on the node, notify the parent chain iff newly recorded; preserves ParentInv"

    def setup(self, I):
        ctx = I.ctx
        ch = self.make_chain(I)
        self.T = z3.Int("mutation_time")
        ctx.assume(z3.And(self.T >= 0, self.T <= MAX_DT))
        th = Obj("TSDataMutationView", "this_mutation")
        self.th = th
        self.storage = Obj("TSDataStorageRef", "storage")
        self.has_storage = z3.Bool("storage_has_value")
        ctx.store[(th.oid, "mutation_time_")] = self.T
        ctx.store[(th.oid, "storage_")] = self.storage
        # time only moves forward: nothing in the chain is newer than the mutation time
        ctx.assume(z3.ForAll([ql], self.pre["lmt"][ql] <= self.T))
        # ParentInv
        ctx.assume(parent_inv(self.pre["lmt"], ch.D))
        return th, {"table": OpsTable(ch, z3.IntVal(0), self)}

    def method_handler(self, obj, name, node):
        if obj is self.storage:
            if name == "has_value":
                return lambda I, o, a, n: self.has_storage
            if name == "data":
                return lambda I, o, a, n: Ptr(MemLevel(self.ch, z3.IntVal(0)), z3.BoolVal(False))
        return Kernel.method_handler(self, obj, name, node)

    def post(self, I, ret):
        ctx = I.ctx
        ch = self.ch
        lmt0, lmt1 = self.pre["lmt"], ch.arr(ctx, "lmt")
        T = self.T
        ctx.oblige("ensures.active-scope", z3.And(T != 0, self.has_storage), kind="post-normal")
        ctx.oblige("ensures.node-marked-at-T[C04 modified in exactly the cycles the producer wrote]", lmt1[0] == T,
                   kind="post-normal")
        ctx.oblige("ensures.ParentInv-preserved[C04 a parent is modified whenever one of its children is]",
                   parent_inv(lmt1, ch.D), kind="post-normal")
        ctx.oblige("ensures.every-ancestor-modified-at-T[C04]",
                   z3.ForAll([ql], z3.Implies(z3.And(0 <= ql, ql <= ch.D), lmt1[ql] == T)), kind="post-normal")
        ctx.oblige("ensures.each-level-notified-at-most-once-and-only-if-it-was-not-yet-modified[C04 coalescing]",
                   z3.ForAll([ql], z3.And(ch.arr(ctx, "notif")[ql] - self.pre["notif"][ql] ==
                                          z3.If(z3.And(0 <= ql, ql <= ch.D, lmt0[ql] < T), 1, 0))), kind="post-normal")
        ctx.oblige("ensures.levels-outside-the-chain-unchanged", self.frame_rest(ctx, 0, ch.D), kind="post-normal")

    def post_exc(self, I, exc):
        ctx = I.ctx
        ctx.oblige("raises.logic_error-iff-no-active-scope", z3.And(
            z3.BoolVal(exc.cls == "std::logic_error"), z3.Or(self.T == 0, z3.Not(self.has_storage))), kind="post-exceptional")
        ctx.oblige("raises.state-unchanged", z3.And(*[self.ch.arr(ctx, nm) == self.pre[nm] for nm in (
            "lmt", "rcm", "notif", "nlast")]), kind="post-exceptional")


KERNELS = [RecordModified, NotifyChildModified, ViewModified, ViewLastModified, ViewDeltaValue, MarkModified]


# ------------------------------------------------------------------ K4b mutation view: invalidate


class ChildRef(Obj):
    cls = "TSDataChildRef"

    def __init__(self, k, idx):
        Obj.__init__(self, name="child_ref")
        self.k, self.idx = k, idx

    def member(self, ctx, name, node):
        if name == "type":
            return ChildType(self.k, self.idx)
        if name == "data":
            return Ptr(Obj("mem", "child_memory"), z3.Not(self.k.child_has_data[self.idx]))
        raise Gap("child_ref member %s" % name)


class ChildType(Obj):
    cls = "TSRoleTypeRef"

    def __init__(self, k, idx):
        Obj.__init__(self, name="child_type")
        self.k, self.idx = k, idx

    def truth(self, I):
        return self.k.child_has_type[self.idx]

    def m_capabilities(self, I, args, n):
        return self


class ChildMutation(Obj):
    cls = "TSDataMutationView(child)"

    def __init__(self, k, idx):
        Obj.__init__(self, name="child_mutation")
        self.k, self.idx = k, idx

    def m_invalidate(self, I, args, n):
        """recursive contract (induction on the height of the tree below): a child that held a value loses it and
        reports to this node through its parent link -- exactly notify_child_modified(t) at chain level 0"""
        ctx = I.ctx
        k = self.k
        had = ctx.fresh("child_had_value", "bool")
        if ctx.decide(had, "child.invalidate had value"):
            LinkLevel(k.ch, z3.IntVal(0)).m_notify_child_modified(I, [k.T], n)
            ctx.write(Loc((k.g.oid, "children_invalidated")), ctx.store[(k.g.oid, "children_invalidated")] + 1)
        return had


class Invalidate(C04Kernel):
    name = "base_view.cpp:TSDataMutationView::invalidate"
    tu = "src/hgraph/types/time_series/ts_data/base_view.cpp"
    filter = "TSDataMutationView::invalidate"
    fn_name = "invalidate"
    title = "invalidate: children first, then observers and parent are told, and the node ends never-modified"

    def setup(self, I):
        ctx = I.ctx
        ch = self.make_chain(I)
        self.T = z3.Int("mutation_time")
        ctx.assume(z3.And(self.T >= 1, self.T <= MAX_DT))
        ctx.assume(z3.ForAll([ql], self.pre["lmt"][ql] <= self.T))
        th = Obj("TSDataMutationView", "this_mutation")
        self.th = th
        self.storage = Obj("TSDataStorageRef", "storage")
        ctx.store[(th.oid, "mutation_time_")] = self.T
        ctx.store[(th.oid, "storage_")] = self.storage
        self.has_value = z3.Bool("has_current_value")
        self.has_ownership = z3.Bool("has_ownership_ops")
        self.nchildren = z3.Int("child_count")
        ctx.assume(self.nchildren >= 0)
        self.child_has_type = z3.Array("child_has_type", I_, z3.BoolSort())
        self.child_has_data = z3.Array("child_has_data", I_, z3.BoolSort())
        self.child_mutable = z3.Array("child_mutable", I_, z3.BoolSort())
        g = Obj("ghost", "ig")
        self.g = g
        ctx.store[(g.oid, "children_invalidated")] = z3.IntVal(0)
        self.table = OpsTable(ch, z3.IntVal(0), self)
        return th, {}

    def ops_member(self, table, ctx, name, node):
        if name == "ownership_ops":
            return Ptr(OwnershipOps(self), z3.Not(self.has_ownership))
        return None

    def method_handler(self, obj, name, node):
        k = self
        if obj is self.th:
            if name == "require_active_mutation":
                return lambda I, o, a, n: VOID
            if name == "view":
                return lambda I, o, a, n: CurrentView(k)
        if obj is self.storage and name == "data":
            return lambda I, o, a, n: Ptr(MemLevel(self.ch, z3.IntVal(0)), z3.BoolVal(False))
        return Kernel.method_handler(self, obj, name, node)

    def function_handler(self, name, node, callee_node):
        if name == "has_capability":
            return lambda I, a, n: self.child_mutable[I.ctx.rv(a[0]).idx]
        return Kernel.function_handler(self, name, node, callee_node)

    def enum_const(self, I, ref):
        return z3.IntVal(1)

    def ctor_handler(self, qt, node):
        if qt.endswith("TSDataMutationView"):
            def mk(I, args, n):
                v = I.ctx.rv(args[0])
                I.ctx.oblige("child-mutation-at-the-same-time", I.ctx.rv(args[1]) == self.T, kind="callee-pre")
                return ChildMutation(self, v.idx)
            return mk
        if qt.endswith("TSDataView"):
            def mkv(I, args, n):
                a = I.ctx.rv(args[0])
                if isinstance(a, ChildType):
                    o = Obj("TSDataView", "child_view")
                    o.idx = a.idx
                    return o
                return a
            return mkv
        return Kernel.ctor_handler(self, qt, node)

    def inv(self, I, ctx):
        ch = self.ch
        i = self.local(I, "index")
        lmt = ch.arr(ctx, "lmt")
        yield "index-range", z3.And(i >= 0, i <= self.nchildren)
        yield "chain-only-moves-forward-up-to-T", z3.ForAll([ql], z3.And(lmt[ql] >= self.pre["lmt"][ql], lmt[ql] <= self.T))
        yield "notifications-only-grow", z3.ForAll([ql], z3.And(ch.arr(ctx, "notif")[ql] >= self.pre["notif"][ql],
                                                               ch.arr(ctx, "rcm")[ql] >= self.pre["rcm"][ql]))
        yield "endpoint-calls-only-grow", ctx.store[(ch.oid, "ep_calls")] >= self.pre["ep_calls"]

    def frame(self, I, ctx):
        ch = self.ch
        return [Loc((ch.oid, nm)) for nm in ("lmt", "rcm", "notif", "nlast", "ep_calls", "ep_last_t")] + [
            Loc((self.g.oid, "children_invalidated"))]

    @property
    def loops(self):
        return {0: LoopSpec(self.inv, self.frame)}

    def post(self, I, ret):
        ctx = I.ctx
        ch = self.ch
        ctx.oblige("ensures.returns-whether-there-was-a-value", ret == self.has_value, kind="post-normal")
        ctx.oblige("ensures.no-value=>nothing-happens", z3.Implies(z3.Not(self.has_value), z3.And(*[
            ch.arr(ctx, nm) == self.pre[nm] for nm in ("lmt", "rcm", "notif", "nlast")])), kind="post-normal")
        ctx.oblige("ensures.node-ends-never-modified[C04 valid is false after an explicit invalidation; modified never reads "
                   "true for it afterwards]", z3.Implies(self.has_value, ch.arr(ctx, "lmt")[0] == 0), kind="post-normal")
        ctx.oblige("ensures.observers-told-at-the-invalidation-time[C04 consumers see the same validity as the producer]",
                   z3.Implies(self.has_value, z3.And(ch.arr(ctx, "notif")[0] >= self.pre["notif"][0] + 1,
                                                     ch.arr(ctx, "nlast")[0] == self.T)), kind="post-normal")
        ctx.oblige("ensures.parents-at-least-as-recent[C04 a parent is modified whenever one of its children is]",
                   z3.Implies(self.has_value, z3.ForAll([ql], z3.Implies(z3.And(1 <= ql, ql <= ch.D),
                                                                         ch.arr(ctx, "lmt")[ql] >= self.pre["lmt"][ql]))),
                   kind="post-normal")


class OwnershipOps(Obj):
    cls = "TSDataOwnershipOps"

    def __init__(self, k):
        Obj.__init__(self, name="ownership_ops")
        self.k = k

    def member(self, ctx, name, node):
        k = self.k
        if name == "child_count":
            return Ptr(FnPtr(lambda I, a, n: k.nchildren), z3.BoolVal(False))
        if name == "child_at":
            return Ptr(FnPtr(lambda I, a, n: ChildRef(k, I.ctx.rv(a[2]))), z3.BoolVal(False))
        raise Gap("ownership ops member %s" % name)


class CurrentView(Obj):
    cls = "TSDataView"

    def __init__(self, k):
        Obj.__init__(self, name="current")
        self.k = k

    def m_has_current_value(self, I, args, n):
        return self.k.has_value

    def m_ops(self, I, args, n):
        return self.k.table

    def m_data(self, I, args, n):
        return Ptr(MemLevel(self.k.ch, z3.IntVal(0)), z3.BoolVal(False))


KERNELS += [Invalidate]


# ------------------------------------------------------------------ fixed_copy_value_from: a fixed-shape parent is modified only through a child
#
# "a parent is modified whenever one of its children is, and a fixed-shape parent only then": the whole-value write of a
# bundle / fixed list reports "newly modified" (on which the caller stamps the parent) exactly when some child accepted a
# value, and every accepting child is stamped at the write time and marked valid.

FTU = "src/hgraph/types/metadata/ts_data_fixed_structured_ops.cpp"
qf = z3.Int("qf")
B_ = z3.BoolSort()


class FixedFnPtr(Obj):
    cls = "function pointer"

    def __init__(self, fn):
        Obj.__init__(self, name="fn_ptr")
        self.fn = fn

    def call(self, I, args, n):
        return self.fn(I, args, n)


class FixedCopyValueFrom(Kernel):
    tu = FTU
    name = "ts_data_fixed_structured_ops.cpp:fixed_copy_value_from"
    fn_name = "fixed_copy_value_from"
    filter = "fixed_copy_value_from"
    property_ids = ("C04",)
    scope = {"lo": 0, "hi": 3}
    title = "fixed_copy_value_from: the parent is reported newly modified iff some child accepted a value; accepting children are " \
            "stamped at the write time and marked valid"

    def setup(self, I):
        ctx = I.ctx
        self.T = z3.Int("modified_time")
        self.n = z3.Int("element_count")
        ctx.assume(self.n >= 0)
        self.src_has = z3.Array("source_child_has_value", I_, B_)
        self.accepts = z3.Array("child_copy_accepted", I_, B_)
        self.track_null = z3.Array("child_tracking_null", I_, B_)
        self.fresh_mark = z3.Array("child_record_modified_is_new", I_, B_)
        self.memory_null, self.source_has, self.schema_ok, self.count_ok = (z3.Bool(nm) for nm in (
            "memory_null", "source_has_value", "source_schema_matches", "source_child_count_matches"))
        g = Obj("ghost", "fg")
        self.g = g
        ctx.store[(g.oid, "stamped")] = z3.K(I_, z3.IntVal(-9))      # child -> time recorded by this call
        ctx.store[(g.oid, "marked_valid")] = z3.K(I_, z3.BoolVal(False))
        ctx.store[(g.oid, "copied")] = z3.K(I_, z3.IntVal(0))
        k = self
        state = Obj("FixedState", "state")
        vs = Obj("ValueTypeMetaData", "value_schema")
        sch = Obj("TSValueTypeMetaData", "schema")
        ctx.store[(sch.oid, "value_schema")] = Ptr(vs)
        ctx.store[(state.oid, "schema")] = Ptr(sch)
        state.m_element_count = lambda I_2, a, n: k.n
        state.m_element_type = lambda I_2, a, n: FixedChildRef(I_2.ctx.rv(a[0]))
        self.state = state
        source = Obj("ValueView", "source")
        source.m_has_value = lambda I_2, a, n: k.source_has
        source.m_schema = lambda I_2, a, n: FixedSchemaTok(k)
        vals = Obj("IndexedView", "source_values")
        vals.m_size = lambda I_2, a, n: FixedSizeTok(k)

        def at(I_2, a, n):
            i = I_2.ctx.rv(a[0])
            v = Obj("ValueView", "source_value")
            v.index = i
            v.m_has_value = lambda I_3, a3, n3: k.src_has[i]
            return v
        vals.m_at = at
        source.m_as_indexed_view = lambda I_2, a, n: vals
        self.memory = Obj("memory", "memory")
        return None, {"context": Ptr(Obj("context", "context")), "memory": Ptr(self.memory, self.memory_null), "source": source,
                      "modified_time": self.T}

    def function_handler(self, name, node, callee_node):
        k, g = self, self.g
        if name == "ctx":
            return lambda I, a, n: Ptr(k.state)
        if name == "child_ops":
            def ops(I, a, n):
                c = I.ctx.rv(a[0])
                i = c.index
                o = Obj("TSDataOps", "child_ops")
                I.ctx.store[(o.oid, "context")] = Ptr(Obj("ctx", "child_context"))

                def copy(I_2, args, n2):
                    cc = I_2.ctx
                    cc.oblige("callee-pre.child-copy-at-the-write-time", cc.rv(args[3]) == k.T, kind="callee-pre")
                    cc.write(Loc((g.oid, "copied")), z3.Store(cc.store[(g.oid, "copied")], i, cc.store[(g.oid, "copied")][i] + 1))
                    return k.accepts[i]

                def tracking(I_2, args, n2):
                    t = Obj("TSDataTracking", "child_tracking")

                    def rec(I_3, a3, n3):
                        c3 = I_3.ctx
                        c3.write(Loc((g.oid, "stamped")), z3.Store(c3.store[(g.oid, "stamped")], i, c3.rv(a3[0])))
                        return k.fresh_mark[i]
                    t.m_record_modified = rec
                    return Ptr(t, k.track_null[i])
                I.ctx.store[(o.oid, "copy_value_from_impl")] = FixedFnPtr(copy)
                I.ctx.store[(o.oid, "mutable_tracking_impl")] = FixedFnPtr(tracking)
                return o
            return ops
        if name == "child_data":
            return lambda I, a, n: Ptr(Obj("memory", "child_memory"))
        if name == "mark_tsb_value_field_valid":
            def mark(I, a, n):
                c = I.ctx
                i = c.rv(a[2])
                c.write(Loc((g.oid, "marked_valid")), z3.Store(c.store[(g.oid, "marked_valid")], i, True))
                return VOID
            return mark
        if name == "fixed_tracking":
            def ft(I, a, n):
                t = Obj("TSDataTracking", "parent_tracking")
                I.ctx.store[(t.oid, "last_modified_time")] = z3.Int("parent_last_modified_time")
                return Ptr(t)
            return ft
        return Kernel.function_handler(self, name, node, callee_node)

    def done(self, ctx, upto):
        st, mv, cp = (ctx.store[(self.g.oid, nm)] for nm in ("stamped", "marked_valid", "copied"))
        took = z3.And(self.src_has[qf], self.accepts[qf])
        return z3.ForAll([qf], z3.Implies(z3.And(qf >= 0, qf < upto), z3.And(
            cp[qf] == z3.If(self.src_has[qf], 1, 0), z3.Implies(took, z3.And(st[qf] == self.T, mv[qf])),
            z3.Implies(z3.Not(took), z3.And(st[qf] == -9, z3.Not(mv[qf]))))))

    def inv(self, I, ctx):
        i = ctx.rv(self.local(I, "index"))
        st, mv, cp = (ctx.store[(self.g.oid, nm)] for nm in ("stamped", "marked_valid", "copied"))
        yield "children-below-the-cursor-handled;the-rest-untouched", z3.And(
            i >= 0, i <= self.n, self.done(ctx, i),
            z3.ForAll([qf], z3.Implies(z3.Or(qf < 0, qf >= i), z3.And(cp[qf] == 0, st[qf] == -9, z3.Not(mv[qf])))))
        try:
            flag = ctx.rv(self.local(I, "newly_modified"))
        except Gap:
            flag = None      # the accumulator was renamed or removed: the postcondition decides without this hint
        if flag is not None:
            yield "flag<=>some-child-below-the-cursor-accepted", flag == z3.Exists(
                [qf], z3.And(qf >= 0, qf < i, self.src_has[qf], self.accepts[qf]))

    def frame(self, I, ctx):
        return [Loc((self.g.oid, nm)) for nm in ("stamped", "marked_valid", "copied")]

    @property
    def loops(self):
        return {0: LoopSpec(self.inv, self.frame)}

    def post(self, I, ret):
        ctx = I.ctx
        ret = ret if z3.is_bool(ret) else ret != 0
        some = z3.Exists([qf], z3.And(qf >= 0, qf < self.n, self.src_has[qf], self.accepts[qf]))
        ctx.oblige("ensures.parent-newly-modified<=>some-child-accepted-a-value[C04 a parent is modified whenever one of its children "
                   "is, and a fixed-shape parent only then]", ret == some, kind="post-normal")
        ctx.oblige("ensures.every-supplied-child-copied-once;accepting-children-stamped-at-the-write-time-and-marked-valid[C04]",
                   self.done(ctx, self.n), kind="post-normal")

    def post_exc(self, I, exc):
        I.ctx.oblige("raises.only-for-a-malformed-request-or-a-child-that-breaks-its-contract",
                     z3.BoolVal(exc.cls in ("std::logic_error", "std::invalid_argument")), kind="post-exceptional")


class FixedChildRef(Obj):
    cls = "TSDataTypeRef(child)"

    def __init__(self, index):
        Obj.__init__(self, name="child")
        self.index = index


class FixedSchemaTok(Obj):
    cls = "schema*"
    custom_binop = True

    def __init__(self, k):
        Obj.__init__(self, name="source_schema")
        self.k = k

    def binop(self, I, op, other):
        e = self.k.schema_ok
        return e if op == "==" else z3.Not(e)

    rbinop = binop


class FixedSizeTok(Obj):
    cls = "size"
    custom_binop = True

    def __init__(self, k):
        Obj.__init__(self, name="source_size")
        self.k = k

    def binop(self, I, op, other):
        e = self.k.count_ok
        return e if op == "==" else z3.Not(e)

    rbinop = binop


KERNELS += [FixedCopyValueFrom]
