"""C08 -- feedback_node.cpp: the sink stores this cycle's delta on the paired source and requests it at exactly
T + MIN_TD; the source emits its stored delta; the sink is woken only by the producer (active/valid = {0})."""
import z3

from cxxvc.kernel import Kernel, LoopSpec, Lemma
from cxxvc.interp import Obj, Ptr, Loc, ArrLoc, Opt, Gap, MAX_DT, ExcVal, VOID, ThrowEx
from cxxvc import extract, models
from cxxvc.models import Vec
from contracts.c03_node import GraphGhost

TU = "src/hgraph/runtime/feedback_node.cpp"
I_ = z3.IntSort()


class OpaqueValue(Obj):
    """a value view read for observation only: comparisons are arbitrary booleans"""
    cls = "ValueView"

    def m_equals(self, I, args, n):
        return I.ctx.fresh("values_equal", "bool")

    def m_has_value(self, I, args, n):
        return I.ctx.fresh("value_present", "bool")

    def m_schema(self, I, args, n):
        return I.ctx.fresh("value_schema")


class Observers:
    """const observers of time-series state the contracts do not track: arbitrary results, no effects"""

    def m_valid(self, I, args, n):
        return I.ctx.fresh("ts_valid", "bool")

    def m_modified(self, I, args, n):
        return I.ctx.fresh("ts_modified", "bool")

    def m_value(self, I, args, n):
        return OpaqueValue(name="value")


class InputSlot(Observers, Obj):
    cls = "TSInputView"

    def __init__(self, k, slot):
        Obj.__init__(self, name="input[%s]" % slot)
        self.k, self.slot = k, slot

    def m_delta_value(self, I, args, n):
        return Delta("delta_value", self.slot)

    def m_bound_output(self, I, args, n):
        return BoundOut(self.k, self.slot)


class Delta(Obj):
    cls = "delta"

    def m_has_value(self, I, args, n):
        return I.ctx.fresh("delta_has_value", "bool")

    def __init__(self, how, slot):
        Obj.__init__(self, name="delta")
        self.how, self.slot = how, slot


class BoundOut(Observers, Obj):
    cls = "TSOutputView"

    def __init__(self, k, slot):
        Obj.__init__(self, name="bound_output")
        self.k, self.slot = k, slot

    def m_owner_node(self, I, args, n):
        I.ctx.oblige("callee-pre.source-recovered-through-ts_self(input 1)", z3.BoolVal(self.slot == 1), kind="callee-pre")
        return self.k.source


class Bundle(Obj):
    cls = "bundle"

    def __init__(self, k):
        Obj.__init__(self, name="bundle")
        self.k = k

    def op(self, I, op, rest, n, a0):
        if op == "[]":
            i = I.ctx.rv(rest[0])
            i = z3.simplify(i)
            return InputSlot(self.k, i.as_long())
        return NotImplemented


class SourceNode(Obj):
    cls = "NodeView(source)"


class StateView(Obj):
    """the source node's delta state, read for observation: arbitrary answers, no effects"""
    cls = "ValueView(state)"

    def m_has_value(self, I, args, n):
        return I.ctx.fresh("state_has_value", "bool")

    def m_equals(self, I, args, n):
        return I.ctx.fresh("state_equals", "bool")


class FeedbackKernel(Kernel):
    tu = TU
    property_ids = ("C08",)
    scope = {"lo": 0, "hi": 3}

    def base(self, I):
        ctx = I.ctx
        self.T = z3.Int("evaluation_time")
        ctx.assume(z3.And(self.T >= 1, self.T < MAX_DT))
        self.view = Obj("NodeView", "view")
        self.source = SourceNode(name="source_node")
        self.G = GraphGhost(ctx)
        ctx.assume(self.G.get(ctx, "T") == self.T)
        self.src_index = z3.Int("source_index")
        ctx.assume(z3.And(self.src_index >= 0, self.src_index < self.G.get(ctx, "n")))
        self.src_valid = z3.Bool("source_valid")
        self.src_has_state = z3.Bool("source_has_state")
        self.src_graph_null = z3.Bool("source_graph_null")
        g = Obj("ghost", "fg")
        self.g = g
        ctx.store[(g.oid, "state_how")] = z3.IntVal(0)   # 0 untouched, 1 copied from delta_value, 2 replaced by capture_delta
        ctx.store[(g.oid, "state_from_slot")] = z3.IntVal(-1)
        ctx.store[(g.oid, "applied")] = z3.IntVal(0)
        ctx.store[(g.oid, "applied_ok")] = z3.BoolVal(False)
        self.copy_ok = z3.Bool("try_copy_succeeds")

    def gg(self, ctx, nm):
        return ctx.store[(self.g.oid, nm)]

    def function_handler(self, name, node, callee_node):
        h = getattr(self, "f_" + name, None)
        if h is not None:
            return h
        return Kernel.function_handler(self, name, node, callee_node)

    def f_try_copy_feedback_state(self, I, args, n):
        """contract: when the state storage accepts the source it is overwritten with it and true is returned"""
        ctx = I.ctx
        src = ctx.rv(args[1])
        if ctx.decide(self.copy_ok, "try_copy"):
            ctx.write(Loc((self.g.oid, "state_how")), z3.IntVal(1))
            ctx.write(Loc((self.g.oid, "state_from_slot")), z3.IntVal(getattr(src, "slot", -2)))
            return z3.BoolVal(True)
        return z3.BoolVal(False)

    def f_capture_delta(self, I, args, n):
        src = I.ctx.rv(args[0])
        return Delta("capture_delta", getattr(src, "slot", -2))

    def method_handler(self, obj, name, node):
        k = self
        if obj is self.view:
            if name == "input":
                return lambda I, o, a, n: RootIn(k)
            h = getattr(self, "v_" + name, None)
            if h:
                return h
        if obj is self.source:
            h = getattr(self, "s_" + name, None)
            if h:
                return h
        return Kernel.method_handler(self, obj, name, node)

    def s_valid(self, I, o, a, n):
        return self.src_valid

    def s_has_state(self, I, o, a, n):
        return self.src_has_state

    def s_state(self, I, o, a, n):
        return StateView(name="state")

    def s_replace_state(self, I, o, a, n):
        ctx = I.ctx
        d = ctx.rv(a[0])
        ctx.write(Loc((self.g.oid, "state_how")), z3.IntVal(2))
        ctx.write(Loc((self.g.oid, "state_from_slot")), z3.IntVal(getattr(d, "slot", -2)))
        return VOID

    def s_graph_value(self, I, o, a, n):
        return Ptr(self.G, self.src_graph_null)

    def s_node_index(self, I, o, a, n):
        return self.src_index


class RootIn(Obj):
    cls = "TSInputView(root)"

    def __init__(self, k):
        Obj.__init__(self, name="root_input")
        self.k = k

    def m_as_bundle(self, I, args, n):
        return Bundle(self.k)


class EvaluateFeedbackSink(FeedbackKernel):
    name = "feedback_node.cpp:evaluate_feedback_sink"
    fn_name = "evaluate_feedback_sink"
    filter = "evaluate_feedback_sink"
    title = "feedback sink: store the producer's delta on the source, request the source at exactly T + MIN_TD"

    def setup(self, I):
        self.base(I)
        return None, {"view": self.view, "evaluation_time": self.T}

    def post(self, I, ret):
        ctx = I.ctx
        G = self.G
        ctx.oblige("ensures.source-state:=this-cycle's-delta-of-ts(input 0)[C08 exactly the values written, no loss]",
                   z3.And(self.gg(ctx, "state_how") >= 1, self.gg(ctx, "state_from_slot") == 0), kind="post-normal")
        ctx.oblige("ensures.source-requested-exactly-once-at-T+MIN_TD[C08 one smallest step later, never same-cycle]",
                   z3.And(G.get(ctx, "calls") == 1, G.get(ctx, "last_i") == self.src_index, G.get(ctx, "last_t") == self.T + 1),
                   kind="post-normal")
        ctx.oblige("ensures.only-with-a-recovered-attached-source", z3.And(self.src_valid, self.src_has_state,
                                                                           z3.Not(self.src_graph_null)), kind="post-normal")

    def post_exc(self, I, exc):
        ctx = I.ctx
        ctx.oblige("raises.logic_error-iff-the-source-cannot-be-used",
                   z3.And(z3.BoolVal(exc.cls == "std::logic_error"),
                          z3.Or(z3.Not(self.src_valid), z3.Not(self.src_has_state), self.src_graph_null)), kind="post-exceptional")
        ctx.oblige("raises.nothing-scheduled", self.G.get(ctx, "calls") == 0, kind="post-exceptional")


class EvaluateFeedbackSource(FeedbackKernel):
    name = "feedback_node.cpp:evaluate_feedback_source"
    fn_name = "evaluate_feedback_source"
    filter = "evaluate_feedback_source"
    title = "feedback source: output at T is the stored delta applied"

    def setup(self, I):
        self.base(I)
        class OwnOutput(Observers, Obj):
            cls = "TSOutputView"
        self.out = OwnOutput(name="own_output")
        self.state = StateView(name="own_state")       # observers of the output and of the state answer arbitrarily
        self.state.m_schema = lambda I_2, a, n: I_2.ctx.fresh("state_schema")
        return None, {"view": self.view, "evaluation_time": self.T}

    def v_output(self, I, o, a, n):
        I.ctx.oblige("callee-pre.output-view-at-the-cycle-time", I.ctx.rv(a[0]) == self.T, kind="callee-pre")
        return self.out

    def v_state(self, I, o, a, n):
        return self.state

    def f_apply_delta(self, I, args, n):
        ctx = I.ctx
        ok = ctx.rv(args[0]) is self.out and ctx.rv(args[1]) is self.state
        ctx.write(Loc((self.g.oid, "applied")), self.gg(ctx, "applied") + 1)
        ctx.write(Loc((self.g.oid, "applied_ok")), z3.BoolVal(ok))
        return VOID

    def post(self, I, ret):
        ctx = I.ctx
        ctx.oblige("ensures.stored-delta-applied-once-to-the-node's-own-output[C08 delivers exactly what was written]",
                   z3.And(self.gg(ctx, "applied") == 1, self.gg(ctx, "applied_ok")), kind="post-normal")


class StartFeedbackSource(FeedbackKernel):
    name = "feedback_node.cpp:start_feedback_source_with_initial_delta"
    fn_name = "start_feedback_source_with_initial_delta"
    filter = "start_feedback_source_with_initial_delta"
    title = "feedback source start: state := declared initial delta, node scheduled at the start time"

    def setup(self, I):
        self.base(I)
        self.scal = Delta("scalars", 99)
        self.own_graph_null = z3.Bool("own_graph_null")
        return None, {"view": self.view, "start_time": self.T}

    def v_state(self, I, o, a, n):
        return Obj("ValueView", "state")

    def v_scalars(self, I, o, a, n):
        return ScalarsObj(self.scal)

    def v_replace_state(self, I, o, a, n):
        ctx = I.ctx
        d = ctx.rv(a[0])
        ctx.write(Loc((self.g.oid, "state_how")), z3.IntVal(2))
        ctx.write(Loc((self.g.oid, "state_from_slot")), z3.IntVal(getattr(d, "slot", -2)))
        return VOID

    def v_graph_value(self, I, o, a, n):
        return Ptr(self.G, self.own_graph_null)

    def v_node_index(self, I, o, a, n):
        return self.src_index

    def post(self, I, ret):
        ctx = I.ctx
        G = self.G
        ctx.oblige("ensures.state:=initial-delta[C08 a declared initial value at the start time]",
                   z3.And(self.gg(ctx, "state_how") >= 1, self.gg(ctx, "state_from_slot") == 99), kind="post-normal")
        ctx.oblige("ensures.scheduled-once-at-the-start-time-when-attached",
                   z3.If(self.own_graph_null, G.get(ctx, "calls") == 0,
                         z3.And(G.get(ctx, "calls") == 1, G.get(ctx, "last_i") == self.src_index, G.get(ctx, "last_t") == self.T)),
                   kind="post-normal")


class ScalarsObj(Delta):
    def __init__(self, d):
        Delta.__init__(self, d.how, d.slot)

    def m_clone(self, I, args, n):
        return self


class MakeFeedbackSink(FeedbackKernel):
    name = "feedback_node.cpp:make_feedback_sink_node"
    fn_name = "make_feedback_sink_node"
    filter = "make_feedback_sink_node"
    title = "feedback sink node type: only input 0 (the producer) is active and required; ts_self never wakes it"

    def setup(self, I):
        self.base(I)
        self.schema = Obj("TSValueTypeMetaData", "schema")
        self.built = None
        return None, {"schema": self.schema}

    def f_validate_feedback_schema(self, I, args, n):
        return VOID

    def f_feedback_sink_input_schema(self, I, args, n):
        return Ptr(Obj("TSValueTypeMetaData", "input_schema"), z3.BoolVal(False))

    def f_feedback_sink_endpoint_schema(self, I, args, n):
        return Obj("TSEndpointSchema", "endpoint_schema")

    def f_native(self, I, args, n):
        self.built = (I.ctx.rv(args[0]), I.ctx.rv(args[1]))
        return Obj("NodeBuilder", "builder")

    def enum_const(self, I, ref):
        return z3.IntVal({"Sink": 3, "PullSource": 1, "PushSource": 2, "Compute": 0}.get(ref.get("name"), 9))

    def ctor_handler(self, qt, node):
        if qt.endswith("NodeTypeMetaData"):
            def mk(I, args, n):
                if args and isinstance(I.ctx.rv(args[0]), Obj):
                    return I.ctx.rv(args[0])
                o = Obj("NodeTypeMetaData", "node_schema")
                c = I.ctx
                c.store[(o.oid, "display_name")] = z3.IntVal(0)
                c.store[(o.oid, "input_schema")] = Ptr(None)
                c.store[(o.oid, "output_schema")] = Ptr(None)
                c.store[(o.oid, "state_schema")] = Ptr(None)
                c.store[(o.oid, "scalar_schema")] = Ptr(None)
                c.store[(o.oid, "node_kind")] = z3.IntVal(0)
                c.store[(o.oid, "active_inputs")] = Opt(z3.BoolVal(False), None)
                c.store[(o.oid, "valid_inputs")] = Opt(z3.BoolVal(False), None)
                return o
            return mk
        if qt.endswith("NodeCallbacks"):
            def mk2(I, args, n):
                if args and isinstance(I.ctx.rv(args[0]), Obj):
                    return I.ctx.rv(args[0])
                o = Obj("NodeCallbacks", "callbacks")
                for f in ("start", "stop", "evaluate"):
                    I.ctx.store[(o.oid, f)] = Ptr(None)
                return o
            return mk2
        return Kernel.ctor_handler(self, qt, node)

    def post(self, I, ret):
        ctx = I.ctx
        if self.built is None:
            raise Gap("NodeBuilder::native was not called")
        sch, cb = self.built

        def only_zero(optv):
            if not isinstance(optv, Opt) or not isinstance(optv.value, Vec):
                return z3.BoolVal(False)
            return z3.And(optv.has, optv.value.length(ctx) == 1, optv.value.data(ctx)[0] == 0)
        ctx.oblige("ensures.active_inputs={0}[C08 the reader side (ts_self) never wakes the sink: no self-sustaining loop]",
                   only_zero(ctx.store[(sch.oid, "active_inputs")]), kind="post-normal")
        ctx.oblige("ensures.valid_inputs={0}[C08 ts_self is not required to be valid]",
                   only_zero(ctx.store[(sch.oid, "valid_inputs")]), kind="post-normal")
        ctx.oblige("ensures.sink-kind", ctx.store[(sch.oid, "node_kind")] == 3, kind="post-normal")
        ev = ctx.store[(cb.oid, "evaluate")]
        ctx.oblige("ensures.evaluate=evaluate_feedback_sink", z3.BoolVal(
            isinstance(ev, Ptr) and isinstance(ev.target, tuple) and ev.target[1] == "evaluate_feedback_sink"), kind="post-normal")


class FeedbackGlue(Lemma):
    name = "lemma:feedback-request-is-honourable"
    property_ids = ("C08",)
    title = "the sink's request (source index below the sink, time T + MIN_TD) meets both call-site obligations of schedule_node_impl"
    scope = {"lo": 0, "hi": 3}

    def lemmas(self):
        T, cur, src, s = z3.Ints("T cur src slot")
        L = z3.Bool("L")
        w = T + 1
        # while the sink (index cur) runs, a node below the cursor can no longer run in this cycle
        hyp = [src >= 0, src < cur, L == z3.And(z3.BoolVal(True), src >= cur)]
        yield "honourable", hyp, z3.Or(w > T, L)
        yield "no-overtake[C08 no loss: a wake-up due now is never replaced]", hyp, z3.Not(z3.And(L, s == T, w > T))


KERNELS = [EvaluateFeedbackSink, EvaluateFeedbackSource, StartFeedbackSource, MakeFeedbackSink]
LEMMAS = [FeedbackGlue]


# ------------------------------------------------------------------ control.h feedback_detail::make_feedback (E2: instantiated in a
# generated translation unit that only includes the real header)

extract.GEN_TUS["feedback_instance"] = (
    "#include <hgraph/lib/std/operators/control.h>\n"
    "namespace cxxvc_inst { inline void make_feedback_instance(hgraph::Wiring &w) "
    "{ (void)hgraph::stdlib::feedback<hgraph::TS<hgraph::Int>>(w); } }\n")


class MakeFeedback(Kernel):
    tu = "gen:feedback_instance"
    extraction_mode = "E2 generated TU: #include of the real control.h plus one instantiation feedback<TS<Int>>"
    name = "control.h:feedback_detail::make_feedback<TS<Int>>"
    fn_name = "make_feedback"
    filter = "make_feedback"
    targs = ("hgraph::TS<",)
    property_ids = ("C08", "C06")
    scope = {"lo": 0, "hi": 3}
    title = "make_feedback: every feedback gets its own source node (its own state), never an interned one"

    def setup(self, I):
        ctx = I.ctx
        g = Obj("ghost", "mg")
        self.g = g
        for nm in ("unique_adds", "interned_adds"):
            ctx.store[(g.oid, nm)] = z3.IntVal(0)
        ctx.store[(g.oid, "scalars_ok")] = z3.BoolVal(False)
        self.initial = Obj("Value", "initial_delta")
        self.has_initial = z3.Bool("has_initial_delta")
        k = self
        w = Obj("Wiring", "w")

        def add(kind):
            def h(I_, a, n):
                c = I_.ctx
                c.write(Loc((g.oid, kind)), c.store[(g.oid, kind)] + 1)
                c.write(Loc((g.oid, "scalars_ok")), z3.BoolVal(c.rv(a[3]) is k.initial))
                return Obj("WiringPortRef", "ref")
            return h
        w.m_add_unique_node = add("unique_adds")
        w.m_add_node = add("interned_adds")
        return None, {"w": w, "initial_delta": self.initial, "has_initial_delta": self.has_initial}

    def function_handler(self, name, node, callee_node):
        if name in ("require_feedback_schema",):
            return lambda I, a, n: Ptr(Obj("schema", "schema"))
        if name in ("ts_meta",):
            return lambda I, a, n: Ptr(Obj("schema", "schema"))
        if name == "validate_initial_delta":
            def v(I, a, n):
                if I.ctx.choose(2, "validate_initial_delta outcome") == 1:
                    I.throw_from_callee("validate_initial_delta", cls="std::invalid_argument")
                return VOID
            return v
        if name == "make_feedback_source_node":
            return lambda I, a, n: Obj("NodeBuilder", "builder")
        if name == "move":
            return lambda I, a, n: I.ctx.rv(a[0])
        return Kernel.function_handler(self, name, node, callee_node)

    def ctor_handler(self, qt, node):
        if qt.endswith("NodeBuilder") or qt.endswith("WiringPortRef") or qt.endswith("Value"):
            return lambda I, args, n: (I.ctx.rv(args[0]) if args else Obj("value", "empty"))
        if "type_index" in qt or "span<" in qt or "Port<" in qt or "FeedbackWiringPort" in qt:
            return lambda I, args, n: Obj("opaque", qt[-24:])
        return Kernel.ctor_handler(self, qt, node)

    def post(self, I, ret):
        ctx = I.ctx
        g = lambda nm: ctx.store[(self.g.oid, nm)]
        ctx.oblige("ensures.the-source-node-is-added-once,as-a-unique-node,with-the-initial-delta-as-its-scalars[C08 each feedback "
                   "delivers exactly the values written to it; C06 sharing never merges two feedbacks]",
                   z3.And(g("unique_adds") == 1, g("interned_adds") == 0, g("scalars_ok")), kind="post-normal")

    def post_exc(self, I, exc):
        I.ctx.oblige("raises.only-for-an-invalid-initial-value", z3.BoolVal(exc.origin == "validate_initial_delta"),
                     kind="post-exceptional")


KERNELS += [MakeFeedback]
