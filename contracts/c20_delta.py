"""C20 -- ts_delta.cpp capture/apply pairs (atomic, TSS, TSB) and the dense buffer index (record_replay_buffer.h).

Each capture_delta_K / apply_delta_K is verified against the general contract of capture_delta / apply_delta assumed
for the recursive calls on children (structural induction on the schema).  Values are opaque ids; the value-layer
builders (SetBuilder, BundleBuilder) are library models: a SetBuilder accumulates a set of element ids, a BundleBuilder a
field -> value map.
"""
import z3

from cxxvc.kernel import Kernel, LoopSpec, Lemma
from cxxvc.interp import Obj, Ptr, Loc, ArrLoc, Opt, Gap, MAX_DT, VOID
from cxxvc import extract, models
from cxxvc.native import NativeCheck
from cxxvc.models import Vec

TU = "src/hgraph/types/time_series/ts_delta.cpp"
I_ = z3.IntSort()
B_ = z3.BoolSort()
qe, qk = z3.Ints("qe qk")

extract.GEN_TUS["record_replay_buffer"] = "#include <hgraph/lib/testing/record_replay_buffer.h>\n"

DELTA_OF = z3.Function("captured_delta_of_child", I_, I_)   # general contract: capture_delta(child i) = this id


class SetBuilderObj(Obj):
    cls = "SetBuilder"

    def __init__(self, ctx, name):
        Obj.__init__(self, name=name)
        ctx.store[(self.oid, "elems")] = z3.K(I_, z3.BoolVal(False))

    def elems(self, ctx):
        return ctx.store[(self.oid, "elems")]

    def m_insert_copy(self, I, args, n):
        ctx = I.ctx
        e = ctx.rv(args[0])
        ctx.write(self.loc("elems"), z3.Store(self.elems(ctx), e.eid, True))
        return z3.BoolVal(True)

    def m_build(self, I, args, n):
        return SetValue(self.elems(I.ctx))


class SetValue(Obj):
    cls = "Value(set)"

    def __init__(self, elems):
        Obj.__init__(self, name="set_value")
        self.elems = elems


class ElemRef(Obj):
    cls = "element"

    def __init__(self, eid):
        Obj.__init__(self, name="elem")
        self.eid = eid

    def m_data(self, I, args, n):
        return self


class BundleBuilderObj(Obj):
    cls = "BundleBuilder"

    def __init__(self, ctx):
        Obj.__init__(self, name="bundle_builder")
        self.named = {}
        ctx.store[(self.oid, "fset")] = z3.K(I_, z3.BoolVal(False))
        ctx.store[(self.oid, "fval")] = z3.Array("field_default", I_, I_)

    def m_set(self, I, args, n):
        ctx = I.ctx
        k, v = ctx.rv(args[0]), ctx.rv(args[1])
        if isinstance(k, z3.ExprRef) and z3.is_int(k) and not isinstance(v, SetValue):
            vid = v.vid if hasattr(v, "vid") else v
            ctx.write(self.loc("fset"), z3.Store(ctx.store[(self.oid, "fset")], k, True))
            ctx.write(self.loc("fval"), z3.Store(ctx.store[(self.oid, "fval")], k, vid))
            return VOID
        self.named[str(k)] = v
        return VOID

    def m_build(self, I, args, n):
        return BundleValue(self, dict(self.named), I.ctx.store[(self.oid, "fset")], I.ctx.store[(self.oid, "fval")])


class BundleValue(Obj):
    cls = "Value(bundle)"

    def __init__(self, b, named, fset, fval):
        Obj.__init__(self, name="bundle_value")
        self.named, self.fset, self.fval = named, fset, fval


class ValueId(Obj):
    cls = "Value"

    def __init__(self, vid, typed=None):
        Obj.__init__(self, name="value")
        self.vid = vid
        self.typed = typed

    def m_type(self, I, args, n):
        return TypeTok(self.typed if self.typed is not None else z3.BoolVal(True))

    def m_view(self, I, args, n):
        return self


class TypeTok(Obj):
    cls = "type"

    def __init__(self, ok):
        Obj.__init__(self, name="type")
        self.ok = ok

    def truth(self, I):
        return self.ok


class DeltaKernel(Kernel):
    tu = TU
    property_ids = ("C20",)
    scope = {"lo": 0, "hi": 3}

    def function_handler(self, name, node, callee_node):
        h = getattr(self, "f_" + name, None)
        if h is not None:
            return h
        return Kernel.function_handler(self, name, node, callee_node)

    def f_binding_for(self, I, args, n):
        return Obj("ValueTypeRef", "binding")

    def f_require_schema(self, I, args, n):
        p = I.ctx.rv(args[0])
        return p.target if isinstance(p, Ptr) else p

    def string_literal(self, I, s):
        return z3.IntVal(self.string_id(s))

    def to_string(self, I, v):
        return v


# ------------------------------------------------------------------ atomic


class CaptureDeltaTs(DeltaKernel):
    name = "ts_delta.cpp:capture_delta_ts"
    fn_name = "capture_delta_ts"
    filter = "capture_delta_ts"
    title = "atomic capture: the delta of a TS is its current value (typed null when it carries none)"

    def setup(self, I):
        ctx = I.ctx
        self.inp = Obj("TSInputView", "in")
        self.v = z3.Int("current_value_id")
        self.has = z3.Bool("value_has_type")
        self.schema = Obj("schema", "schema")
        self.dsn = z3.Bool("delta_schema_null")
        ctx.store[(self.schema.oid, "delta_value_schema")] = Ptr(Obj("vs", "delta_value_schema"), self.dsn)
        return None, {"in": self.inp}

    def method_handler(self, obj, name, node):
        if obj is self.inp:
            if name == "value":
                return lambda I, o, a, n: ValueId(self.v, self.has)
            if name == "schema":
                return lambda I, o, a, n: Ptr(self.schema, z3.BoolVal(False))
        return Kernel.method_handler(self, obj, name, node)

    def ctor_handler(self, qt, node):
        if qt in ("Value", "hgraph::Value"):
            def mk(I, args, n):
                a = I.ctx.rv(args[0]) if args else None
                if isinstance(a, ValueId):
                    return ValueId(a.vid, a.typed)
                return ValueId(z3.IntVal(-1), z3.BoolVal(False))  # typed null of the delta schema
            return mk
        if qt in ("ValueView", "hgraph::ValueView"):
            return lambda I, args, n: I.ctx.rv(args[0])
        return Kernel.ctor_handler(self, qt, node)

    def post(self, I, ret):
        ctx = I.ctx
        ctx.oblige("ensures.delta=current-value-when-present,typed-null-otherwise[C20 scalar: delta == value]",
                   z3.If(self.has, ret.vid == self.v, ret.vid == -1), kind="post-normal")

    def post_exc(self, I, exc):
        I.ctx.oblige("raises.logic_error-only-for-a-missing-delta-schema-on-an-empty-endpoint",
                     z3.And(z3.BoolVal(exc.cls == "std::logic_error"), z3.Not(self.has), self.dsn), kind="post-exceptional")


class ApplyDeltaAtomic(DeltaKernel):
    property_ids = ("C20", "C08")
    name = "ts_delta.cpp:apply_delta_atomic"
    fn_name = "apply_delta_atomic"
    filter = "apply_delta_atomic"
    title = "atomic apply: the delta is copied into the output at the output's evaluation time"

    def setup(self, I):
        ctx = I.ctx
        self.out = Obj("TSOutputView", "out")
        self.T = z3.Int("out_evaluation_time")
        self.d = z3.Int("delta_id")
        g = Obj("ghost", "ag")
        self.g = g
        ctx.store[(g.oid, "copies")] = z3.IntVal(0)
        ctx.store[(g.oid, "copied")] = z3.IntVal(-9)
        ctx.store[(g.oid, "mut_t")] = z3.IntVal(-9)
        return None, {"out": self.out, "delta": ValueId(self.d)}

    def method_handler(self, obj, name, node):
        k = self
        if obj is self.out:
            if name == "evaluation_time":
                return lambda I, o, a, n: k.T
            if name == "begin_mutation":
                def bm(I, o, a, n):
                    I.ctx.write(Loc((k.g.oid, "mut_t")), I.ctx.rv(a[0]))
                    return Mutation(k)
                return bm
        return Kernel.method_handler(self, obj, name, node)

    def post(self, I, ret):
        ctx = I.ctx
        g = self.g
        ctx.oblige("ensures.value':=delta,once,at-the-cycle-time[C20 applying the captured delta reproduces the tick; C08 the feedback "
                   "source delivers the stored delta]",
                   z3.And(ctx.store[(g.oid, "copies")] == 1, ctx.store[(g.oid, "copied")] == self.d,
                          ctx.store[(g.oid, "mut_t")] == self.T), kind="post-normal")


class Mutation(Obj):
    cls = "TSOutputMutation"

    def __init__(self, k):
        Obj.__init__(self, name="mutation")
        self.k = k

    def m_copy_value_from(self, I, args, n):
        ctx = I.ctx
        v = ctx.rv(args[0])
        ctx.write(Loc((self.k.g.oid, "copies")), ctx.store[(self.k.g.oid, "copies")] + 1)
        ctx.write(Loc((self.k.g.oid, "copied")), v.vid)
        return ctx.fresh("first_for_time", "bool")


# ------------------------------------------------------------------ TSS


class RangeOf(Vec):
    """an iterable of element ids (set.added() / set.removed() / an indexed delta field)"""
    pass


class CaptureDeltaTss(DeltaKernel):
    name = "ts_delta.cpp:capture_delta_tss"
    fn_name = "capture_delta_tss"
    filter = "capture_delta_tss"
    title = "TSS capture: the delta bundle holds exactly the added and the removed elements of this tick"

    def setup(self, I):
        ctx = I.ctx
        self.inp = Obj("TSInputView", "in")
        self.na, self.nr = z3.Int("n_added"), z3.Int("n_removed")
        ctx.assume(z3.And(self.na >= 0, self.nr >= 0))
        self.ea = z3.Array("added_enum", I_, I_)
        self.er = z3.Array("removed_enum", I_, I_)
        self.added = Vec(ctx, "added_range", length=self.na, elem=lambda i: ElemRef(self.ea[i]))
        self.removed = Vec(ctx, "removed_range", length=self.nr, elem=lambda i: ElemRef(self.er[i]))
        sch = Obj("schema", "schema")
        vs = Obj("vs", "value_schema")
        ctx.store[(vs.oid, "element_type")] = Ptr(Obj("et", "element_type"), z3.BoolVal(False))
        ctx.store[(sch.oid, "delta_value_schema")] = Ptr(Obj("dvs", "delta_value_schema"), z3.BoolVal(False))
        ctx.store[(sch.oid, "value_schema")] = Ptr(vs, z3.BoolVal(False))
        self.schema = sch
        self.builders = []
        return None, {"in": self.inp}

    def method_handler(self, obj, name, node):
        k = self
        if obj is self.inp:
            if name == "schema":
                return lambda I, o, a, n: Ptr(k.schema, z3.BoolVal(False))
            if name == "as_set":
                return lambda I, o, a, n: SetInput(k)
        return Kernel.method_handler(self, obj, name, node)

    def ctor_handler(self, qt, node):
        if qt.endswith("SetBuilder"):
            def mk(I, args, n):
                b = SetBuilderObj(I.ctx, "builder%d" % len(self.builders))
                self.builders.append(b)
                return b
            return mk
        if qt.endswith("BundleBuilder"):
            return lambda I, args, n: BundleBuilderObj(I.ctx)
        if qt.endswith("BorrowedOperand"):
            return lambda I, args, n: I.ctx.rv(args[1])
        return Kernel.ctor_handler(self, qt, node)

    def inv_for(self, which):
        def inv(I, ctx):
            pos = self.range_pos(I)
            rng, enum = (self.added, self.ea) if which == 0 else (self.removed, self.er)
            b = self.builders[which]
            yield "pos-range", z3.And(pos >= 0, pos <= rng.length(ctx))
            yield "builder=prefix-of-the-range", z3.ForAll([qe], b.elems(ctx)[qe] == z3.Exists(
                [qk], z3.And(qk >= 0, qk < pos, enum[qk] == qe)))
            if which == 1:
                b0 = self.builders[0]
                yield "added-builder-complete", z3.ForAll([qe], b0.elems(ctx)[qe] == z3.Exists(
                    [qk], z3.And(qk >= 0, qk < self.na, self.ea[qk] == qe)))
        return inv

    def frame_for(self, which):
        return lambda I, ctx: [self.builders[which].loc("elems")]

    @property
    def loops(self):
        return {0: LoopSpec(self.inv_for(0), self.frame_for(0)), 1: LoopSpec(self.inv_for(1), self.frame_for(1))}

    def post(self, I, ret):
        ctx = I.ctx
        if not isinstance(ret, BundleValue):
            raise Gap("capture_delta_tss returned %r" % (ret,))
        a = self.field(ret, "added")
        r = self.field(ret, "removed")
        in_a = lambda e: z3.Exists([qk], z3.And(qk >= 0, qk < self.na, self.ea[qk] == e))
        in_r = lambda e: z3.Exists([qk], z3.And(qk >= 0, qk < self.nr, self.er[qk] == e))
        ctx.oblige("ensures.delta.added=the-tick's-added-set,delta.removed=its-removed-set[C20 same per-tick deltas]",
                   z3.And(z3.ForAll([qe], a.elems[qe] == in_a(qe)), z3.ForAll([qe], r.elems[qe] == in_r(qe))), kind="post-normal")

    def field(self, bv, name):
        sid = str(z3.IntVal(self.string_id(name)))
        for k, v in bv.named.items():
            if k == sid:
                return v
        raise Gap("bundle field %s missing" % name)


class SetInput(Obj):
    cls = "TSSInputView"

    def __init__(self, k):
        Obj.__init__(self, name="set_input")
        self.k = k

    def m_added(self, I, args, n):
        return self.k.added

    def m_removed(self, I, args, n):
        return self.k.removed


class ApplyDeltaTss(DeltaKernel):
    property_ids = ("C20", "C08")
    name = "ts_delta.cpp:apply_delta_tss"
    fn_name = "apply_delta_tss"
    filter = "apply_delta_tss"
    title = "TSS apply: live' = (live minus removed) union added, then the tick is validated by touch"

    def setup(self, I):
        ctx = I.ctx
        self.out = Obj("TSOutputView", "out")
        self.T = z3.Int("out_evaluation_time")
        self.na, self.nr = z3.Int("n_added"), z3.Int("n_removed")
        ctx.assume(z3.And(self.na >= 0, self.nr >= 0))
        self.ea = z3.Array("added_list", I_, I_)
        self.er = z3.Array("removed_list", I_, I_)
        g = Obj("ghost", "sg")
        self.g = g
        self.live0 = z3.Array("live0", I_, B_)
        ctx.store[(g.oid, "live")] = self.live0
        ctx.store[(g.oid, "touches")] = z3.IntVal(0)
        ctx.store[(g.oid, "mut_t")] = z3.IntVal(-9)
        ctx.store[(g.oid, "ops_after_touch")] = z3.IntVal(0)
        # canonical deltas are disjoint (ruling quoted in the source)
        ctx.assume(z3.ForAll([qe, qk], z3.Implies(z3.And(qe >= 0, qe < self.na, qk >= 0, qk < self.nr), self.ea[qe] != self.er[qk])))
        return None, {"out": self.out, "delta": DeltaBundle(self)}

    def global_var(self, I, ref, node):
        return {"tss_delta_added": z3.IntVal(0), "tss_delta_removed": z3.IntVal(1)}.get(ref.get("name"))

    def f_delta_field_is(self, I, args, n):
        return z3.BoolVal(True)

    def method_handler(self, obj, name, node):
        k = self
        if obj is self.out:
            if name == "evaluation_time":
                return lambda I, o, a, n: k.T
            if name == "as_set":
                return lambda I, o, a, n: SetOut(k)
        return Kernel.method_handler(self, obj, name, node)

    def live(self, ctx):
        return ctx.store[(self.g.oid, "live")]

    def inv_removed(self, I, ctx):
        i = self.local(I, "i")
        yield "i-range", z3.And(i >= 0, i <= self.nr)
        yield "live=live0-minus-removed-prefix", z3.ForAll([qe], self.live(ctx)[qe] == z3.And(
            self.live0[qe], z3.Not(z3.Exists([qk], z3.And(qk >= 0, qk < i, self.er[qk] == qe)))))
        yield "not-touched-yet", ctx.store[(self.g.oid, "touches")] == 0

    def inv_added(self, I, ctx):
        i = self.local(I, "i")
        in_r = lambda e: z3.Exists([qk], z3.And(qk >= 0, qk < self.nr, self.er[qk] == e))
        yield "i-range", z3.And(i >= 0, i <= self.na)
        yield "live=(live0-minus-removed)-plus-added-prefix", z3.ForAll([qe], self.live(ctx)[qe] == z3.Or(
            z3.And(self.live0[qe], z3.Not(in_r(qe))), z3.Exists([qk], z3.And(qk >= 0, qk < i, self.ea[qk] == qe))))
        yield "not-touched-yet", ctx.store[(self.g.oid, "touches")] == 0

    def frame(self, I, ctx):
        return [Loc((self.g.oid, "live"))]

    @property
    def loops(self):
        return {0: LoopSpec(self.inv_removed, self.frame), 1: LoopSpec(self.inv_added, self.frame)}

    def post(self, I, ret):
        ctx = I.ctx
        in_a = lambda e: z3.Exists([qk], z3.And(qk >= 0, qk < self.na, self.ea[qk] == e))
        in_r = lambda e: z3.Exists([qk], z3.And(qk >= 0, qk < self.nr, self.er[qk] == e))
        ctx.oblige("ensures.live'=(live-minus-removed)-union-added[C20 applying a captured delta to the pre-tick state yields "
                   "the post-tick state; C08 a set-shaped feedback delivers the stored delta]",
                   z3.ForAll([qe], self.live(ctx)[qe] == z3.Or(z3.And(self.live0[qe], z3.Not(in_r(qe))), in_a(qe))), kind="post-normal")
        ctx.oblige("ensures.touch-last,once,at-the-cycle-time[C20 an empty tick still ticks; C08 an empty initial set is delivered at "
                   "the start time]",
                   z3.And(ctx.store[(self.g.oid, "touches")] == 1, ctx.store[(self.g.oid, "ops_after_touch")] == 0,
                          ctx.store[(self.g.oid, "mut_t")] == self.T), kind="post-normal")


class DeltaBundle(Obj):
    cls = "ValueView(delta)"

    def __init__(self, k):
        Obj.__init__(self, name="delta")
        self.k = k

    def m_as_bundle(self, I, args, n):
        return self

    def m_at(self, I, args, n):
        which = z3.simplify(I.ctx.rv(args[0])).as_long()
        return FieldView(self.k, which)


class FieldView(Obj):
    cls = "ValueView(field)"

    def __init__(self, k, which):
        Obj.__init__(self, name="field")
        self.k, self.which = k, which

    def m_as_indexed_view(self, I, args, n):
        k = self.k
        if self.which == 0:
            return Vec(I.ctx, "added_view", length=k.na, elem=lambda i: ElemRef(k.ea[i]))
        return Vec(I.ctx, "removed_view", length=k.nr, elem=lambda i: ElemRef(k.er[i]))


class SetOut(Obj):
    cls = "TSSOutputView"

    def __init__(self, k):
        Obj.__init__(self, name="set_out")
        self.k = k

    def m_begin_mutation(self, I, args, n):
        I.ctx.write(Loc((self.k.g.oid, "mut_t")), I.ctx.rv(args[0]))
        return SetMutation(self.k)


class SetMutation(Obj):
    cls = "TSSMutation"

    def __init__(self, k):
        Obj.__init__(self, name="set_mutation")
        self.k = k

    def _op(self, I, e, val):
        ctx = I.ctx
        g = self.k.g
        ctx.write(Loc((g.oid, "live")), z3.Store(ctx.store[(g.oid, "live")], e.eid, val))
        return ctx.fresh("changed", "bool")

    def m_remove(self, I, args, n):
        return self._op(I, I.ctx.rv(args[0]), False)

    def m_add(self, I, args, n):
        return self._op(I, I.ctx.rv(args[0]), True)

    def m_touch(self, I, args, n):
        g = self.k.g
        I.ctx.write(Loc((g.oid, "touches")), I.ctx.store[(g.oid, "touches")] + 1)
        return VOID


class TssRoundTrip(Lemma):
    name = "lemma:tss-round-trip"
    property_ids = ("C20",)
    title = "capture then apply reproduces the set: with SLInv on the source, (prev minus removed) union added is the source's value"
    scope = {"lo": 0, "hi": 3}

    def lemmas(self):
        prev, live, A, R, out1 = (z3.Array(nm, I_, B_) for nm in ("prev", "live", "A", "R", "out1"))
        sl = z3.And(z3.ForAll([qe], z3.Not(z3.And(A[qe], R[qe]))),
                    z3.ForAll([qe], z3.Implies(A[qe], z3.Not(prev[qe]))), z3.ForAll([qe], z3.Implies(R[qe], prev[qe])),
                    z3.ForAll([qe], live[qe] == z3.Or(z3.And(prev[qe], z3.Not(R[qe])), A[qe])))
        applied = z3.ForAll([qe], out1[qe] == z3.Or(z3.And(prev[qe], z3.Not(R[qe])), A[qe]))
        yield "apply(capture(in))-on-the-pre-tick-copy=post-tick-value", [sl, applied], z3.ForAll([qe], out1[qe] == live[qe])
        A2, R2 = z3.Array("A2", I_, B_), z3.Array("R2", I_, B_)
        recapture = z3.And(z3.ForAll([qe], A2[qe] == z3.And(out1[qe], z3.Not(prev[qe]))),
                           z3.ForAll([qe], R2[qe] == z3.And(prev[qe], z3.Not(out1[qe]))))
        yield "capturing-again-from-the-copy-yields-the-same-delta", [sl, applied, recapture], z3.And(
            z3.ForAll([qe], A2[qe] == A[qe]), z3.ForAll([qe], R2[qe] == R[qe]))


# ------------------------------------------------------------------ TSB


class CaptureDeltaTsb(DeltaKernel):
    name = "ts_delta.cpp:capture_delta_tsb"
    fn_name = "capture_delta_tsb"
    filter = "capture_delta_tsb"
    title = "TSB capture: exactly the modified and valid fields are captured, each by the general capture of that child"

    def setup(self, I):
        ctx = I.ctx
        self.inp = Obj("TSInputView", "in")
        self.nf = z3.Int("n_fields")
        ctx.assume(self.nf >= 0)
        self.mod = z3.Array("child_modified", I_, B_)
        self.val = z3.Array("child_valid", I_, B_)
        self.bb = None
        sch = Obj("schema", "schema")
        ctx.store[(sch.oid, "delta_value_schema")] = Ptr(Obj("dvs", "delta_value_schema"), z3.BoolVal(False))
        self.schema = sch
        return None, {"in": self.inp}

    def f_ts_type_for(self, I, args, n):
        return TypeObj(self)

    def f_initialize_tsb_delta_defaults(self, I, args, n):
        return VOID

    def f_capture_delta(self, I, args, n):
        c = I.ctx.rv(args[0])
        return ValueId(DELTA_OF(c.idx))

    def method_handler(self, obj, name, node):
        k = self
        if obj is self.inp:
            if name == "schema":
                return lambda I, o, a, n: Ptr(k.schema, z3.BoolVal(False))
            if name == "as_bundle":
                return lambda I, o, a, n: BundleIn(k)
        return Kernel.method_handler(self, obj, name, node)

    def ctor_handler(self, qt, node):
        if qt.endswith("BundleBuilder"):
            def mk(I, args, n):
                self.bb = BundleBuilderObj(I.ctx)
                return self.bb
            return mk
        if qt in ("Value", "hgraph::Value"):
            return lambda I, args, n: I.ctx.rv(args[0])
        return Kernel.ctor_handler(self, qt, node)

    def inv(self, I, ctx):
        i = self.local(I, "index")
        fset, fval = ctx.store[(self.bb.oid, "fset")], ctx.store[(self.bb.oid, "fval")]
        yield "index-range", z3.And(i >= 0, i <= self.nf)
        yield "captured-prefix", z3.ForAll([qk], z3.And(
            fset[qk] == z3.And(qk >= 0, qk < i, self.mod[qk], self.val[qk]),
            z3.Implies(fset[qk], fval[qk] == DELTA_OF(qk))))

    def frame(self, I, ctx):
        return [self.bb.loc("fset"), self.bb.loc("fval")]

    @property
    def loops(self):
        return {0: LoopSpec(self.inv, self.frame)}

    def post(self, I, ret):
        ctx = I.ctx
        ctx.oblige("ensures.field-i-captured<=>child-i-modified-and-valid,with-the-child's-own-delta[C20 same cycles, same "
                   "per-tick deltas at any nesting]",
                   z3.ForAll([qk], z3.And(ret.fset[qk] == z3.And(qk >= 0, qk < self.nf, self.mod[qk], self.val[qk]),
                                          z3.Implies(ret.fset[qk], ret.fval[qk] == DELTA_OF(qk)))), kind="post-normal")


class TypeObj(Obj):
    cls = "TSRoleTypeRef"

    def __init__(self, k):
        Obj.__init__(self, name="type")
        self.k = k

    def m_schema(self, I, args, n):
        return Ptr(self.k.schema, z3.BoolVal(False))


class BundleIn(Obj):
    cls = "TSBInputView"

    def __init__(self, k):
        Obj.__init__(self, name="bundle_in")
        self.k = k

    def m_size(self, I, args, n):
        return self.k.nf

    def m_at(self, I, args, n):
        i = I.ctx.rv(args[0])
        I.ctx.oblige("bundle.at-in-range", z3.And(i >= 0, i < self.k.nf), kind="bounds")
        return ChildIn(self.k, i)


class ChildIn(Obj):
    cls = "TSInputView(child)"

    def __init__(self, k, idx):
        Obj.__init__(self, name="child")
        self.k, self.idx = k, idx

    def m_modified(self, I, args, n):
        return self.k.mod[self.idx]

    def m_valid(self, I, args, n):
        return self.k.val[self.idx]


class ApplyDeltaTsb(DeltaKernel):
    name = "ts_delta.cpp:apply_delta_tsb"
    fn_name = "apply_delta_tsb"
    filter = "apply_delta_tsb"
    title = "TSB apply: field i of the delta is applied to child i, for every field, once"

    def setup(self, I):
        ctx = I.ctx
        self.out = Obj("TSOutputView", "out")
        self.nf = z3.Int("n_fields")
        ctx.assume(self.nf >= 0)
        g = Obj("ghost", "bg")
        self.g = g
        ctx.store[(g.oid, "applied")] = z3.K(I_, z3.IntVal(0))
        ctx.store[(g.oid, "mismatch")] = z3.BoolVal(False)
        return None, {"out": self.out, "delta": DeltaB(self)}

    def f_apply_delta(self, I, args, n):
        ctx = I.ctx
        c, d = ctx.rv(args[0]), ctx.rv(args[1])
        a = ctx.store[(self.g.oid, "applied")]
        ctx.write(Loc((self.g.oid, "applied")), z3.Store(a, c.idx, a[c.idx] + 1))
        ctx.write(Loc((self.g.oid, "mismatch")), z3.Or(ctx.store[(self.g.oid, "mismatch")], c.idx != d.idx))
        return VOID

    def method_handler(self, obj, name, node):
        if obj is self.out and name == "as_bundle":
            return lambda I, o, a, n: OutB(self)
        return Kernel.method_handler(self, obj, name, node)

    def inv(self, I, ctx):
        i = self.local(I, "index")
        a = ctx.store[(self.g.oid, "applied")]
        yield "index-range", z3.And(i >= 0, i <= self.nf)
        yield "applied-prefix-once", z3.ForAll([qk], a[qk] == z3.If(z3.And(qk >= 0, qk < i), 1, 0))
        yield "field-i-to-child-i", z3.Not(ctx.store[(self.g.oid, "mismatch")])

    def frame(self, I, ctx):
        return [Loc((self.g.oid, "applied")), Loc((self.g.oid, "mismatch"))]

    @property
    def loops(self):
        return {0: LoopSpec(self.inv, self.frame)}

    def post(self, I, ret):
        ctx = I.ctx
        a = ctx.store[(self.g.oid, "applied")]
        ctx.oblige("ensures.every-field-applied-exactly-once-to-its-own-child[C20 bundle shapes at any nesting]",
                   z3.And(z3.ForAll([qk], a[qk] == z3.If(z3.And(qk >= 0, qk < self.nf), 1, 0)),
                          z3.Not(ctx.store[(self.g.oid, "mismatch")])), kind="post-normal")


class DeltaB(Obj):
    cls = "ValueView(bundle delta)"

    def __init__(self, k):
        Obj.__init__(self, name="delta")
        self.k = k

    def m_as_bundle(self, I, args, n):
        return self

    def m_size(self, I, args, n):
        return self.k.nf

    def m_at(self, I, args, n):
        o = Obj("ValueView", "field_delta")
        o.idx = I.ctx.rv(args[0])
        return o


class OutB(Obj):
    cls = "TSBOutputView"

    def __init__(self, k):
        Obj.__init__(self, name="bundle_out")
        self.k = k

    def m_at(self, I, args, n):
        o = Obj("TSOutputView", "child_out")
        o.idx = I.ctx.rv(args[0])
        return o


# ------------------------------------------------------------------ dense buffer index


class CycleOffset(Kernel):
    name = "record_replay_buffer.h:cycle_offset"
    # clang 14 crashes on the translation units that use this header (static-node templates), so the header is
    # dumped through a generated TU consisting of one #include line (extraction mode E2)
    tu = "gen:record_replay_buffer"
    extraction_mode = "E2 generated TU: #include <hgraph/lib/testing/record_replay_buffer.h>"
    filter = "cycle_offset"
    fn_name = "cycle_offset"
    property_ids = ("C20",)
    scope = {"lo": 0, "hi": 5}
    title = "cycle_offset(now) = (now - MIN_ST) / MIN_TD: buffer index i <-> time MIN_ST + i * MIN_TD"

    def setup(self, I):
        self.now = z3.Int("now")
        I.ctx.assume(z3.And(self.now >= 1, self.now <= MAX_DT))
        return None, {"now": self.now}

    def post(self, I, ret):
        ctx = I.ctx
        ctx.oblige("ensures.index<->time-bijection[C20 the same cycles: entry i is the tick at MIN_ST + i*MIN_TD]",
                   z3.And(ret >= 0, 1 + ret * 1 == self.now), kind="post-normal")


KERNELS = [CaptureDeltaTs, ApplyDeltaAtomic, CaptureDeltaTss, ApplyDeltaTss, CaptureDeltaTsb, ApplyDeltaTsb, CycleOffset]
LEMMAS = [TssRoundTrip]


# ------------------------------------------------------------------ delta_has_effect_tsd / _tss (what replay may drop)
#
# apply_delta skips a recorded delta only when applying it would change nothing: no modified element, no removal of a
# key the target holds (strict removals always count), and not the empty tick that validates a fresh output.

qr = z3.Int("qr")


class EffBundle(Obj):
    cls = "BundleView(delta)"

    def __init__(self, k):
        Obj.__init__(self, name="delta_bundle")
        self.k = k

    def m_size(self, I, a, n):
        return self.k.n_fields

    def m_at(self, I, a, n):
        i = z3.simplify(I.ctx.rv(a[0]))
        return EffField(self.k, i)


class EffField(Obj):
    cls = "ValueView(delta field)"

    def __init__(self, k, idx):
        Obj.__init__(self, name="delta_field")
        self.k, self.idx = k, idx

    def _which(self):
        k = self.k
        for nm in ("modified", "removed", "removed_strict", "added"):
            t = k.field_index.get(nm)
            if t is not None and z3.eq(z3.simplify(self.idx), z3.simplify(t)):
                return nm
        raise Gap("delta field index %s is not one of the schema's fields" % self.idx)

    def m_as_indexed_view(self, I, a, n):
        return EffSized(self.k, self._which())

    def m_as_map(self, I, a, n):
        k, which = self.k, self._which()
        if which == "modified" and hasattr(k, "mod_key"):
            from cxxvc.interp import Pair

            def entry(j):
                d = Obj("ValueView", "child_delta")
                d.position = j
                return Pair(ElemRef(k.mod_key[j]), d)
            return Vec(I.ctx, "modified", length=k.sizes["modified"], elem=entry)
        return EffSized(k, which)


class EffSized(Obj):
    cls = "sized view"

    def __init__(self, k, which):
        Obj.__init__(self, name=which)
        self.k, self.which = k, which

    def m_size(self, I, a, n):
        return self.k.sizes[self.which]

    def m_at(self, I, a, n):
        i = I.ctx.rv(a[0])
        if self.which == "removed_strict" and hasattr(self.k, "strict_key"):
            I.ctx.oblige("strict-index-in-range", z3.And(i >= 0, i < self.k.sizes["removed_strict"]), kind="bounds")
            return ElemRef(self.k.strict_key[i])
        if self.which != "removed":
            raise Gap("element access on the %s field" % self.which)
        I.ctx.oblige("removed-index-in-range", z3.And(i >= 0, i < self.k.sizes["removed"]), kind="bounds")
        return ElemRef(self.k.removed_key[i])


class EffDictOut(Obj):
    cls = "TSDOutputView"

    def __init__(self, k):
        Obj.__init__(self, name="dict_out")
        self.k = k

    def m_contains(self, I, a, n):
        e = I.ctx.rv(a[0])
        return self.k.target_has[e.eid]


class DeltaHasEffectTsd(DeltaKernel):
    name = "ts_delta.cpp:delta_has_effect_tsd"
    fn_name = "delta_has_effect_tsd"
    filter = "delta_has_effect_tsd"
    title = "delta_has_effect_tsd: a dictionary delta is dropped only if applying it would change nothing"

    def setup(self, I):
        ctx = I.ctx
        self.has_delta = z3.Bool("delta_has_value")
        self.n_fields = z3.Int("delta_field_count")
        self.sizes = {nm: z3.Int("n_" + nm) for nm in ("modified", "removed", "removed_strict")}
        for v in self.sizes.values():
            ctx.assume(v >= 0)
        self.removed_key = z3.Array("removed_key", I_, I_)
        self.target_has = z3.Array("target_has_key", I_, B_)
        self.out_valid = z3.Bool("target_valid")
        self.field_index = {}
        self.authored = z3.Int("tsd_authored_delta_fields")
        ctx.assume(z3.Or(self.n_fields == self.authored, self.n_fields == self.authored - 1))
        out = Obj("TSOutputView", "out")
        out.m_valid = lambda I_2, a, n: self.out_valid
        out.m_as_dict = lambda I_2, a, n: EffDictOut(self)
        delta = Obj("ValueView", "delta")
        delta.m_has_value = lambda I_2, a, n: self.has_delta
        delta.m_as_bundle = lambda I_2, a, n: EffBundle(self)
        return None, {"out": out, "delta": delta}

    def global_var(self, I, ref, node):
        nm = ref.get("name", "")
        m = {"tsd_delta_modified": "modified", "tsd_delta_removed": "removed", "tsd_delta_removed_strict": "removed_strict"}
        if nm in m:
            t = z3.Int(nm)
            self.field_index[m[nm]] = t
            return t
        if nm == "tsd_authored_delta_fields":
            return self.authored
        return None

    def f_delta_field_is(self, I, args, n):
        return z3.BoolVal(True)

    def inv(self, I, ctx):
        i = self.local(I, "index")
        yield "index-range", z3.And(i >= 0, i <= self.sizes["removed"])
        yield "no-removed-key-so-far-is-held-by-the-target", z3.ForAll([qr], z3.Implies(z3.And(qr >= 0, qr < i),
                                                                                        z3.Not(self.target_has[self.removed_key[qr]])))

    @property
    def loops(self):
        return {0: LoopSpec(self.inv, lambda I, ctx: [])}

    def post(self, I, ret):
        n = self.sizes
        some_removed_present = z3.Exists([qr], z3.And(qr >= 0, qr < n["removed"], self.target_has[self.removed_key[qr]]))
        strict = z3.And(self.n_fields == self.authored, n["removed_strict"] != 0)
        effect = z3.Or(n["modified"] != 0, strict, some_removed_present,
                       z3.And(n["modified"] == 0, n["removed"] == 0, z3.Not(self.out_valid)))
        I.ctx.oblige("ensures.no-effect-only-if-applying-changes-nothing[C20 replaying a recorded delta reproduces the tick: a delta with "
                     "a modified element, a removal of a held key or a validating empty tick is never dropped]",
                     z3.Implies(self.has_delta, z3.Implies(effect, ret)), kind="post-normal")
        I.ctx.oblige("ensures.an-absent-delta-has-no-effect;removals-of-absent-keys-alone-do-not-tick", z3.And(
            z3.Implies(z3.Not(self.has_delta), z3.Not(ret)),
            z3.Implies(z3.And(self.has_delta, n["modified"] == 0, z3.Not(strict), n["removed"] != 0, z3.Not(some_removed_present)),
                       z3.Not(ret))), kind="post-normal")


# ------------------------------------------------------------------ recorded_seed_resolver (recover: last value at or before start)

RRTU = "src/hgraph/types/record_replay.cpp"


class SeedEntries(Obj):
    cls = "ListView(entries)"

    def __init__(self, k):
        Obj.__init__(self, name="entries")
        self.k = k

    def m_size(self, I, a, n):
        return self.k.n

    def m_at(self, I, a, n):
        i = I.ctx.rv(a[0])
        I.ctx.oblige("entry-index-in-range", z3.And(i >= 0, i < self.k.n), kind="bounds")
        return SeedEntry(self.k, i)


class SeedEntry(Obj):
    cls = "entry"

    def __init__(self, k, i):
        Obj.__init__(self, name="entry")
        self.k, self.i = k, i

    def m_as_indexed_view(self, I, a, n):
        return self

    def m_at(self, I, a, n):
        j = z3.simplify(I.ctx.rv(a[0]))
        if z3.is_int_value(j) and j.as_long() == 0:
            return SeedTime(self.k.tm[self.i])
        if z3.is_int_value(j) and j.as_long() == 1:
            return SeedDelta(self.i)
        raise Gap("entry field %s" % j)


class SeedTime(Obj):
    cls = "ValueView(time)"

    def __init__(self, t):
        Obj.__init__(self, name="when")
        self.t = t

    def m_checked_as(self, I, a, n):
        return self.t


class SeedDelta(Obj):
    cls = "ValueView(delta)"

    def __init__(self, i):
        Obj.__init__(self, name="delta")
        self.i = i


class RecordedSeedResolver(DeltaKernel):
    tu = RRTU
    name = "record_replay.cpp:recorded_seed_resolver"
    fn_name = "recorded_seed_resolver"
    filter = "recorded_seed_resolver"
    title = "recorded_seed_resolver: the recovery seed is the fold of exactly the recorded deltas at or before the start time, in order"

    def setup(self, I):
        ctx = I.ctx
        self.n = z3.Int("n_entries")
        self.tm = z3.Array("entry_time", I_, I_)
        self.start = z3.Int("start_time")
        ctx.assume(z3.And(self.n >= 0, self.start >= 0))
        # the recording is time-sorted with one entry per cycle (record_replay buffers append in evaluation order)
        ctx.assume(z3.ForAll([qr, qe], z3.Implies(z3.And(qr >= 0, qr < qe, qe < self.n), self.tm[qr] < self.tm[qe])))
        g = Obj("ghost", "sg")
        self.g = g
        ctx.store[(g.oid, "applied")] = z3.IntVal(0)
        ctx.store[(g.oid, "in_order")] = z3.BoolVal(True)
        self.buffer_valid = z3.Bool("buffer_valid")
        self.schema_null = z3.Bool("schema_null")
        state = Obj("GlobalStateView", "state")
        buf = Obj("ValueView", "buffer")
        buf.m_valid = lambda I_2, a, n: self.buffer_valid
        buf.m_as_list = lambda I_2, a, n: SeedEntries(self)
        state.m_get = lambda I_2, a, n: buf
        return None, {"state": state, "fq_key": z3.Int("fq_key"), "schema": Ptr(Obj("schema", "schema"), self.schema_null),
                      "start_time": self.start}

    def f_config(self, I, args, n):
        cfg = Obj("RecordReplayConfig", "cfg")
        I.ctx.store[(cfg.oid, "backend")] = z3.IntVal(self.string_id("MEMORY"))     # domain: the in-memory backend
        return cfg

    def global_var(self, I, ref, node):
        if ref.get("name") == "MEMORY":
            return z3.IntVal(self.string_id("MEMORY"))
        if ref.get("name") == "TESTING":
            return z3.IntVal(self.string_id("TESTING"))
        return None

    def ctor_handler(self, qt, node):
        if qt.endswith("TSOutput"):
            def mk(I, args, n):
                o = Obj("TSOutput", "accumulated")
                k = self

                def view(I_2, a, n_2):
                    v = Obj("TSOutputView", "accumulated_view")
                    v.at = I_2.ctx.rv(a[0])
                    v.m_valid = lambda I_3, a3, n3: I_3.ctx.fresh("accumulated_valid", "bool")
                    v.m_value = lambda I_3, a3, n3: Obj("value", "seed_value")
                    return v
                o.m_view = view
                return o
            return mk
        if qt.endswith("Value") or "basic_string" in qt or qt.endswith("RecordReplayConfig"):
            return lambda I, args, n: (I.ctx.rv(args[0]) if args else Obj("Value", "empty_value"))
        return Kernel.ctor_handler(self, qt, node)

    def op_handler(self, *a):
        return None

    def f_apply_delta(self, I, args, n):
        ctx = I.ctx
        view, d = ctx.rv(args[0]), ctx.rv(args[1])
        ap = ctx.store[(self.g.oid, "applied")]
        ok = z3.BoolVal(isinstance(d, SeedDelta))
        if isinstance(d, SeedDelta):
            ok = z3.And(d.i == ap, getattr(view, "at", z3.IntVal(-1)) == self.tm[d.i])
        ctx.write(Loc((self.g.oid, "in_order")), z3.And(ctx.store[(self.g.oid, "in_order")], ok))
        ctx.write(Loc((self.g.oid, "applied")), ap + 1)
        return VOID

    def inv(self, I, ctx):
        i = self.local(I, "i")
        ap = ctx.store[(self.g.oid, "applied")]
        yield "every-entry-so-far-applied-in-order-at-its-own-time", z3.And(i >= 0, i <= self.n, ap == i, ctx.store[(self.g.oid, "in_order")],
                                                                             z3.ForAll([qr], z3.Implies(z3.And(qr >= 0, qr < i), self.tm[qr] <= self.start)))

    def frame(self, I, ctx):
        return [Loc((self.g.oid, "applied")), Loc((self.g.oid, "in_order"))]

    @property
    def loops(self):
        return {0: LoopSpec(self.inv, self.frame)}

    def post(self, I, ret):
        ctx = I.ctx
        ap = ctx.store[(self.g.oid, "applied")]
        usable = z3.And(z3.Not(self.schema_null), self.buffer_valid)
        ctx.oblige("ensures.seed=fold-of-exactly-the-entries-at-or-before-the-start-time,in-order[C20 recovery resumes from the last "
                   "recorded value at or before the start time]", z3.Implies(usable, z3.And(
                       ctx.store[(self.g.oid, "in_order")], ap >= 0, ap <= self.n,
                       z3.ForAll([qr], z3.Implies(z3.And(qr >= 0, qr < self.n), (qr < ap) == (self.tm[qr] <= self.start))))),
                   kind="post-normal")
        ctx.oblige("ensures.nothing-applied-without-a-schema-or-a-recording", z3.Implies(z3.Not(usable), ap == 0), kind="post-normal")


KERNELS += [DeltaHasEffectTsd, RecordedSeedResolver]




# ------------------------------------------------------------------ apply_delta_tsd: removals, children, then the validating touch


class TsdMutation(Obj):
    cls = "TSDMutation"

    def __init__(self, k):
        Obj.__init__(self, name="mutation")
        self.k = k

    def _op(self, ctx):
        g = self.k.g
        ctx.write(Loc((g.oid, "ops_after_touch")), ctx.store[(g.oid, "ops_after_touch")] + z3.If(ctx.store[(g.oid, "touches")] > 0, 1, 0))

    def m_erase(self, I, a, n):
        ctx = I.ctx
        e = ctx.rv(a[0])
        if not isinstance(e, ElemRef):
            raise Gap("erase of an untracked key")
        self._op(ctx)
        g = self.k.g
        ctx.write(Loc((g.oid, "erased")), z3.Store(ctx.store[(g.oid, "erased")], e.eid, True))
        return self.k.target_has[e.eid]

    def m_at(self, I, a, n):
        e = I.ctx.rv(a[0])
        if not isinstance(e, ElemRef):
            raise Gap("child of an untracked key")
        self._op(I.ctx)
        o = Obj("TSDataView", "child")
        o.child_of = e.eid
        return o

    def m_touch(self, I, a, n):
        ctx = I.ctx
        g = self.k.g
        ctx.write(Loc((g.oid, "touches")), ctx.store[(g.oid, "touches")] + 1)
        return VOID


class ApplyDeltaTsd(DeltaKernel):
    property_ids = ("C20", "C08")
    name = "ts_delta.cpp:apply_delta_tsd"
    fn_name = "apply_delta_tsd"
    filter = "apply_delta_tsd"
    title = "TSD apply: every removed key erased, every modified child's delta applied to that child, then the tick is validated by touch"

    def setup(self, I):
        ctx = I.ctx
        self.T = z3.Int("out_evaluation_time")
        self.n_fields = z3.Int("delta_field_count")
        self.sizes = {nm: z3.Int("n_" + nm) for nm in ("modified", "removed", "removed_strict")}
        for v in self.sizes.values():
            ctx.assume(v >= 0)
        self.removed_key, self.strict_key, self.mod_key = (z3.Array(nm, I_, I_) for nm in ("removed_key", "strict_key", "modified_key"))
        self.target_has = z3.Array("target_has_key", I_, B_)
        self.field_index = {}
        self.authored = z3.Int("tsd_authored_delta_fields")
        ctx.assume(z3.Or(self.n_fields == self.authored, self.n_fields == self.authored - 1))
        g = Obj("ghost", "dg")
        self.g = g
        ctx.store[(g.oid, "erased")] = z3.K(I_, z3.BoolVal(False))
        ctx.store[(g.oid, "applied")] = z3.K(I_, z3.BoolVal(False))       # per position in the modified map
        for nm in ("touches", "ops_after_touch", "mutations"):
            ctx.store[(g.oid, nm)] = z3.IntVal(0)
        ctx.store[(g.oid, "mut_t")] = z3.IntVal(-9)
        k = self
        out = Obj("TSOutputView", "out")
        out.m_evaluation_time = lambda I_2, a, n: self.T
        out.m_output = lambda I_2, a, n: Obj("TSOutput", "output")
        dict_out = Obj("TSDOutputView", "dict_out")

        def begin(I_2, a, n):
            c = I_2.ctx
            c.write(Loc((g.oid, "mutations")), c.store[(g.oid, "mutations")] + 1)
            c.write(Loc((g.oid, "mut_t")), c.rv(a[0]))
            return TsdMutation(k)
        dict_out.m_begin_mutation = begin
        out.m_as_dict = lambda I_2, a, n: dict_out
        delta = Obj("ValueView", "delta")
        delta.m_as_bundle = lambda I_2, a, n: EffBundle(self)
        self.out = out
        return None, {"out": out, "delta": delta}

    def global_var(self, I, ref, node):
        nm = ref.get("name", "")
        m = {"tsd_delta_modified": "modified", "tsd_delta_removed": "removed", "tsd_delta_removed_strict": "removed_strict"}
        if nm in m:
            t = z3.Int(nm)
            self.field_index[m[nm]] = t
            return t
        if nm == "tsd_authored_delta_fields":
            return self.authored
        return None

    def f_delta_field_is(self, I, args, n):
        return z3.BoolVal(True)

    def ctor_handler(self, qt, node):
        if qt.endswith("TSOutputView"):
            def mk(I, args, n):
                a = [I.ctx.rv(x) for x in args]
                if len(a) == 1:
                    return a[0]
                if len(a) != 3:
                    raise Gap("TSOutputView built from %d arguments" % len(a))
                o = Obj("TSOutputView", "child_view")
                o.child_of = getattr(a[1], "child_of", None)
                o.at_time = a[2]
                return o
            return mk
        return Kernel.ctor_handler(self, qt, node)

    def f_apply_delta(self, I, args, n):
        ctx = I.ctx
        v, d = ctx.rv(args[0]), ctx.rv(args[1])
        j = getattr(d, "position", None)
        if j is None or getattr(v, "child_of", None) is None:
            raise Gap("apply_delta on something that is not (child view, its child delta)")
        g = self.g
        ctx.write(Loc((g.oid, "ops_after_touch")), ctx.store[(g.oid, "ops_after_touch")] + z3.If(ctx.store[(g.oid, "touches")] > 0, 1, 0))
        ok = z3.And(v.child_of == self.mod_key[j], v.at_time == self.T)
        ctx.write(Loc((g.oid, "applied")), z3.Store(ctx.store[(g.oid, "applied")], j, ok))
        return VOID

    def gg(self, ctx, nm):
        return ctx.store[(self.g.oid, nm)]

    def removed_done(self, ctx, upto):
        return z3.ForAll([qk], z3.Implies(z3.And(qk >= 0, qk < upto), self.gg(ctx, "erased")[self.removed_key[qk]]))

    def strict_done(self, ctx, upto):
        return z3.ForAll([qk], z3.Implies(z3.And(qk >= 0, qk < upto), self.gg(ctx, "erased")[self.strict_key[qk]]))

    def applied_done(self, ctx, upto):
        return z3.ForAll([qk], z3.Implies(z3.And(qk >= 0, qk < upto), self.gg(ctx, "applied")[qk]))

    def base_inv(self, ctx):
        return z3.And(self.gg(ctx, "touches") == 0, self.gg(ctx, "ops_after_touch") == 0, self.gg(ctx, "mutations") == 1,
                      self.gg(ctx, "mut_t") == self.T)

    def inv_removed(self, I, ctx):
        i = ctx.rv(self.local(I, "i"))
        yield "removed-keys-so-far-erased", z3.And(i >= 0, i <= self.sizes["removed"], self.removed_done(ctx, i), self.base_inv(ctx))

    def inv_strict(self, I, ctx):
        i = ctx.rv(self.local(I, "i"))
        yield "all-removed-keys-erased;strict-keys-so-far-erased", z3.And(
            i >= 0, i <= self.sizes["removed_strict"], self.removed_done(ctx, self.sizes["removed"]), self.strict_done(ctx, i),
            self.base_inv(ctx))

    def inv_modified(self, I, ctx):
        pos = self.range_pos(I)
        yield "children-so-far-received-their-delta", z3.And(
            pos >= 0, pos <= self.sizes["modified"], self.applied_done(ctx, pos), self.removed_done(ctx, self.sizes["removed"]),
            z3.Implies(self.n_fields == self.authored, self.strict_done(ctx, self.sizes["removed_strict"])), self.base_inv(ctx))

    def frame(self, I, ctx):
        return [Loc((self.g.oid, nm)) for nm in ("erased", "applied", "ops_after_touch")]

    @property
    def loops(self):
        return {0: LoopSpec(self.inv_removed, self.frame), 1: LoopSpec(self.inv_strict, self.frame),
                2: LoopSpec(self.inv_modified, self.frame)}

    def post(self, I, ret):
        ctx = I.ctx
        ctx.oblige("ensures.every-removed-key-erased,every-modified-child-received-its-own-delta-at-the-cycle-time[C20 applying a "
                   "captured delta to the pre-tick state yields the post-tick state; C08 a dictionary-shaped feedback delivers the "
                   "stored delta]", z3.And(self.removed_done(ctx, self.sizes["removed"]), self.applied_done(ctx, self.sizes["modified"]),
                                           z3.Implies(self.n_fields == self.authored, self.strict_done(ctx, self.sizes["removed_strict"])),
                                           self.gg(ctx, "mutations") == 1, self.gg(ctx, "mut_t") == self.T), kind="post-normal")
        ctx.oblige("ensures.touch-last,once[C20 an empty tick still ticks (it validates a fresh dictionary); C08 an empty first write "
                   "is delivered]", z3.And(self.gg(ctx, "touches") == 1, self.gg(ctx, "ops_after_touch") == 0), kind="post-normal")

    def post_exc(self, I, exc):
        I.ctx.oblige("raises.runtime_error-only-for-a-strict-removal-of-an-absent-key",
                     z3.And(z3.BoolVal(exc.cls == "std::runtime_error"), self.n_fields == self.authored), kind="post-exceptional")


KERNELS += [ApplyDeltaTsd]


# ------------------------------------------------------------------ bounded stand-in: record -> replay as a whole
#
# The kernels above decide apply_delta / delta_has_effect per shape and the recording buffer.  Whether a recording made by
# the record node from a real source replays to the same tick stream - through capture_delta's observability tests, the
# dense buffer, replay_impl's scheduling and apply_delta's dispatch for every shape (lists that grow, windows below their
# minimum size, bundles) - is exercised by running both graphs over enumerated histories.


class RoundTripEnumeration(NativeCheck):
    kid = "native:c20_roundtrip"
    property_ids = ("C20",)
    source = "native/bounded/c20_roundtrip.cpp"
    title = "recording a source and replaying the recording gives the same ticks (cycles, deltas) and the same values"
    bound_text = ("bounded: every history of H cycles in which each key / slot / field is touched at most once per cycle (or the "
                  "window pushed), executed by a real source node through Out<>, recorded with dense_record_impl (tick stream + "
                  "value text after every tick), replayed with replay_impl into a second graph and recorded again; r2 == r1 and "
                  "v2 == v1.  Shapes: TS<Int>; TSS<Int> (2 elements: add/remove); TSD<Int,TS<Int>> (2 keys: set two values/erase); "
                  "TSL<TS<Int>,3>; dynamic TSL<TS<Int>> (3 slots); TSB{a,b}; TSW<Int,4,3>, TSW<Int,3,1>, TSW<Int,2,2>.  quick: H=3 "
                  "for TS/TSS/TSD/TSL/TSB (27 + 729 + 1 728 + 1 728 + 1 728 + 729), H=6 for the three windows (3 x 729); thorough: "
                  "H=4 for TSS/TSD/TSL/TSB, H=9 for the windows, 20 000 random H=6 for TSD and dynamic TSL")
    functions = ("record_replay_memory_impl.h: dense_record_impl / replay_impl", "record_replay_buffer.h: dense buffer",
                 "ts_delta.cpp: capture_delta, delta_is_observable (observable_window/set/dict/list/bundle), apply_delta (all shapes)",
                 "static_node.h: Out<> mutation API of every shape")

    def runs(self, tier):
        if tier == "thorough":
            jobs = [([sh, "4"], {}) for sh in ("ts", "tss", "tsd", "tsl3", "tsldyn", "tsb")]
            jobs += [([sh, "9"], {}) for sh in ("tsw43", "tsw31", "tsw22")]
            jobs += [(["tsd", "6", "20000", "5"], {}), (["tsldyn", "6", "20000", "5"], {})]
            return jobs
        return [([sh, "3"], {}) for sh in ("ts", "tss", "tsd", "tsl3", "tsldyn", "tsb")] + \
               [([sh, "6"], {}) for sh in ("tsw43", "tsw31", "tsw22")]


class SparseReplayEnumeration(NativeCheck):
    kid = "native:c20_sparse"
    property_ids = ("C20",)
    source = "native/bounded/c20_sparse.cpp"
    title = ("a sparse (absolute-time) in-memory recording replayed from any start cycle reproduces, from that cycle on, exactly the "
             "recorded ticks at their own times")
    bound_text = ("bounded: replay -> sparse_record(':memory:') of a TS<Int>, then replay(recordable_id) -> dense_record in a second run "
                  "starting at cycle s: every tick pattern over H cycles (2^H - 1) x every start cycle 0..H; quick H = 5 (186 runs), "
                  "thorough H = 9 (5 110 runs)")
    functions = ("record_replay_memory_impl.h: replay_impl::eval (absolute-time catch-up and re-scheduling), sparse_record_impl",
                 "record_replay.cpp: memory recording layout")

    def runs(self, tier):
        return [(["9" if tier == "thorough" else "5"], {})]


NATIVE = globals().get("NATIVE", []) + [RoundTripEnumeration, SparseReplayEnumeration]


# ---------------------------------------------------------------- delta_has_effect_tsb (C20_r6_3)
class WildView(Obj):
    """a value the contract says nothing about: every query on it has an arbitrary answer (bool / size / another such value)"""
    cls = "ValueView(arbitrary)"

    def __init__(self, name="value", idx=None):
        Obj.__init__(self, name=name)
        self.idx = idx

    def member(self, ctx, name, node):
        return WildView(name=name)

    def op(self, I, op, rest, n, a0):
        if op in ("==", "!=", "<", ">", "<=", ">="):
            return I.ctx.fresh("arbitrary_compare", "bool")
        if op == "[]":
            return WildView(name="element")
        return NotImplemented


class EffFieldSchema(Obj):
    cls = "TSValueTypeMetaData(field)"

    def __init__(self, k, idx):
        Obj.__init__(self, name="field_schema")
        self.k, self.idx = k, idx

    def member(self, ctx, name, node):
        if name == "kind":
            kd = self.k.fkind[self.idx]
            ctx.assume(kd != self.k.KINDS["TSB"])   # verified configuration: no bundle nested in the bundle (ground, so path feasibility sees it)
            return kd
        return WildView(name=name)


class EffFieldEntry(Obj):
    cls = "TSFieldMetaData"

    def __init__(self, k, idx):
        Obj.__init__(self, name="field_entry")
        self.k, self.idx = k, idx

    def member(self, ctx, name, node):
        if name == "type":
            return Ptr(EffFieldSchema(self.k, self.idx), self.k.ftype_null[self.idx])
        return WildView(name=name)


class EffFields(Obj):
    cls = "fields"

    def __init__(self, k):
        Obj.__init__(self, name="schema_fields")
        self.k = k

    def op(self, I, op, rest, n, a0):
        if op == "[]":
            return EffFieldEntry(self.k, I.ctx.rv(rest[0]))
        return NotImplemented

    def index(self, I, idx, n):
        return EffFieldEntry(self.k, idx)


class EffSchema(Obj):
    cls = "TSValueTypeMetaData"

    def __init__(self, k):
        Obj.__init__(self, name="out_schema")
        self.k = k

    def m_fields(self, I, args, n):
        return EffFields(self.k)


class EffOps(Obj):
    cls = "TSDataOps(child)"


class EffImpl:
    def __init__(self, k):
        self.k = k

    def call(self, I, args, n):
        ctx = I.ctx
        child, d = ctx.rv(args[0]), ctx.rv(args[1])
        if not isinstance(child, EffChild) or getattr(d, "idx", None) is None:
            raise Gap("delta_has_effect_impl(%r, %r)" % (child, d))
        ctx.oblige("callee-pre.field's-own-rule-asked-with-the-field's-own-delta", child.idx == d.idx, kind="callee-pre")
        g = self.k.g
        ctx.write(Loc((g.oid, "asked")), z3.Store(ctx.store[(g.oid, "asked")], child.idx, True))
        return self.k.E[child.idx]


class EffChild(Obj):
    cls = "TSOutputView(child)"

    def __init__(self, k, idx):
        Obj.__init__(self, name="child_out")
        self.k, self.idx = k, idx

    def m_data_view(self, I, args, n):
        dv = Obj("TSDataView", "child_data")
        ops = EffOps(name="child_ops")
        I.ctx.store[(ops.oid, "delta_has_effect_impl")] = EffImpl(self.k)
        dv.m_ops = lambda I2, a, n2: ops
        return dv


class DeltaHasEffectTsb(DeltaKernel):
    name = "ts_delta.cpp:delta_has_effect_tsb"
    fn_name = "delta_has_effect_tsb"
    filter = "delta_has_effect_tsb"
    bounded_fallback = 2
    title = ("delta_has_effect_tsb: a bundle delta has an effect exactly when SOME field's own rule says so - every field is asked "
             "(an empty collection delta validates a fresh field: only the field's rule can know)")

    def setup(self, I):
        ctx = I.ctx
        g = Obj("ghost", "eg")
        self.g = g
        ctx.store[(g.oid, "asked")] = z3.K(I_, z3.BoolVal(False))
        self.has_delta = z3.Bool("delta_has_value")
        self.n = z3.Int("n_fields")
        ctx.assume(self.n >= 0)
        self.E = z3.Array("field_rule_says_effect", I_, B_)
        self.fkind = z3.Array("field_kind", I_, I_)
        self.ftype_null = z3.Array("field_type_null", I_, B_)
        self.schema_null = z3.Bool("out_schema_null")
        k = self
        qf = z3.Int("qf")
        ctx.assume(z3.ForAll([qf], self.fkind[qf] != self.KINDS["TSB"]))      # verified configuration: no bundle nested in the bundle
        out = Obj("TSOutputView", "out")
        out.m_schema = lambda I2, a, n: Ptr(EffSchema(k), k.schema_null)

        class BundleOut(Obj):
            def m_at(self, I2, a, n):
                return EffChild(k, I2.ctx.rv(a[0]))
        out.m_as_bundle = lambda I2, a, n: BundleOut("TSBOutputView", "bundle_out")
        delta = Obj("ValueView", "delta")
        delta.m_has_value = lambda I2, a, n: k.has_delta

        class BundleDelta(Obj):
            def m_size(self, I2, a, n):
                return k.n

            def m_at(self, I2, a, n):
                return WildView(name="field_delta", idx=I2.ctx.rv(a[0]))
        delta.m_as_bundle = lambda I2, a, n: BundleDelta("BundleView", "delta_bundle")
        return None, {"out": out, "delta": delta}

    KINDS = {"TS": 1, "TSS": 2, "TSD": 3, "TSL": 4, "TSB": 5, "TSW": 6, "REF": 7, "SIGNAL": 8}

    def enum_const(self, I, ref):
        nm = ref.get("name")
        if nm in self.KINDS:
            return z3.IntVal(self.KINDS[nm])
        return z3.IntVal(50 + (sum(map(ord, nm or "")) % 40))

    def global_var(self, I, ref, node):
        nm = ref.get("name", "")
        if nm.startswith(("tss_delta_", "tsd_delta_", "tsd_authored")):
            return z3.Int(nm)
        return None

    def bound_sizes(self, I, n):
        I.ctx.assume(self.n <= n)

    def method_handler(self, obj, name, node):
        if isinstance(obj, WildView) and getattr(obj, "m_" + name, None) is None:
            from cxxvc.interp import type_of, is_bool_type, is_int_type

            def anything(I, o, a, n):
                qt = type_of(n)
                if is_bool_type(qt):
                    return I.ctx.fresh("arbitrary_" + name, "bool")
                if is_int_type(qt):
                    v = I.ctx.fresh("arbitrary_" + name)
                    I.ctx.assume(v >= 0)
                    return v
                return WildView(name=name)
            return anything
        return Kernel.method_handler(self, obj, name, node)

    def inv(self, I, ctx):
        i = self.local(I, "index")
        yield "index-range", z3.And(i >= 0, i <= self.n)
        yield "no-field-so-far-has-an-effect,each-was-asked", z3.ForAll([qr], z3.Implies(z3.And(qr >= 0, qr < i), z3.And(
            z3.Not(self.E[qr]), ctx.store[(self.g.oid, "asked")][qr])))

    @property
    def loops(self):
        return {0: LoopSpec(self.inv, lambda I, ctx: [Loc((self.g.oid, "asked"))])}

    def post(self, I, ret):
        some = z3.Exists([qr], z3.And(qr >= 0, qr < self.n, self.E[qr]))
        I.ctx.oblige("ensures.effect<=>the-delta-is-present-and-some-field's-own-rule-reports-an-effect[C20 replaying a recorded bundle tick "
                     "reproduces it: a tick whose only content is an empty collection delta validating a fresh field is not dropped]",
                     ret == z3.And(self.has_delta, some), kind="post-normal")


KERNELS += [DeltaHasEffectTsb]
