"""C09 (and the try_except part of C15): nested scheduling delegation.

graph.cpp: nested_schedule_node_impl (push), propagate_nested_parent_schedule (pull, tail of Nested evaluate_impl);
nested_graph_node.cpp: single_nested_graph_propagate_schedule, _evaluate, _start, _stop;
try_except_node.cpp: try_except_evaluate_impl.

Deleg(child, parent):  child.started and not child.evaluating and child.nst < MAX_DT  =>  eff_parent(parent_index) <= child.nst
"""
import z3

from cxxvc.kernel import Kernel, LoopSpec, Lemma
from cxxvc.interp import Obj, Ptr, Loc, ArrLoc, Gap, MAX_DT, ExcVal, VOID, ThrowEx, Opt
from cxxvc.native import NativeCheck
from cxxvc import extract, models
from contracts.gs import GS, GraphKernel, cache_le, rely_R, qj, INVALID_CURSOR

INF = MAX_DT + 1


class ParentGraph(Obj):
    """the parent graph seen through the contract of GraphValue::schedule_node (C02): eff' = min(eff, w), throws if w < T"""
    cls = "GraphView(parent)"

    def __init__(self, ctx):
        Obj.__init__(self, name="parent_graph")
        self.T = z3.Int("parent_T")
        self.idx = z3.Int("parent_node_index")
        ctx.store[(self.oid, "eff")] = z3.Int("parent_eff0")
        ctx.store[(self.oid, "calls")] = z3.IntVal(0)
        ctx.store[(self.oid, "last_t")] = z3.Int("parent_last_t0")
        ctx.store[(self.oid, "last_i")] = z3.Int("parent_last_i0")
        self.eff0 = ctx.store[(self.oid, "eff")]
        ctx.assume(z3.And(self.T >= 0, self.T <= MAX_DT, self.idx >= 0))

    def get(self, ctx, f):
        return ctx.store[(self.oid, f)]

    def m_evaluation_time(self, I, args, n):
        return self.T

    def m_evaluating(self, I, args, n):
        return I.ctx.fresh("parent_graph_evaluating", "bool")

    def m_schedule_node(self, I, args, n):
        ctx = I.ctx
        i, w = ctx.rv(args[0]), ctx.rv(args[1])
        if ctx.decide(w < self.T, "parent.schedule_node in the past"):
            I.throw_from_callee("GraphValue::schedule_node", cls="std::runtime_error")
        e = self.get(ctx, "eff")
        ctx.write(self.loc("eff"), z3.If(i == self.idx, z3.If(w < e, w, e), e))
        ctx.write(self.loc("calls"), self.get(ctx, "calls") + 1)
        ctx.write(self.loc("last_t"), w)
        ctx.write(self.loc("last_i"), i)
        return VOID


class ParentNode(Obj):
    cls = "NodeView(parent)"

    def __init__(self, pg):
        Obj.__init__(self, name="parent_node")
        self.pg = pg

    def m_graph(self, I, args, n):
        return self.pg

    def m_node_index(self, I, args, n):
        return self.pg.idx

    def m_output(self, I, args, n):
        return Obj("TSOutputView", "node_output")

    def m_valid(self, I, args, n):
        return z3.BoolVal(True)


class FnPtrObj(Obj):
    cls = "fnptr"

    def __init__(self, fn):
        Obj.__init__(self, name="observer_fn")
        self.fn = fn

    def call(self, I, args, n):
        return self.fn(I, args, n)


# ------------------------------------------------------------------ nested_schedule_node_impl


class NestedScheduleNodeImpl(GraphKernel):
    name = "graph.cpp:nested_schedule_node_impl"
    fn_name = "nested_schedule_node_impl"
    filter = "nested_schedule_node_impl"
    nested = True
    targs = None
    property_ids = ("C09", "C13", "C02")
    title = "nested_schedule_node_impl: clamp to the parent's time, wake the parent when the child is idle"

    def setup(self, I):
        ctx = I.ctx
        gs = self.make_gs(I)
        self.pg = ParentGraph(ctx)
        self.pn = ParentNode(self.pg)
        self.i = z3.Int("node_index")
        self.w = z3.Int("when")
        ctx.assume(z3.And(self.i >= 0, self.w >= 0, self.w <= MAX_DT))
        self.obs_null = z3.Bool("observer_null")
        g = Obj("ghost", "ng")
        self.g = g
        ctx.store[(g.oid, "obs_calls")] = z3.IntVal(0)
        ctx.store[(g.oid, "obs_t")] = z3.Int("obs_t0")

        def obs(I2, args, n):
            c = I2.ctx
            c.write(Loc((g.oid, "obs_calls")), c.store[(g.oid, "obs_calls")] + 1)
            c.write(Loc((g.oid, "obs_t")), c.rv(args[1]))
            return VOID
        ctx.store[(gs.st.oid, "child_schedule_observer")] = Ptr(FnPtrObj(obs), self.obs_null)
        ctx.store[(gs.st.oid, "child_schedule_observer_context")] = Ptr(Obj("octx", "observer_context"), z3.BoolVal(False))
        # Deleg holds before the call
        ctx.assume(z3.Implies(z3.And(gs.started0, z3.Not(gs.evaluating0), gs.nst0 < MAX_DT), self.pg.eff0 <= gs.nst0))
        # an idle child's clock is never ahead of its parent's (it is evaluated at the parent's time)
        ctx.assume(gs.T0 <= self.pg.T)
        return None, {"context": self.ctx_token, "graph": gs.view, "node_index": self.i, "when": self.w}

    def method_handler(self, obj, name, node):
        if obj is self.gs.st and name == "parent_node":
            return lambda I, o, a, n: self.pn
        return GraphKernel.method_handler(self, obj, name, node)

    def f_schedule_node_impl(self, I, args, n):
        """contract proved on schedule_node_impl<Nested> (c02_graph_sched.ScheduleNodeImplNested)"""
        ctx = I.ctx
        gs = self.gs
        i, w = ctx.rv(args[2]), ctx.rv(args[3])
        T = gs.get(ctx, "evaluation_time")
        if ctx.decide(i >= gs.n, "schedule_node_impl.out_of_range"):
            I.throw_from_callee("schedule_node_impl", cls="std::out_of_range")
        if ctx.decide(w < T, "schedule_node_impl.past"):
            I.throw_from_callee("schedule_node_impl", cls="std::runtime_error")
        s = gs.sched(ctx)
        nst = gs.get(ctx, "next_scheduled_time")
        repl = z3.Or(s[i] <= T, w < s[i])
        ctx.write(Loc(gs.sched_key), z3.Store(s, i, z3.If(repl, w, s[i])))
        ctx.write(gs.loc("next_scheduled_time"), z3.If(z3.And(repl, w > T, w < nst), w, nst))
        self.w_eff = w
        return VOID

    def post(self, I, ret):
        ctx = I.ctx
        gs, pg = self.gs, self.pg
        wc = z3.If(self.w >= pg.T, self.w, pg.T)
        idle = z3.And(gs.started0, z3.Not(gs.evaluating0))
        nst1 = gs.get(ctx, "next_scheduled_time")
        s0, s1 = gs.sched0, gs.sched(ctx)
        i = self.i
        ctx.oblige("ensures.clamped-to-the-parent-time[C09 never earlier than the parent's current time; C13 retarget "
                   "notifications run in the parent's cycle]",
                   z3.And(s1[i] == z3.If(z3.Or(s0[i] <= gs.T0, wc < s0[i]), wc, s0[i]),
                          z3.ForAll([qj], z3.Implies(qj != i, s1[qj] == s0[qj]))), kind="post-normal")
        ctx.oblige("ensures.idle-child:cache<=when[C09 keyed parents see the child as due]",
                   z3.Implies(idle, nst1 <= wc), kind="post-normal")
        ctx.oblige("ensures.idle-child:parent-woken-once-at-the-clamped-time[C09 push delegation: no wake-up lost]",
                   z3.Implies(idle, z3.And(pg.get(ctx, "calls") == 1, pg.get(ctx, "last_i") == pg.idx,
                                           pg.get(ctx, "last_t") == wc)), kind="post-normal")
        ctx.oblige("ensures.idle-child:observer-told-once-when-present",
                   ctx.store[(self.g.oid, "obs_calls")] == z3.If(z3.And(idle, z3.Not(self.obs_null)), 1, 0),
                   kind="post-normal")
        ctx.oblige("ensures.busy-or-unstarted-child:nothing-pushed[C09 the pull half covers it]",
                   z3.Implies(z3.Not(idle), z3.And(pg.get(ctx, "calls") == 0, ctx.store[(self.g.oid, "obs_calls")] == 0)),
                   kind="post-normal")
        ctx.oblige("ensures.Deleg-preserved[C09 the parent is due no later than the child's earliest work]",
                   z3.Implies(z3.And(idle, nst1 < MAX_DT), pg.get(ctx, "eff") <= nst1), kind="post-normal")

    def post_exc(self, I, exc):
        ctx = I.ctx
        gs = self.gs
        ctx.oblige("raises.only-out_of_range-for-a-bad-index(the clamp makes the time valid)",
                   z3.And(z3.BoolVal(exc.cls == "std::out_of_range"), self.i >= gs.n), kind="post-exceptional")
        ctx.oblige("raises.state-unchanged", z3.And(gs.sched(ctx) == gs.sched0, gs.header_unchanged(ctx, ctx.pre_store),
                                                    self.pg.get(ctx, "calls") == 0), kind="post-exceptional")


# ------------------------------------------------------------------ propagate_nested_parent_schedule


class PropagateNestedParentSchedule(GraphKernel):
    name = "graph.cpp:propagate_nested_parent_schedule"
    fn_name = "propagate_nested_parent_schedule"
    filter = "propagate_nested_parent_schedule"
    nested = True
    targs = None
    property_ids = ("C09", "C02")
    title = "propagate_nested_parent_schedule: parent scheduled at the child's cache when it is finite"

    def setup(self, I):
        ctx = I.ctx
        gs = self.make_gs(I)
        self.pg = ParentGraph(ctx)
        self.pn = ParentNode(self.pg)
        # the child has just been evaluated at the parent's time: its cache is MAX_DT or strictly later
        ctx.assume(z3.Or(gs.nst0 == MAX_DT, gs.nst0 >= self.pg.T))
        return None, {"state": gs.st}

    def method_handler(self, obj, name, node):
        if obj is self.gs.st and name == "parent_node":
            return lambda I, o, a, n: self.pn
        return GraphKernel.method_handler(self, obj, name, node)

    def post(self, I, ret):
        ctx = I.ctx
        gs, pg = self.gs, self.pg
        ctx.oblige("ensures.parent-scheduled-at-child-cache-iff-finite[C09 pull delegation]",
                   z3.If(gs.nst0 < MAX_DT, z3.And(pg.get(ctx, "calls") == 1, pg.get(ctx, "last_i") == pg.idx,
                                                  pg.get(ctx, "last_t") == gs.nst0),
                         pg.get(ctx, "calls") == 0), kind="post-normal")
        ctx.oblige("ensures.Deleg-established", z3.Implies(gs.nst0 < MAX_DT, pg.get(ctx, "eff") <= gs.nst0),
                   kind="post-normal")
        ctx.oblige("ensures.child-untouched", z3.And(gs.sched(ctx) == gs.sched0, gs.header_unchanged(ctx, ctx.pre_store)),
                   kind="post-normal")

    def post_exc(self, I, exc):
        I.ctx.oblige("no-exception", False, kind="post-exceptional")


# ------------------------------------------------------------------ nested_graph_node.cpp / try_except_node.cpp


class ChildGraph(Obj):
    cls = "GraphView(child)"

    def __init__(self, k):
        Obj.__init__(self, name="child_graph")
        self.k = k


class NestedViewObj(Obj):
    cls = "SingleNestedGraphNodeView"


class NodeViewP(Obj):
    cls = "NodeView"


class NestedNodeKernel(Kernel):
    property_ids = ("C09",)
    scope = {"lo": 0, "hi": 3}

    def setup(self, I):
        ctx = I.ctx
        self.pg = ParentGraph(ctx)
        self.T = z3.Int("evaluation_time")
        ctx.assume(z3.And(self.T >= 0, self.T < MAX_DT, self.T == self.pg.T))
        self.view = NodeViewP(name="view")
        self.nested = NestedViewObj(name="nested")
        self.child = ChildGraph(self)
        opts = Obj("options", "options")
        self.opts = opts
        for nm in ("start_child_on_start", "stop_child_on_stop", "propagate_child_schedule"):
            ctx.store[(opts.oid, nm)] = z3.Bool("opt_" + nm)
        spec = Obj("spec", "spec")
        ib = Obj("bindings", "input_bindings")          # observers of the wiring-time binding list answer arbitrarily
        ib.m_empty = lambda I_2, a, n: z3.Bool("no_input_bindings")
        ib.m_size = lambda I_2, a, n: z3.Int("n_input_bindings")
        ctx.store[(spec.oid, "input_bindings")] = ib
        ob = Obj("NestedGraphOutputBinding", "output_binding")
        ctx.store[(ob.oid, "target_path")] = z3.Int("output_target_path")
        ctx.store[(ob.oid, "kind")] = z3.Int("output_binding_kind")
        ctx.store[(spec.oid, "output_binding")] = Opt(z3.Bool("has_output_binding"), ob)
        cx = Obj("context", "node_context")
        ctx.store[(cx.oid, "options")] = opts
        ctx.store[(cx.oid, "spec")] = spec
        self.cx = cx
        g = Obj("ghost", "cg")
        self.g = g
        self.view_started = z3.Bool("view_started")
        self.child_has_value = z3.Bool("child_has_value")
        for nm in ("eval_calls", "start_calls", "stop_calls", "err_writes", "binds", "sampled"):
            ctx.store[(g.oid, nm)] = z3.IntVal(0)
        ctx.store[(g.oid, "eval_t")] = z3.Int("eval_t0")
        ctx.store[(g.oid, "start_t")] = z3.Int("start_t0")
        ctx.store[(g.oid, "child_nst")] = z3.Int("child_nst0")
        ctx.store[(g.oid, "err_msg")] = z3.Int("err_msg0")
        ctx.store[(g.oid, "err_t")] = z3.Int("err_t0")
        ctx.store[(g.oid, "err_failed")] = z3.Int("err_failed0")
        ctx.store[(g.oid, "thrown_msg")] = z3.IntVal(-1)
        ctx.store[(g.oid, "threw")] = z3.BoolVal(False)
        ctx.store[(g.oid, "failed_idx")] = z3.Int("failed_idx0")
        # output alias: the node's forwarding output is flattened to the *current* resolved target of its source when
        # it is bound (nested_bindings.h bind_forwarding_output_tree_to_source, ResolveCurrentTarget); the source's
        # resolved target can change whenever nodes of the child run (an inner pass-through / switch re-points)
        ctx.store[(g.oid, "source_target")] = z3.Int("source_target0")
        ctx.store[(g.oid, "alias")] = z3.Int("alias0")
        self.nst0 = ctx.store[(g.oid, "child_nst")]
        ctx.assume(z3.And(self.nst0 >= 0, self.nst0 <= MAX_DT))
        # a child's cache is MAX_DT (nothing pending / not started) or not before its parent's current time (Deleg + clamp)
        ctx.assume(z3.Or(self.nst0 == MAX_DT, self.nst0 >= self.pg.T))
        return None, self.params(I)

    def gg(self, ctx, nm):
        return ctx.store[(self.g.oid, nm)]

    def gs_(self, I, nm, v):
        I.ctx.write(Loc((self.g.oid, nm)), v)

    def function_handler(self, name, node, callee_node):
        h = getattr(self, "f_" + name, None)
        if h is not None:
            return h
        return Kernel.function_handler(self, name, node, callee_node)

    def f_checked_nested_view(self, I, args, n):
        return self.nested

    def f_walk_forwarding_target_path(self, I, args, n):
        """the node's own output endpoint addressed by the binding: a forwarding leaf (domain of the contract: non-structural
        nested outputs); whether it currently has a target is an observation with an arbitrary answer"""
        o = Obj("TSOutputView", "forwarding_output")
        o.m_forwarding = lambda I_, a, n_: z3.BoolVal(True)
        o.m_forwarding_bound = lambda I_, a, n_: I_.ctx.fresh("forwarding_bound", "bool")
        return o

    def f_single_nested_graph_bind_inputs(self, I, args, n):
        self.gs_(I, "binds", self.gg(I.ctx, "binds") + 1)
        return VOID

    def f_single_nested_graph_bind_output(self, I, args, n):
        self.gs_(I, "binds", self.gg(I.ctx, "binds") + 1)
        self.gs_(I, "alias", self.gg(I.ctx, "source_target"))
        return VOID

    def f_schedule_sampled_input_consumers(self, I, args, n):
        self.gs_(I, "sampled", self.gg(I.ctx, "sampled") + 1)
        return VOID

    def f_single_nested_graph_propagate_schedule(self, I, args, n):
        """contract proved on SingleNestedPropagate below"""
        ctx = I.ctx
        cond = z3.And(ctx.store[(self.opts.oid, "propagate_child_schedule")], self.child_has_value,
                      self.gg(ctx, "child_nst") != MAX_DT)
        if ctx.decide(cond, "propagate"):
            self.pg.m_schedule_node(I, [self.pg.idx, self.gg(ctx, "child_nst")], n)
        return VOID

    def method_handler(self, obj, name, node):
        k = self
        if obj is self.view:
            if name == "started":
                return lambda I, o, a, n: k.view_started
            if name == "as":
                return lambda I, o, a, n: k.nested
        if obj is self.nested:
            if name == "ensure_child_graph":
                return lambda I, o, a, n: VOID
            if name == "context":
                return lambda I, o, a, n: k.cx
            if name == "child_graph":
                return lambda I, o, a, n: k.child
            if name == "child_graph_value":
                return lambda I, o, a, n: Opt_(k.child_has_value)
            if name == "node":
                return lambda I, o, a, n: ParentNode(k.pg)
        if obj is self.child:
            return getattr(self, "c_" + name)
        return Kernel.method_handler(self, obj, name, node)

    # child graph contracts (proved on graph.cpp)
    def c_start(self, I, o, a, n):
        ctx = I.ctx
        self.gs_(I, "start_calls", self.gg(ctx, "start_calls") + 1)
        self.gs_(I, "start_t", ctx.rv(a[0]))
        nst = ctx.fresh("child_nst_after_start")
        ctx.assume(z3.And(nst <= MAX_DT, z3.Or(nst == MAX_DT, nst >= ctx.rv(a[0]))))
        self.gs_(I, "child_nst", nst)
        if ctx.choose(2, "child.start outcome") == 1:
            I.throw_from_callee("child.start")
        return VOID

    def c_stop(self, I, o, a, n):
        self.gs_(I, "stop_calls", self.gg(I.ctx, "stop_calls") + 1)
        return VOID

    def c_evaluate(self, I, o, a, n):
        ctx = I.ctx
        t = ctx.rv(a[0])
        self.gs_(I, "eval_calls", self.gg(ctx, "eval_calls") + 1)
        self.gs_(I, "eval_t", t)
        self.gs_(I, "source_target", ctx.fresh("source_target_after_eval"))
        nst = ctx.fresh("child_nst_after_eval")
        ctx.assume(z3.And(nst <= MAX_DT, z3.Or(nst == MAX_DT, nst > t)))
        self.gs_(I, "child_nst", nst)
        if ctx.choose(2, "child.evaluate outcome") == 1:
            e = ExcVal("unknown", origin="child.evaluate")
            self.gs_(I, "thrown_msg", e.what_term(ctx))
            self.gs_(I, "threw", z3.BoolVal(True))
            ctx.uncaught += 1
            raise ThrowEx(e)
        return ctx.fresh("child_completed", "bool")

    def c_next_scheduled_time(self, I, o, a, n):
        return self.gg(I.ctx, "child_nst")

    # const observers of the child the contracts do not track: arbitrary answers (within their type), no effects
    def c_evaluation_time(self, I, o, a, n):
        return z3.Int("child_evaluation_time")

    def c_started(self, I, o, a, n):
        return z3.Bool("child_started")

    def c_failed_node(self, I, o, a, n):
        fv = NodeViewP(name="failed_node")
        fv.failed_idx = self.gg(I.ctx, "failed_idx")
        return fv


class Opt_(Obj):
    cls = "GraphValue"

    def __init__(self, has):
        Obj.__init__(self, name="child_graph_value")
        self.has = has

    def m_has_value(self, I, args, n):
        return self.has


class SingleNestedPropagate(NestedNodeKernel):
    property_ids = ("C09", "C02")
    name = "nested_graph_node.cpp:single_nested_graph_propagate_schedule"
    tu = "src/hgraph/runtime/nested_graph_node.cpp"
    filter = "single_nested_graph_propagate_schedule"
    fn_name = "single_nested_graph_propagate_schedule"
    title = "single_nested_graph_propagate_schedule: the nested node is scheduled at the child's next time"

    def params(self, I):
        I.ctx.assume(z3.Or(self.nst0 == MAX_DT, self.nst0 >= self.pg.T))
        return {"nested": self.nested}

    def f_single_nested_graph_propagate_schedule(self, I, args, n):
        raise Gap("recursive use of the function under verification")

    def function_handler(self, name, node, callee_node):
        if name == "single_nested_graph_propagate_schedule":
            return None
        return NestedNodeKernel.function_handler(self, name, node, callee_node)

    def post(self, I, ret):
        ctx = I.ctx
        pg = self.pg
        on = z3.And(z3.Bool("opt_propagate_child_schedule"), self.child_has_value, self.nst0 != MAX_DT)
        ctx.oblige("ensures.parent-node-scheduled-at-child-next-time[C09 pull after start / try_except evaluate; C02 a nested child's wake-up is "
                   "honoured at exactly its time, including the start time]",
                   z3.If(on, z3.And(pg.get(ctx, "calls") == 1, pg.get(ctx, "last_i") == pg.idx, pg.get(ctx, "last_t") == self.nst0),
                         pg.get(ctx, "calls") == 0), kind="post-normal")
        ctx.oblige("ensures.Deleg-established", z3.Implies(on, pg.get(ctx, "eff") <= self.nst0), kind="post-normal")

    def post_exc(self, I, exc):
        I.ctx.oblige("no-exception", False, kind="post-exceptional")


class SingleNestedEvaluate(NestedNodeKernel):
    name = "nested_graph_node.cpp:single_nested_graph_evaluate"
    tu = "src/hgraph/runtime/nested_graph_node.cpp"
    filter = "single_nested_graph_evaluate"
    fn_name = "single_nested_graph_evaluate"
    property_ids = ("C09", "C14")
    title = "single_nested_graph_evaluate: the child is evaluated at the parent's evaluation time, only when started"

    def params(self, I):
        return {"view": self.view, "evaluation_time": self.T}

    def post(self, I, ret):
        ctx = I.ctx
        ctx.oblige("ensures.not-started:no-child-evaluation[C14 no evaluation before start / after stop]",
                   z3.Implies(z3.Not(self.view_started), z3.And(self.gg(ctx, "eval_calls") == 0, ret)), kind="post-normal")
        ctx.oblige("ensures.child-evaluated-once-at-the-parent's-time[C09 never earlier than the parent's current time]",
                   z3.Implies(self.view_started, z3.And(self.gg(ctx, "eval_calls") == 1, self.gg(ctx, "eval_t") == self.T)),
                   kind="post-normal")
        ctx.oblige("ensures.boundaries-rebound-before", z3.Implies(self.view_started, self.gg(ctx, "binds") >= 2),
                   kind="post-normal")
        ctx.oblige("ensures.output-alias=the-source's-current-target-after-the-child's-turn[C09 pass-through outputs at any depth; "
                   "C13 a value passed through a nested graph reads the currently referenced target]",
                   z3.Implies(self.view_started, self.gg(ctx, "alias") == self.gg(ctx, "source_target")), kind="post-normal")

    def post_exc(self, I, exc):
        ctx = I.ctx
        ctx.oblige("raises.only-from-the-child(propagates unchanged)", z3.And(
            z3.BoolVal(exc.origin == "child.evaluate"), self.gg(ctx, "eval_calls") == 1, self.gg(ctx, "eval_t") == self.T),
            kind="post-exceptional")


class SingleNestedStart(NestedNodeKernel):
    name = "nested_graph_node.cpp:single_nested_graph_start"
    tu = "src/hgraph/runtime/nested_graph_node.cpp"
    filter = "single_nested_graph_start"
    fn_name = "single_nested_graph_start"
    title = "single_nested_graph_start: child started at the parent's time, then the schedule is pulled up"

    def params(self, I):
        return {"view": self.view, "evaluation_time": self.T}

    def post(self, I, ret):
        ctx = I.ctx
        on = z3.Bool("opt_start_child_on_start")
        pg = self.pg
        ctx.oblige("ensures.child-started-at-the-parent's-time-iff-configured[C09]",
                   z3.If(on, z3.And(self.gg(ctx, "start_calls") == 1, self.gg(ctx, "start_t") == self.T,
                                    self.gg(ctx, "sampled") == 1),
                         self.gg(ctx, "start_calls") == 0), kind="post-normal")
        nst = self.gg(ctx, "child_nst")
        prop = z3.And(z3.Bool("opt_propagate_child_schedule"), self.child_has_value, nst != MAX_DT)
        ctx.oblige("ensures.schedule-pulled-up-after-start[C09 a child driven only by its own schedule still wakes its parent]",
                   z3.If(prop, z3.And(pg.get(ctx, "calls") == 1, pg.get(ctx, "last_t") == nst, pg.get(ctx, "last_i") == pg.idx),
                         pg.get(ctx, "calls") == 0), kind="post-normal")

    def post_exc(self, I, exc):
        I.ctx.oblige("raises.only-from-child-start", z3.BoolVal(exc.origin == "child.start"), kind="post-exceptional")


class SingleNestedStop(NestedNodeKernel):
    name = "nested_graph_node.cpp:single_nested_graph_stop"
    tu = "src/hgraph/runtime/nested_graph_node.cpp"
    filter = "single_nested_graph_stop"
    fn_name = "single_nested_graph_stop"
    property_ids = ("C14",)
    title = "single_nested_graph_stop: a constructed child graph is given stop once when the node stops"

    def params(self, I):
        return {"view": self.view}

    def post(self, I, ret):
        ctx = I.ctx
        on = z3.And(z3.Bool("opt_stop_child_on_stop"), self.child_has_value)
        ctx.oblige("ensures.child-stopped-once-iff-configured-and-constructed[C14 children]",
                   self.gg(ctx, "stop_calls") == z3.If(on, 1, 0), kind="post-normal")


class TryExceptEvaluate(NestedNodeKernel):
    name = "try_except_node.cpp:try_except_evaluate_impl"
    tu = "src/hgraph/runtime/try_except_node.cpp"
    filter = "try_except_evaluate_impl"
    fn_name = "try_except_evaluate_impl"
    property_ids = ("C15", "C09")
    title = "try_except evaluate: a child failure becomes exactly one error write in this cycle; the schedule is still pulled up"

    def params(self, I):
        return {"view": self.view, "evaluation_time": self.T}

    def f_single_nested_graph_evaluate(self, I, args, n):
        """callee contract, proved on SingleNestedEvaluate: not started -> true, nothing happens; otherwise the boundaries are
        re-bound, the child is evaluated once at the given time, its failure propagates unchanged; no schedule is pulled up"""
        ctx = I.ctx
        if not ctx.decide(self.view_started, "callee: view started"):
            return z3.BoolVal(True)
        self.gs_(I, "binds", self.gg(ctx, "binds") + 2)
        self.gs_(I, "alias", self.gg(ctx, "source_target"))
        try:
            r = self.c_evaluate(I, None, [args[1]], n)
        finally:
            pass
        self.gs_(I, "alias", self.gg(ctx, "source_target"))    # re-resolved after the child's turn (normal completion)
        return r

    def f_write_try_except_error(self, I, args, n):
        ctx = I.ctx
        self.gs_(I, "err_writes", self.gg(ctx, "err_writes") + 1)
        self.gs_(I, "err_t", ctx.rv(args[2]))
        self.gs_(I, "err_msg", ctx.rv(args[3]))
        fv = ctx.rv(args[1])
        self.gs_(I, "err_failed", getattr(fv, "failed_idx", z3.IntVal(-7)))
        return VOID

    def post(self, I, ret):
        ctx = I.ctx
        threw = self.gg(ctx, "threw")
        pg = self.pg
        ctx.oblige("ensures.not-started:nothing-happens", z3.Implies(z3.Not(self.view_started), z3.And(
            self.gg(ctx, "eval_calls") == 0, self.gg(ctx, "err_writes") == 0, ret)), kind="post-normal")
        ctx.oblige("ensures.child-evaluated-once-at-the-parent's-time[C09]", z3.Implies(self.view_started, z3.And(
            self.gg(ctx, "eval_calls") == 1, self.gg(ctx, "eval_t") == self.T)), kind="post-normal")
        ctx.oblige("ensures.failure=>exactly-one-error-write-in-this-cycle-with-the-message-and-the-failing-node[C15]",
                   z3.Implies(z3.And(self.view_started, threw), z3.And(
                       self.gg(ctx, "err_writes") == 1, self.gg(ctx, "err_t") == self.T,
                       self.gg(ctx, "err_msg") == self.gg(ctx, "thrown_msg"),
                       self.gg(ctx, "err_failed") == self.gg(ctx, "failed_idx"), ret)), kind="post-normal")
        ctx.oblige("ensures.no-failure=>no-error-write[C15 one error tick only where it happens]",
                   z3.Implies(z3.Not(threw), self.gg(ctx, "err_writes") == 0), kind="post-normal")
        ctx.oblige("ensures.output-alias=the-source's-current-target-after-the-child's-turn[C09 pass-through outputs at any depth; "
                   "C13 a value passed through a nested graph reads the currently referenced target]",
                   z3.Implies(self.view_started, self.gg(ctx, "alias") == self.gg(ctx, "source_target")), kind="post-normal")
        nst = self.gg(ctx, "child_nst")
        prop = z3.And(self.view_started, z3.Bool("opt_propagate_child_schedule"), self.child_has_value, nst != MAX_DT)
        ctx.oblige("ensures.schedule-pulled-up-on-both-paths[C09/C15 the run continues]",
                   z3.If(prop, z3.And(pg.get(ctx, "calls") == 1, pg.get(ctx, "last_t") == nst), pg.get(ctx, "calls") == 0),
                   kind="post-normal")

    def post_exc(self, I, exc):
        I.ctx.oblige("raises.nothing-propagates[C15 the run continues]", False, kind="post-exceptional")


models.install_guards(NestedNodeKernel)

KERNELS = [NestedScheduleNodeImpl, PropagateNestedParentSchedule, SingleNestedPropagate, SingleNestedEvaluate,
           SingleNestedStart, SingleNestedStop, TryExceptEvaluate]



# ------------------------------------------------------------------ bounded stand-in: inlined == nested == nested twice
#
# The kernels above decide the delegation of wake-ups and the output alias function by function; the relational statement
# itself ("the same output stream at the same times") is exercised by running a catalogue of sub-graph bodies in the three
# modes with the inlined run as the oracle.


class NestedEquivalenceEnumeration(NativeCheck):
    kid = "native:c09_nested"
    property_ids = ("C09",)
    source = "native/bounded/c09_nested.cpp"
    title = "a sub-graph gives the same (time, value) stream inlined, nested and nested twice"
    bound_text = ("bounded: 7 sub-graph bodies (pass-through of the whole argument; pass-through of one element of a structural "
                  "argument; a node on that element; a boundary input combined with an internal self-scheduling source; the same "
                  "with a consumer that has no validity requirement; a node that wakes itself a delay after each input tick; a body "
                  "with no boundary input) x 864 timing combinations (boundary inputs a, b: first tick 0-2, step 1/3, 0-3 ticks; "
                  "internal source: first tick 0/1/3, 0 or 2 ticks; delay 1/2) x {inlined, nested, nested twice}; 30 engine cycles "
                  "each; the inlined run is the oracle")
    functions = ("nested_graph_node.cpp: single_nested_graph_start/evaluate/propagate_schedule/bind_inputs/bind_output",
                 "graph.cpp: nested schedule delegation (nested_schedule_node_impl, propagate_nested_parent_schedule)",
                 "graph_wiring.cpp: Wiring::finish_subgraph (boundary bindings, output alias paths)", "subgraph_wiring.h: nested_<>")

    def runs(self, tier):
        return [(["%d" % i, "4"], {}) for i in range(4)]


NATIVE = globals().get("NATIVE", []) + [NestedEquivalenceEnumeration]
