"""executor.cpp kernels (C02, C14, C16, C17): advance_simulation, advance_realtime, the real-time
flag setters (lock discipline / state-before-notify), run_storage<Simulation|RealTime>."""
import z3

from cxxvc.kernel import Kernel, LoopSpec, Lemma
from cxxvc.interp import Obj, Ptr, Loc, ArrLoc, Gap, MAX_DT, ExcVal, VOID, ThrowEx, Closure
from cxxvc import models, extract

TU = "src/hgraph/runtime/executor.cpp"
qj = z3.Int("qj")


class Atomic(Obj):
    """std::atomic_bool: value in the store; other threads may only set it (monotone between our own stores)"""
    cls = "std::atomic_bool"

    def __init__(self, ctx, name, init):
        Obj.__init__(self, name=name)
        ctx.store[(self.oid, "v")] = init
        self.loads = []

    def m_load(self, I, args, n):
        ctx = I.ctx
        cur = ctx.store[(self.oid, "v")]
        nv = ctx.fresh(self.name + "_load", "bool")
        ctx.assume(z3.Implies(cur, nv))  # cross-thread writers only ever set the flag
        ctx.write(self.loc("v"), nv)
        self.loads.append(nv)
        return nv

    def m_store(self, I, args, n):
        I.ctx.write(self.loc("v"), I.ctx.rv(args[0]))
        return VOID

    def m_exchange(self, I, args, n):
        old = self.m_load(I, [], n)
        I.ctx.write(self.loc("v"), I.ctx.rv(args[0]))
        return old


class Mutex(Obj):
    cls = "std::mutex"

    def __init__(self, ctx):
        Obj.__init__(self, name="mutex")
        ctx.store[(self.oid, "held")] = z3.BoolVal(False)

    def held(self, ctx):
        return ctx.store[(self.oid, "held")]


class LockObj(Obj):
    """std::lock_guard / std::unique_lock on a Mutex"""
    cls = "lock"

    def __init__(self, I, mutex, n):
        Obj.__init__(self, name="lock")
        self.mutex = mutex
        I.ctx.oblige("lock.not-recursive@%s" % extract.line_of(n), z3.Not(mutex.held(I.ctx)), kind="lock")
        I.ctx.write(mutex.loc("held"), z3.BoolVal(True))

    def destroy(self, I):
        I.ctx.write(self.mutex.loc("held"), z3.BoolVal(False))

    def m_unlock(self, I, args, n):
        I.ctx.write(self.mutex.loc("held"), z3.BoolVal(False))
        return VOID


class CondVar(Obj):
    cls = "std::condition_variable"

    def __init__(self, k):
        Obj.__init__(self, name="condition")
        self.k = k

    def m_notify_all(self, I, args, n):
        ctx = I.ctx
        k = self.k
        # state-before-notify: the flag this notification is about was written, under the mutex, before
        ctx.oblige("notify.after-the-critical-section[C17 state-before-notify]", z3.Not(k.mutex.held(ctx)), kind="lock",
                   line=extract.line_of(n))
        ctx.write(Loc((k.g.oid, "notifies")), ctx.store[(k.g.oid, "notifies")] + 1)
        return VOID

    def m_wait_for(self, I, args, n):
        """wait_for(lock, duration, pred): releases the mutex while blocked; other threads may set the
        flags; returns pred() evaluated under the re-acquired mutex"""
        ctx = I.ctx
        k = self.k
        dur = ctx.rv(args[1])
        pred = ctx.rv(args[2])
        ctx.oblige("wait.holds-the-mutex[C17 predicate wait under the lock]", k.mutex.held(ctx), kind="lock",
                   line=extract.line_of(n))
        k.on_wait(I, dur, n)
        # cross-thread effects while blocked
        st = k.st
        pup = ctx.store[(st.oid, "push_update_pending")]
        npup = ctx.fresh("pup_after_wait", "bool")
        ctx.assume(z3.Implies(pup, npup))
        ctx.write(Loc((st.oid, "push_update_pending")), npup)
        return I.truth(I.call_value(pred, [], n))


class ExecStorage(Obj):
    cls = "ExecutorStorage"

    def member(self, ctx, name, node):
        k = self.k
        if name in k.lock_protected:
            ctx.oblige("lock-discipline.%s-accessed-under-the-mutex[C16/C17]" % name, k.mutex.held(ctx), kind="lock",
                       line=extract.line_of(node))
        return Obj.member(self, ctx, name, node)


class GraphFacade(Obj):
    """state.graph / graph.view(): the root graph seen through the contracts proved on graph.cpp"""
    cls = "GraphValue"


class ExecKernel(Kernel):
    tu = TU
    realtime = False
    lock_protected = ()
    scope = {"lo": 0, "hi": 4}

    def enum_const(self, I, ref):
        return z3.IntVal(0)

    def global_var(self, I, ref, node):
        if ref.get("name", "").startswith("memory_order_"):
            return z3.IntVal(0)
        return None

    def make_state(self, I):
        ctx = I.ctx
        st = ExecStorage(name="state")
        st.k = self
        self.st = st
        g = Obj("exec_ghost", "xg")
        self.g = g
        for nm in ("notifies", "wall_reads", "waits"):
            ctx.store[(g.oid, nm)] = z3.IntVal(0)
        ctx.store[(g.oid, "last_wall")] = z3.IntVal(-1)
        self.start = z3.Int("start_time")
        self.end = z3.Int("end_time")
        self.T0 = z3.Int("evaluation_time")
        ctx.store[(st.oid, "start_time")] = self.start
        ctx.store[(st.oid, "end_time")] = self.end
        ctx.store[(st.oid, "evaluation_time")] = self.T0
        ctx.store[(st.oid, "cycle_wall_start")] = z3.Int("cycle_wall_start")
        self.cic0 = z3.Int("consecutive_immediate_cycles")
        ctx.store[(st.oid, "consecutive_immediate_cycles")] = self.cic0
        self.icl = z3.Int("immediate_cycle_limit")
        ctx.store[(st.oid, "immediate_cycle_limit")] = self.icl
        ctx.store[(st.oid, "cleanup_on_error")] = z3.Bool("cleanup_on_error")
        self.stop = Atomic(ctx, "stop_requested", z3.Bool("stop_requested0"))
        ctx.store[(st.oid, "stop_requested")] = self.stop
        self.mutex = Mutex(ctx)
        ctx.store[(st.oid, "mutex")] = self.mutex
        self.cond = CondVar(self)
        ctx.store[(st.oid, "condition")] = self.cond
        if self.realtime:
            self.pup0 = z3.Bool("push_update_pending0")
            ctx.store[(st.oid, "push_update_pending")] = self.pup0
            self.slice = z3.Int("max_wait_slice")
            ctx.store[(st.oid, "max_wait_slice")] = self.slice
            ctx.assume(self.slice >= 1)
        else:
            self.pup = Atomic(ctx, "push_update_pending", z3.Bool("push_update_pending0"))
            ctx.store[(st.oid, "push_update_pending")] = self.pup
        ctx.assume(z3.And(self.start >= 1, self.start < self.end, self.end <= MAX_DT - 1, self.T0 >= 0,
                          self.T0 <= MAX_DT, self.cic0 >= 0, self.icl >= 0))
        return st

    def ctor_handler(self, qt, node):
        if qt.startswith("std::unique_lock") or qt.startswith("std::lock_guard") or qt.startswith("unique_lock") \
                or qt.startswith("lock_guard") or qt.startswith("std::scoped_lock"):
            def h(I, args, n):
                m = I.ctx.rv(args[0])
                if isinstance(m, LockObj):
                    return m
                if not isinstance(m, Mutex):
                    raise Gap("lock on %r" % (m,))
                return LockObj(I, m, n)
            return h
        return Kernel.ctor_handler(self, qt, node)

    def function_handler(self, name, node, callee_node):
        h = getattr(self, "f_" + name, None)
        if h is not None:
            return h
        return Kernel.function_handler(self, name, node, callee_node)

    def f_current_wall_time(self, I, args, n):
        ctx = I.ctx
        w = ctx.fresh("wall")
        ctx.assume(z3.And(w >= 0, w <= MAX_DT))
        ctx.write(Loc((self.g.oid, "wall_reads")), ctx.store[(self.g.oid, "wall_reads")] + 1)
        ctx.write(Loc((self.g.oid, "last_wall")), w)
        self.walls.append(w)
        return w

    def on_wait(self, I, dur, n):
        pass

    def method_handler(self, obj, name, node):
        if obj is getattr(self, "st", None) and name == "set_evaluation_time":
            return self.m_set_evaluation_time
        return Kernel.method_handler(self, obj, name, node)

    def m_set_evaluation_time(self, I, o, a, n):
        """contract of <Storage>::set_evaluation_time (verified on the real bodies below)"""
        ctx = I.ctx
        ctx.write(Loc((self.st.oid, "evaluation_time")), ctx.rv(a[0]))
        if not self.realtime:
            ctx.write(Loc((self.st.oid, "cycle_wall_start")), ctx.fresh("cycle_wall"))
        return VOID

    def setup(self, I):
        self.walls = []
        return self.setup2(I)


models.install_guards(ExecKernel)


# ------------------------------------------------------------------ set_evaluation_time


class SetEvalTime(ExecKernel):
    fn_name = "set_evaluation_time"
    property_ids = ("C02", "C17")
    title = "<Storage>::set_evaluation_time: evaluation_time := value"

    def setup2(self, I):
        st = self.make_state(I)
        self.v = z3.Int("value")
        return st, {"value": self.v}

    def method_handler(self, obj, name, node):
        return Kernel.method_handler(self, obj, name, node)

    def post(self, I, ret):
        ctx = I.ctx
        ctx.oblige("ensures.evaluation_time=value", ctx.store[(self.st.oid, "evaluation_time")] == self.v,
                   kind="post-normal")
        ctx.oblige("ensures.window-untouched", z3.And(ctx.store[(self.st.oid, "start_time")] == self.start,
                                                      ctx.store[(self.st.oid, "end_time")] == self.end),
                   kind="post-normal")


class SetEvalTimeSim(SetEvalTime):
    name = "executor.cpp:SimulationExecutorStorage::set_evaluation_time"
    filter = "SimulationExecutorStorage"
    cls = "SimulationExecutorStorage"


class SetEvalTimeRT(SetEvalTime):
    name = "executor.cpp:RealTimeExecutorStorage::set_evaluation_time"
    filter = "RealTimeExecutorStorage"
    cls = "RealTimeExecutorStorage"
    realtime = True


# ------------------------------------------------------------------ advance_simulation


class AdvanceSimulation(ExecKernel):
    name = "executor.cpp:advance_simulation"
    fn_name = "advance_simulation"
    filter = "advance_simulation"
    property_ids = ("C02",)
    title = "advance_simulation: next cycle time = min(push pending ? T + MIN_TD : next, end_time)"

    def setup2(self, I):
        st = self.make_state(I)
        self.next = z3.Int("next_scheduled_time")
        I.ctx.assume(z3.And(self.next >= 0, self.next <= MAX_DT))
        return None, {"state": st, "next_scheduled_time": self.next}

    def post(self, I, ret):
        ctx = I.ctx
        pup = self.pup.loads[-1] if self.pup.loads else z3.Bool("push_update_pending0")
        pend = z3.If(pup, self.T0 + 1, self.next)
        want = z3.If(pend <= self.end, pend, self.end)
        ctx.oblige("ensures.result=min(pending?T+MIN_TD:next,end)[C02 advance to exactly the scheduled time]",
                   ret == want, kind="post-normal")
        ctx.oblige("ensures.evaluation_time=result", ctx.store[(self.st.oid, "evaluation_time")] == ret, kind="post-normal")
        ctx.oblige("ensures.flag-read-once", z3.BoolVal(len(self.pup.loads) == 1), kind="post-normal")
        ctx.oblige("ensures.simulation-time-independent-of-the-wall-clock[C02/C07 schedule is the only input]",
                   ctx.store[(self.g.oid, "wall_reads")] == 0, kind="post-normal")


# ------------------------------------------------------------------ advance_realtime


class AdvanceRealtime(ExecKernel):
    name = "executor.cpp:advance_realtime"
    fn_name = "advance_realtime"
    filter = "advance_realtime"
    property_ids = ("C17", "C16")
    realtime = True
    lock_protected = ("push_update_pending",)
    title = "advance_realtime: r = min(target, max(wall, prev + MIN_TD)), waiting under the mutex in bounded slices"

    def setup2(self, I):
        st = self.make_state(I)
        self.next = z3.Int("next_scheduled_time")
        I.ctx.assume(z3.And(self.next >= 0, self.next <= MAX_DT))
        self.wait_durs = []
        return None, {"state": st, "next_scheduled_time": self.next}

    def global_var(self, I, ref, node):
        if ref.get("name") == "max_immediate_drain_cycles":
            return z3.IntVal(1024)
        return ExecKernel.global_var(self, I, ref, node)

    def target(self):
        return z3.If(self.next <= self.end, self.next, self.end)

    def on_wait(self, I, dur, n):
        ctx = I.ctx
        w = self.local(I, "wall_now")
        ctx.oblige("wait.bounded-by-min(target-wall,max_wait_slice)[C17 bounded slices]",
                   z3.And(dur <= self.target() - w, dur <= self.slice, dur >= 1), kind="callee-pre",
                   line=extract.line_of(n))
        ctx.write(Loc((self.g.oid, "waits")), ctx.store[(self.g.oid, "waits")] + 1)

    def inv(self, I, ctx):
        yield "lock-held", self.mutex.held(ctx)
        yield "wall_now-is-the-last-clock-read,re-read-after-every-wait[C17]", z3.And(
            self.local(I, "wall_now") == ctx.store[(self.g.oid, "last_wall")],
            ctx.store[(self.g.oid, "wall_reads")] == ctx.store[(self.g.oid, "waits")] + 1)
        yield "time-unchanged", ctx.store[(self.st.oid, "evaluation_time")] == self.T0
        yield "window-unchanged", z3.And(ctx.store[(self.st.oid, "end_time")] == self.end,
                                         ctx.store[(self.st.oid, "max_wait_slice")] == self.slice)
        yield "wall-in-range", z3.And(self.local(I, "wall_now") >= 0, self.local(I, "wall_now") <= MAX_DT)

    def frame(self, I, ctx):
        return [Loc((self.st.oid, "push_update_pending")), self.stop.loc("v"), Loc((self.g.oid, "wall_reads")),
                Loc((self.g.oid, "waits")), Loc((self.g.oid, "last_wall"))]

    @property
    def loops(self):
        return {0: LoopSpec(self.inv, self.frame)}

    def post(self, I, ret):
        ctx = I.ctx
        w = self.local(I, "wall_now")
        T = self.T0
        tgt = self.target()
        floor = z3.If(w >= T + 1, w, T + 1)
        r0 = z3.If(tgt <= floor, tgt, floor)
        drained = z3.And(w >= self.end, r0 <= T + 1, self.cic0 >= 1024)
        ctx.oblige("ensures.result=min(target,max(wall,prev+MIN_TD))-or-end-when-draining[C17]",
                   ret == z3.If(drained, self.end, r0), kind="post-normal")
        ctx.oblige("ensures.evaluation_time=result", ctx.store[(self.st.oid, "evaluation_time")] == ret, kind="post-normal")
        ctx.oblige("ensures.never-past-the-earliest-pending-time[C17 a due wake-up is delivered late, not dropped]",
                   z3.Implies(z3.Not(drained), ret <= tgt), kind="post-normal")
        ctx.oblige("ensures.time-strictly-increases-when-target-is-ahead[C17; C16 values are delivered at strictly increasing engine times, "
                   "never overwriting one another]",
                   z3.Implies(tgt > T, ret > T), kind="post-normal")
        ctx.oblige("ensures.never-ahead-of-the-wall-clock-except-the-forced-smallest-step[C17 never before the wall "
                   "clock has reached T]", z3.Implies(z3.Not(drained), ret <= floor), kind="post-normal")
        ctx.oblige("ensures.mutex-released", z3.Not(self.mutex.held(ctx)), kind="post-normal")
        ctx.oblige("ensures.decision-uses-the-latest-clock-read[C17]", w == ctx.store[(self.g.oid, "last_wall")],
                   kind="post-normal")
        woke = z3.Or(ctx.store[(self.st.oid, "push_update_pending")], ctx.store[(self.stop.oid, "v")])
        ctx.oblige("ensures.without-a-wake-request-the-wall-clock-reached-the-target[C17 never early]",
                   z3.Implies(z3.Not(woke), w >= tgt), kind="post-normal")

    def post_exc(self, I, exc):
        I.ctx.oblige("no-exception", False, kind="post-exceptional")


# ------------------------------------------------------------------ real-time flag setters (monitor steps)


class RTSetter(ExecKernel):
    realtime = True
    lock_protected = ("push_update_pending",)
    property_ids = ("C17", "C16")

    def setup2(self, I):
        st = self.make_state(I)
        self.memtok = Obj("memory", "memory")
        return None, {"memory": self.memtok}

    def f_realtime_storage(self, I, args, n):
        return self.st

    def stop_store_check(self, I):
        pass


class RealtimeRequestStop(RTSetter):
    name = "executor.cpp:realtime_request_stop_impl"
    fn_name = "realtime_request_stop_impl"
    filter = "realtime_request_stop_impl"
    title = "request_stop: flag written under the mutex, then notify_all"

    def setup2(self, I):
        r = RTSetter.setup2(self, I)
        k = self
        orig = self.stop.m_store

        def store(I2, args, n):
            I2.ctx.oblige("stop-flag-written-under-the-mutex[C17 a stop requested while waiting is never missed]",
                          k.mutex.held(I2.ctx), kind="lock", line=extract.line_of(n))
            return orig(I2, args, n)
        self.stop.m_store = store
        return r

    def post(self, I, ret):
        ctx = I.ctx
        ctx.oblige("ensures.stop-requested", ctx.store[(self.stop.oid, "v")], kind="post-normal")
        ctx.oblige("ensures.waiters-notified-once-after-the-write", ctx.store[(self.g.oid, "notifies")] == 1,
                   kind="post-normal")
        ctx.oblige("ensures.mutex-released", z3.Not(self.mutex.held(ctx)), kind="post-normal")
        ctx.oblige("ensures.push-flag-untouched", ctx.store[(self.st.oid, "push_update_pending")] == self.pup0,
                   kind="post-normal")


class RealtimeMarkPush(RTSetter):
    name = "executor.cpp:realtime_mark_push_update_pending_impl"
    fn_name = "realtime_mark_push_update_pending_impl"
    filter = "realtime_mark_push_update_pending_impl"
    title = "mark_push_update_pending: flag set under the mutex, then notify_all; no-op after stop"

    def post(self, I, ret):
        ctx = I.ctx
        stopped = self.stop.loads[-1] if self.stop.loads else z3.Bool("stop_requested0")
        pup = ctx.store[(self.st.oid, "push_update_pending")]
        ctx.oblige("ensures.flag-set-unless-stopped[C16 accepted value wakes the loop]",
                   pup == z3.If(stopped, self.pup0, z3.BoolVal(True)), kind="post-normal")
        ctx.oblige("ensures.notified-iff-marked[C17 state-before-notify]",
                   ctx.store[(self.g.oid, "notifies")] == z3.If(stopped, 0, 1), kind="post-normal")
        ctx.oblige("ensures.mutex-released", z3.Not(self.mutex.held(ctx)), kind="post-normal")


class RealtimeResetPush(RTSetter):
    name = "executor.cpp:realtime_reset_push_update_pending_impl"
    fn_name = "realtime_reset_push_update_pending_impl"
    filter = "realtime_reset_push_update_pending_impl"
    title = "reset_push_update_pending: returns the old flag and clears it, atomically under the mutex"

    def post(self, I, ret):
        ctx = I.ctx
        ctx.oblige("ensures.returns-old-flag", ret == self.pup0, kind="post-normal")
        ctx.oblige("ensures.flag-cleared", z3.Not(ctx.store[(self.st.oid, "push_update_pending")]), kind="post-normal")
        ctx.oblige("ensures.mutex-released", z3.Not(self.mutex.held(ctx)), kind="post-normal")


class RealtimeIsPush(RTSetter):
    name = "executor.cpp:realtime_is_push_update_pending_impl"
    fn_name = "realtime_is_push_update_pending_impl"
    filter = "realtime_is_push_update_pending_impl"
    title = "is_push_update_pending: reads the flag under the mutex"

    def post(self, I, ret):
        ctx = I.ctx
        ctx.oblige("ensures.returns-flag", ret == self.pup0, kind="post-normal")
        ctx.oblige("ensures.pure", ctx.store[(self.st.oid, "push_update_pending")] == self.pup0, kind="post-normal")
        ctx.oblige("ensures.mutex-released", z3.Not(self.mutex.held(ctx)), kind="post-normal")


KERNELS = [SetEvalTimeSim, SetEvalTimeRT, AdvanceSimulation, AdvanceRealtime, RealtimeRequestStop, RealtimeMarkPush,
           RealtimeResetPush, RealtimeIsPush]


# =====================================================================================================
# run_storage<Simulation|RealTime>
# =====================================================================================================


class GraphViewFacade(Obj):
    cls = "GraphView(root)"


class AdvanceFn(Obj):
    """the `advance` argument of run_storage, represented by the contract proved on
    advance_simulation / advance_realtime"""
    cls = "advance"

    def __init__(self, k):
        Obj.__init__(self, name="advance")
        self.k = k

    def call(self, I, args, n):
        return self.k.advance_contract(I, I.ctx.rv(args[1]), n)


class Opaque(Obj):
    cls = "opaque"


class RunStorage(ExecKernel):
    fn_name = "run_storage"
    filter = "run_storage"
    property_ids = ("C02", "C14", "C17")
    title = "run_storage: the run loop"
    max_paths = 60000
    inline = ()

    def setup2(self, I):
        ctx = I.ctx
        st = self.make_state(I)
        gf = Obj("graph_facade", "gf")
        self.gf = gf
        ctx.store[(gf.oid, "started")] = z3.BoolVal(False)
        ctx.store[(gf.oid, "nst")] = z3.Int("graph_nst0")
        ctx.store[(gf.oid, "last_eval")] = z3.IntVal(-1)
        ctx.store[(gf.oid, "evals")] = z3.IntVal(0)
        ctx.store[(gf.oid, "start_calls")] = z3.IntVal(0)
        ctx.store[(gf.oid, "stop_storage_calls")] = z3.IntVal(0)
        ctx.store[(gf.oid, "next_top")] = z3.Int("next_top0")
        ctx.store[(gf.oid, "pup_at_advance")] = z3.BoolVal(False)
        ctx.store[(gf.oid, "loaded_since_advance")] = z3.BoolVal(False)
        ctx.store[(gf.oid, "fail_phase")] = z3.IntVal(0)  # 1 validate, 2 start, 3 later
        ctx.store[(gf.oid, "stop_threw")] = z3.BoolVal(False)
        self.view = GraphViewFacade(name="graph_view")
        gv = GraphFacade(name="graph_value")
        ctx.store[(st.oid, "graph")] = gv
        ctx.store[(st.oid, "logger")] = Ptr(Opaque(name="logger"), z3.BoolVal(False))
        ctx.store[(st.oid, "lifecycle_observers")] = Opaque(name="observer_list")
        ctx.store[(st.oid, "before_evaluation_notifications")] = Opaque(name="before_queue")
        ctx.store[(st.oid, "after_evaluation_notifications")] = Opaque(name="after_queue")
        # the executor has not been run into its window yet: start < end is validated by the body
        # (drop the window assumption of make_state for this kernel: validate_times must reject it)
        k = self
        orig_load = self.stop.m_load

        def load(I2, args, n):
            r = orig_load(I2, args, n)
            I2.ctx.write(Loc((k.gf.oid, "loaded_since_advance")), z3.BoolVal(True))
            return r
        self.stop.m_load = load
        return None, {"state": st, "advance": AdvanceFn(self)}

    def make_state(self, I):
        st = ExecKernel.make_state(self, I)
        return st

    def gfget(self, ctx, nm):
        return ctx.store[(self.gf.oid, nm)]

    def gfset(self, I, nm, v):
        I.ctx.write(Loc((self.gf.oid, nm)), v)

    # ---- callees
    def f_validate_times(self, I, args, n):
        ctx = I.ctx
        s, e = ctx.rv(args[0]), ctx.rv(args[1])
        if ctx.decide(e <= s, "validate_times"):
            self.gfset(I, "fail_phase", z3.IntVal(1))
            I.throw_from_callee("validate_times", cls="std::invalid_argument")
        return VOID

    def f_run_executor_phase(self, I, args, n):
        """contract: runs the action exactly once on this thread; its exceptions propagate"""
        return I.call_value(I.ctx.rv(args[2]), [], n)

    def f_stop_storage(self, I, args, n):
        ctx = I.ctx
        self.gfset(I, "stop_storage_calls", self.gfget(ctx, "stop_storage_calls") + 1)
        self.gfset(I, "started", z3.BoolVal(False))
        if ctx.choose(2, "stop_storage outcome") == 1:
            self.gfset(I, "stop_threw", z3.BoolVal(True))
            I.throw_from_callee("stop_storage")
        return VOID

    def f_drain_evaluation_notifications(self, I, args, n):
        if I.ctx.choose(2, "drain outcome") == 1:
            self.gfset(I, "fail_phase", z3.IntVal(3))
            I.throw_from_callee("drain_evaluation_notifications")
        return VOID

    def f_throw_recursive_evaluation_error(self, I, args, n):
        self.gfset(I, "fail_phase", z3.IntVal(3))
        I.throw_from_callee("throw_recursive_evaluation_error", cls="hgraph::RecursiveEvaluationError")

    def f_idle_run_continues(self, I, args, n):
        if self.realtime:
            return z3.BoolVal(True)
        return self.pup.m_load(I, [], n)

    def ctor_handler(self, qt, node):
        if "ImmediateCycleRecorder" in qt:
            return lambda I, a, n: Opaque(name="recorder")
        return ExecKernel.ctor_handler(self, qt, node)

    def method_handler(self, obj, name, node):
        if isinstance(obj, GraphFacade) and name == "view":
            return lambda I, o, a, n: self.view
        if isinstance(obj, GraphViewFacade):
            return getattr(self, "g_" + name)
        if isinstance(obj, Opaque):
            return lambda I, o, a, n: VOID
        return ExecKernel.method_handler(self, obj, name, node)

    def g_start(self, I, o, a, n):
        ctx = I.ctx
        t = ctx.rv(a[0])
        self.gfset(I, "start_calls", self.gfget(ctx, "start_calls") + 1)
        ctx.oblige("callee-pre.graph-started-at-start_time[C02 never earlier than the start time]", t == self.start,
                   kind="callee-pre", line=extract.line_of(n))
        if ctx.choose(2, "graph.start outcome") == 1:
            # start_impl raises: rollback done, graph not started
            self.gfset(I, "fail_phase", z3.IntVal(2))
            I.throw_from_callee("GraphView::start")
        self.gfset(I, "started", z3.BoolVal(True))
        # a stop may be requested while the graph starts (a start hook, another thread): the flag can only be raised
        self.stop_in_start = z3.Bool("stop_requested_during_start")
        ctx.write(Loc((self.stop.oid, "v")), z3.Or(ctx.store[(self.stop.oid, "v")], self.stop_in_start))
        nst = ctx.fresh("nst_after_start")
        ctx.assume(z3.And(nst <= MAX_DT, z3.Or(nst == MAX_DT, nst >= t)))  # start_impl ensures
        self.gfset(I, "nst", nst)
        return VOID

    def g_next_scheduled_time(self, I, o, a, n):
        ctx = I.ctx
        v = self.gfget(ctx, "nst")
        self.gfset(I, "next_top", v)
        return v

    def g_evaluate(self, I, o, a, n):
        ctx = I.ctx
        t = ctx.rv(a[0])
        le = self.gfget(ctx, "last_eval")
        ctx.oblige("callee-pre.evaluate:graph-started[C14 no evaluation before start/after stop]",
                   z3.And(self.gfget(ctx, "started"), self.gfget(ctx, "stop_storage_calls") == 0), kind="callee-pre",
                   line=extract.line_of(n))
        ctx.oblige("callee-pre.evaluate:time-strictly-increases[C02/C17]", t > le, kind="callee-pre",
                   line=extract.line_of(n))
        ctx.oblige("callee-pre.evaluate:within-[start,end)[C02 never earlier than start, never reaches end]",
                   z3.And(t >= self.start, t < self.end), kind="callee-pre", line=extract.line_of(n))
        self.evaluate_time_obligation(I, t, n)
        self.gfset(I, "last_eval", t)
        self.gfset(I, "evals", self.gfget(ctx, "evals") + 1)
        nst = ctx.fresh("nst_after_eval")
        ctx.assume(z3.And(nst <= MAX_DT, z3.Or(nst == MAX_DT, nst > t)))  # evaluate_impl ensures (completed cycle)
        self.gfset(I, "nst", nst)
        if ctx.choose(2, "graph.evaluate outcome") == 1:
            self.gfset(I, "fail_phase", z3.IntVal(3))
            I.throw_from_callee("GraphView::evaluate")
        return ctx.fresh("completed", "bool")

    def inv(self, I, ctx):
        T = ctx.store[(self.st.oid, "evaluation_time")]
        le, nst = self.gfget(ctx, "last_eval"), self.gfget(ctx, "nst")
        yield "graph-started-not-stopped", z3.And(self.gfget(ctx, "started"), self.gfget(ctx, "stop_storage_calls") == 0,
                                                  self.gfget(ctx, "start_calls") == 1)
        yield "window", z3.And(ctx.store[(self.st.oid, "start_time")] == self.start,
                               ctx.store[(self.st.oid, "end_time")] == self.end, self.start < self.end)
        yield "executor-time-tracks-last-cycle", z3.And(T >= self.start, T >= le, T <= MAX_DT)
        yield "last-cycle-inside-window", z3.And(le >= -1, le < self.end)
        yield "graph-cache-ahead-of-last-cycle[C02 strictly increasing]", z3.And(
            nst <= MAX_DT, z3.Or(nst == MAX_DT, z3.And(nst > le, nst >= self.start)))
        yield "counter-nonneg", ctx.store[(self.st.oid, "consecutive_immediate_cycles")] >= 0
        yield "no-failure", self.gfget(ctx, "fail_phase") == 0
        if getattr(self, "stop_in_start", None) is not None:
            yield "a-stop-requested-during-start-stays-requested,and-nothing-was-evaluated", z3.Implies(
                self.stop_in_start, z3.And(ctx.store[(self.stop.oid, "v")], self.gfget(ctx, "evals") == 0))
        for x in self.extra_inv(I, ctx):
            yield x

    def extra_inv(self, I, ctx):
        return []

    def frame(self, I, ctx):
        st = self.st
        fr = [Loc((self.gf.oid, nm)) for nm in ("nst", "last_eval", "evals", "next_top", "pup_at_advance",
                                                  "loaded_since_advance", "fail_phase")]
        fr += [Loc((st.oid, "evaluation_time")), Loc((st.oid, "consecutive_immediate_cycles")), self.stop.loc("v"),
               Loc((st.oid, "cycle_wall_start")), Loc((self.g.oid, "wall_reads")), Loc((self.g.oid, "last_wall"))]
        fr += self.extra_frame(I, ctx)
        return fr

    def extra_frame(self, I, ctx):
        return []

    @property
    def loops(self):
        return {0: LoopSpec(self.inv, self.frame)}

    def post(self, I, ret):
        ctx = I.ctx
        ctx.oblige("ensures.graph-stopped-exactly-once-at-the-end-of-the-run[C14 no later than the return of the run]",
                   z3.And(self.gfget(ctx, "stop_storage_calls") == 1, z3.Not(self.gfget(ctx, "started")),
                          self.gfget(ctx, "start_calls") == 1), kind="post-normal")
        ctx.oblige("ensures.window-was-valid", self.start < self.end, kind="post-normal")
        if getattr(self, "stop_in_start", None) is not None:
            ctx.oblige("ensures.a-stop-requested-while-the-graph-starts-is-honoured:no-evaluation-follows[C17 a requested stop ends the "
                       "run; C14 run returns with the graph stopped]", z3.Implies(self.stop_in_start, self.gfget(ctx, "evals") == 0),
                       kind="post-normal")
        ctx.oblige("ensures.a-stop-failure-at-the-end-of-a-clean-run-reaches-the-caller[C14 the original error reaches the caller]",
                   z3.Not(self.gfget(ctx, "stop_threw")), kind="post-normal")

    def post_exc(self, I, exc):
        ctx = I.ctx
        fp = self.gfget(ctx, "fail_phase")
        stops = self.gfget(ctx, "stop_storage_calls")
        coe = ctx.store[(self.st.oid, "cleanup_on_error")]
        ctx.oblige("raises.bad-window:nothing-started", z3.Implies(fp == 1, z3.And(
            self.gfget(ctx, "start_calls") == 0, stops == 0, z3.BoolVal(exc.cls == "std::invalid_argument"),
            self.end <= self.start)), kind="post-exceptional")
        ctx.oblige("raises.failed-start:graph-not-started-and-no-second-stop[C14 a failed start already rolled back]",
                   z3.Implies(fp == 2, z3.And(z3.Not(self.gfget(ctx, "started")), stops == 0)), kind="post-exceptional")
        ctx.oblige("raises.later-failure:graph-stopped-once-on-unwind-when-cleanup_on_error[C14]",
                   z3.Implies(z3.And(fp != 1, fp != 2, coe), z3.And(stops == 1, z3.Not(self.gfget(ctx, "started")))),
                   kind="post-exceptional")
        ctx.oblige("raises.later-failure:without-cleanup_on_error-the-graph-stays-started-for-the-destructor[C14 "
                   "release of the executor]",
                   z3.Implies(z3.And(fp != 1, fp != 2, z3.Not(coe)),
                              z3.Or(z3.And(stops == 0, self.gfget(ctx, "started")), stops == 1)),
                   kind="post-exceptional")


class RunStorageSim(RunStorage):
    name = "executor.cpp:run_storage<Simulation>"
    targs = ["SimulationExecutorStorage"]

    def advance_contract(self, I, nxt, n):
        """advance_simulation's proved postcondition"""
        ctx = I.ctx
        pup = self.pup.m_load(I, [], n)
        T = ctx.store[(self.st.oid, "evaluation_time")]
        pend = z3.If(pup, T + 1, nxt)
        r = z3.If(pend <= self.end, pend, self.end)
        self.m_set_evaluation_time(I, self.st, [r], n)
        self.gfset(I, "pup_at_advance", pup)
        self.gfset(I, "loaded_since_advance", z3.BoolVal(False))
        return r

    def evaluate_time_obligation(self, I, t, n):
        ctx = I.ctx
        ctx.oblige("callee-pre.evaluate:at-exactly-the-scheduled-time-or-a-pending-push[C02 never dropped, coalesced, "
                   "early or late; no cycle nothing asked for]",
                   z3.Or(t == self.gfget(ctx, "next_top"), self.gfget(ctx, "pup_at_advance")), kind="callee-pre",
                   line=extract.line_of(n))

    def extra_frame(self, I, ctx):
        return [self.pup.loc("v")]


class RunStorageRT(RunStorage):
    name = "executor.cpp:run_storage<RealTime>"
    targs = ["RealTimeExecutorStorage"]
    realtime = True

    def advance_contract(self, I, nxt, n):
        """advance_realtime's proved postcondition (r = min(target, max(wall, prev + MIN_TD)) or end when draining);
        while it waits other threads may request a stop or mark a push"""
        ctx = I.ctx
        T = ctx.store[(self.st.oid, "evaluation_time")]
        w = ctx.fresh("wall_at_advance")
        ctx.assume(z3.And(w >= 0, w <= MAX_DT))
        tgt = z3.If(nxt <= self.end, nxt, self.end)
        floor = z3.If(w >= T + 1, w, T + 1)
        r0 = z3.If(tgt <= floor, tgt, floor)
        cic = ctx.store[(self.st.oid, "consecutive_immediate_cycles")]
        drained = z3.And(w >= self.end, r0 <= T + 1, cic >= 1024)
        r = z3.If(drained, self.end, r0)
        ctx.write(Loc((self.st.oid, "evaluation_time")), r)
        self.stop.m_load(I, [], n)  # cross-thread: a stop may have been requested meanwhile
        pup = ctx.store[(self.st.oid, "push_update_pending")]
        npup = ctx.fresh("pup_after_advance", "bool")
        ctx.assume(z3.Implies(pup, npup))
        ctx.write(Loc((self.st.oid, "push_update_pending")), npup)
        self.gfset(I, "loaded_since_advance", z3.BoolVal(False))
        return r

    def evaluate_time_obligation(self, I, t, n):
        ctx = I.ctx
        ctx.oblige("callee-pre.evaluate:never-past-the-earliest-scheduled-time[C17 delivered late rather than dropped]",
                   t <= self.gfget(ctx, "next_top"), kind="callee-pre", line=extract.line_of(n))
        ctx.oblige("callee-pre.evaluate:stop-flag-re-read-after-the-wait-and-clear[C17 a stop requested during the wait "
                   "ends the run before another evaluation]",
                   z3.And(self.gfget(ctx, "loaded_since_advance"), z3.Not(ctx.store[(self.stop.oid, "v")])),
                   kind="callee-pre", line=extract.line_of(n))

    def extra_frame(self, I, ctx):
        return [Loc((self.st.oid, "push_update_pending"))]


KERNELS += [RunStorageSim, RunStorageRT]
