"""C05 -- dictionary (TSD) slot storage: delta coherent with the published value set.

TSDSlotStorage (ts_data_slot_ops.cpp).  On top of the keyed slot view of c05_collections (constructed / live / key / cap,
assumed KeySlotStore contract, proved separately in c05_keystore) a dictionary tracks, per slot,
  published[s]  (value_published_)  the element counts as a member of the dictionary *value*: key live and child holds a value
  modified[s]   (modified_)         the element's value ticked in the current delta window
  added / removed                   the structural delta of the current window, over `published`
  ghost base[s]                     published set when the current delta window opened
  child state (opaque element storage behind the ops table): chas[s] = has_current_value, clmt[s] = last_modified_time

DInv: out-of-range slots carry nothing; live => constructed; published => live; modified => published;
      added & removed disjoint; added => published & not base; removed => not published & base & constructed;
      published == (base \\ removed) | added;  one constructed slot per key.
Every mutating operation is specified over the WHOLE view (every other slot unchanged) from the property's sentences:
value = previous value with the delta applied, added present, removed absent and previously present, cancelling
mutations leave no trace, a removed element stays readable for the cycle.
"""
import z3

from cxxvc.kernel import Kernel, LoopSpec
from cxxvc.interp import Obj, Ptr, Loc, Gap, MAX_DT, VOID, DEFAULT_ARG
from cxxvc import extract, models
from contracts.c05_collections import BitSet, KeyStore, KeyView, NPOS, TU, I_, B_, qs, qr


class ChildMem(Obj):
    """values_.value_memory(slot): the element storage of one slot"""
    cls = "child_memory"

    def __init__(self, slot):
        Obj.__init__(self, name="child_memory")
        self.slot = slot


class OpsFn:
    """a function pointer of the element's ops table, through its (trusted) meaning on the child state"""

    def __init__(self, k, what):
        self.k = k
        self.what = what

    def call(self, I, args, n):
        ctx = I.ctx
        mem = ctx.rv(args[1])
        if not isinstance(mem, ChildMem):
            raise Gap("ops-table call on %r" % (mem,))
        g = self.k.g
        if self.what == "has":
            return ctx.store[(g.oid, "chas")][mem.slot]
        t = Obj("TSDataTracking", "child_tracking")
        ctx.store[(t.oid, "last_modified_time")] = ctx.store[(g.oid, "clmt")][mem.slot]
        return Ptr(t, z3.BoolVal(False))


class ElemType(Obj):
    cls = "TSRoleTypeRef"

    def __init__(self, k):
        Obj.__init__(self, name="element_type_")
        self.k = k
        self.ops = Obj("TSDataOps", "element_ops")

    def install(self, ctx):
        ctx.store[(self.ops.oid, "has_current_value_impl")] = OpsFn(self.k, "has")
        ctx.store[(self.ops.oid, "tracking_impl")] = OpsFn(self.k, "trk")
        ctx.store[(self.ops.oid, "context")] = z3.IntVal(0)

    def m_ops_ref(self, I, args, n):
        return self.ops


class Values(Obj):
    cls = "KeyMirroredValueSlotStore"

    def m_value_memory(self, I, args, n):
        return ChildMem(I.ctx.rv(args[0]))


class KeySetTracking(Obj):
    """key_set_tracking_.record_modified(t): the key-set projection's own modification clock (C04 contract of record_modified)"""
    cls = "TSDataTracking"

    def __init__(self, ctx):
        Obj.__init__(self, name="key_set_tracking_")
        ctx.store[(self.oid, "last_modified_time")] = z3.Int("key_set_lmt0")

    def m_record_modified(self, I, args, n):
        ctx = I.ctx
        t = ctx.rv(args[0])
        old = ctx.store[(self.oid, "last_modified_time")]
        ctx.write(self.loc("last_modified_time"), z3.If(t > old, t, old))
        return t > old


class DKeyStore(KeyStore):
    """KeySlotStore as used by the dictionary: the value store mirrors it (a newly constructed slot holds a fresh,
    value-less child; a resurrected pending slot keeps its child's state; erase_pending destroys the children)"""

    def insert(self, I, key):
        ctx = I.ctx
        res = KeyStore.insert(self, I, key)
        cons = ctx.store[(res.oid, "constructed")]
        if z3.is_true(cons):
            s = ctx.store[(res.oid, "slot")]
            self.w(I, "chas", z3.Store(self.g(ctx, "chas"), s, False))
            self.w(I, "clmt", z3.Store(self.g(ctx, "clmt"), s, 0))
        return res

    def m_pending_erase_slots(self, I, args, n):
        ctx = I.ctx
        v = models.Vec(ctx, name="pending_erase_slots", length=ctx.fresh("pending_len"), data=ctx.fresh("pending_data", z3.ArraySort(I_, I_)))
        ctx.assume(v.length(ctx) >= 0)
        # completeness of the pending list (KeySlotStore invariant PendInv, proved in c05_keystore): every pending slot is listed
        live, con, cap = self.g(ctx, "live"), self.g(ctx, "constructed"), self.g(ctx, "cap")
        qi = z3.Int("qi")
        ctx.assume(z3.ForAll([qs], z3.Implies(z3.And(qs >= 0, qs < cap, con[qs], z3.Not(live[qs])),
                                             z3.Exists([qi], z3.And(qi >= 0, qi < v.length(ctx), v.data(ctx)[qi] == qs)))))
        self.k.pending_vec = v
        return v

    def m_slot_pending_erase(self, I, args, n):
        ctx = I.ctx
        s = ctx.rv(args[0])
        return z3.And(s >= 0, s < self.g(ctx, "cap"), self.g(ctx, "constructed")[s], z3.Not(self.g(ctx, "live")[s]))

    def m_erase_pending(self, I, args, n):
        """frees every pending-erase slot; ghost: a new delta window opens here, base := published"""
        ctx = I.ctx
        self.w(I, "constructed", self.g(ctx, "live"))
        self.w(I, "base", self.k.pub.bits(ctx))
        self.w(I, "rolls", self.g(ctx, "rolls") + 1)
        return VOID


class BindingRef(Obj):
    cls = "ValueTypeRef"

    def __init__(self, same):
        Obj.__init__(self, name="key_binding")
        self.same = same

    def op(self, I, op, rest, n, a0):
        if op == "==":
            return self.same
        if op == "!=":
            return z3.Not(self.same)
        return NotImplemented


class MovableKeyView(KeyView):
    def __init__(self, kid, same):
        KeyView.__init__(self, kid)
        self.same = same

    def m_binding(self, I, args, n):
        return BindingRef(self.same)

    def m_data(self, I, args, n):
        return self


class TSDKernel(Kernel):
    tu = TU
    filter = "TSDSlotStorage"
    cls = "TSDSlotStorage"
    property_ids = ("C05",)
    scope = {"lo": 0, "hi": 3}
    inline = ("prepare_delta", "ensure_delta_capacity", "slot_added", "slot_removed", "slot_modified", "slot_value_published",
              "validate_mutation_time", "mutation_result", "reset_delta", "child_valid", "child_has_current_value",
              "restore_modified_mark")

    def method_handler(self, obj, name, node):
        if name == "slot_live" and getattr(obj, "cls", None) == "TSDSlotStorage":
            # TSDSlotStorage::slot_live forwards to keys_.slot_live (one line); not executed in place because the key store
            # model has a method of the same name
            return lambda I, o, args, n: I.ctx.store[(self.th.oid, "keys_")].m_slot_live(I, args, n)
        return Kernel.method_handler(self, obj, name, node)

    def setup(self, I):
        ctx = I.ctx
        th = Obj("TSDSlotStorage", "this_storage")
        self.th = th
        g = Obj("ghost", "slg")
        self.g = g
        self.live0 = z3.Array("live0", I_, B_)
        self.con0 = z3.Array("constructed0", I_, B_)
        self.key0 = z3.Array("key0", I_, I_)
        self.base0 = z3.Array("base0", I_, B_)
        self.chas0 = z3.Array("child_has_value0", I_, B_)
        self.clmt0 = z3.Array("child_lmt0", I_, I_)
        self.cap0 = z3.Int("cap0")
        for nm, v in (("live", self.live0), ("constructed", self.con0), ("key", self.key0), ("base", self.base0),
                      ("cap", self.cap0), ("rolls", z3.IntVal(0)), ("chas", self.chas0), ("clmt", self.clmt0)):
            ctx.store[(g.oid, nm)] = v
        self.added = BitSet(ctx, "added")
        self.removed = BitSet(ctx, "removed")
        self.mod = BitSet(ctx, "modified")
        self.pub = BitSet(ctx, "published")
        self.add0, self.rem0, self.mod0, self.pub0 = (self.added.bits(ctx), self.removed.bits(ctx), self.mod.bits(ctx),
                                                      self.pub.bits(ctx))
        ctx.store[(th.oid, "added_")] = self.added
        ctx.store[(th.oid, "removed_")] = self.removed
        ctx.store[(th.oid, "modified_")] = self.mod
        ctx.store[(th.oid, "value_published_")] = self.pub
        ctx.store[(th.oid, "keys_")] = DKeyStore(self)
        ctx.store[(th.oid, "values_")] = Values("KeyMirroredValueSlotStore", "values_")
        et = ElemType(self)
        et.install(ctx)
        ctx.store[(th.oid, "element_type_")] = et
        self.kst = KeySetTracking(ctx)
        self.kslmt0 = ctx.store[(self.kst.oid, "last_modified_time")]
        ctx.store[(th.oid, "key_set_tracking_")] = self.kst
        self.dt0 = z3.Int("delta_time0")
        ctx.store[(th.oid, "delta_time_")] = self.dt0
        self.lmt = z3.Int("tracking_lmt")
        trk = Obj("TSDataTracking", "tracking_")
        ctx.store[(trk.oid, "last_modified_time")] = self.lmt
        ctx.store[(th.oid, "tracking_")] = trk
        ctx.store[(th.oid, "key_binding_")] = Obj("ValueTypeRef", "key_binding_")
        self.t = z3.Int("modified_time")
        self.keyid = z3.Int("key")
        ctx.assume(z3.And(self.t >= 0, self.t <= MAX_DT, self.dt0 >= 0, self.dt0 <= MAX_DT, self.cap0 >= 0, NPOS > self.cap0,
                          self.kslmt0 >= 0))
        ctx.assume(z3.ForAll([qs], self.clmt0[qs] >= 0))
        ctx.assume(self.d_inv(self.live0, self.con0, self.key0, self.base0, self.add0, self.rem0, self.mod0, self.pub0, self.cap0))
        for b in (self.added, self.removed, self.mod, self.pub):
            ctx.assume(b.size(ctx) == self.cap0)
        return th, self.params(I)

    def d_inv(self, live, con, key, base, add, rem, mod, pub, cap):
        rng = z3.And(qs >= 0, qs < cap)
        return z3.And(
            z3.ForAll([qs], z3.Implies(z3.Not(rng), z3.And(z3.Not(live[qs]), z3.Not(con[qs]), z3.Not(add[qs]), z3.Not(rem[qs]),
                                                           z3.Not(base[qs]), z3.Not(mod[qs]), z3.Not(pub[qs])))),
            z3.ForAll([qs], z3.Implies(live[qs], con[qs])),
            z3.ForAll([qs], z3.Implies(pub[qs], live[qs])),
            z3.ForAll([qs], z3.Implies(mod[qs], pub[qs])),
            z3.ForAll([qs], z3.Not(z3.And(add[qs], rem[qs]))),
            z3.ForAll([qs], z3.Implies(add[qs], z3.And(pub[qs], z3.Not(base[qs])))),
            z3.ForAll([qs], z3.Implies(rem[qs], z3.And(z3.Not(pub[qs]), base[qs], con[qs]))),
            z3.ForAll([qs], pub[qs] == z3.Or(z3.And(base[qs], z3.Not(rem[qs])), add[qs])),
            z3.ForAll([qs, qr], z3.Implies(z3.And(con[qs], con[qr], key[qs] == key[qr]), qs == qr)))

    def cur(self, ctx):
        g = self.g
        return (ctx.store[(g.oid, "live")], ctx.store[(g.oid, "constructed")], ctx.store[(g.oid, "key")],
                ctx.store[(g.oid, "base")], self.added.bits(ctx), self.removed.bits(ctx), self.mod.bits(ctx), self.pub.bits(ctx),
                ctx.store[(g.oid, "cap")])

    def child(self, ctx):
        return ctx.store[(self.g.oid, "chas")], ctx.store[(self.g.oid, "clmt")]

    def rolled(self):
        """the state after the window roll that a strictly newer time causes"""
        roll = self.t > self.dt0
        con1 = lambda s: z3.If(roll, self.live0[s], self.con0[s])
        add1 = lambda s: z3.If(roll, z3.BoolVal(False), self.add0[s])
        rem1 = lambda s: z3.If(roll, z3.BoolVal(False), self.rem0[s])
        mod1 = lambda s: z3.If(roll, z3.BoolVal(False), self.mod0[s])
        pending0 = lambda s: z3.And(self.con0[s], z3.Not(self.live0[s]))
        chas1 = lambda s: z3.If(z3.And(roll, pending0(s)), z3.BoolVal(False), self.chas0[s])
        clmt1 = lambda s: z3.If(z3.And(roll, pending0(s)), z3.IntVal(0), self.clmt0[s])
        return roll, con1, add1, rem1, mod1, chas1, clmt1

    def ctor_handler(self, qt, node):
        if qt.endswith("SlotTSDataMutationResult"):
            def mk(I, args, n):
                a = [I.ctx.rv(x) for x in args]
                if len(a) == 1 and isinstance(a[0], Obj) and a[0].cls == "SlotTSDataMutationResult":
                    return a[0]
                o = Obj("SlotTSDataMutationResult", "mutation_result")
                d = [NPOS, z3.BoolVal(False), z3.BoolVal(False)]
                for i, x in enumerate(a):
                    if x is not DEFAULT_ARG:
                        d[i] = x
                I.ctx.store[(o.oid, "slot")], I.ctx.store[(o.oid, "changed")], I.ctx.store[(o.oid, "constructed")] = d
                return o
            return mk
        if qt.endswith("TSDataView"):
            def mkv(I, args, n):
                a = [I.ctx.rv(x) for x in args]
                if len(a) == 1 and isinstance(a[0], Obj) and a[0].cls == "TSDataView":
                    return a[0]
                o = Obj("TSDataView", "child_view")
                o.mem = a[1] if len(a) > 1 else None
                return o
            return mkv
        return Kernel.ctor_handler(self, qt, node)

    def global_var(self, I, ref, node):
        if ref.get("name") in ("npos", "TS_DATA_NO_CHILD_ID"):
            return NPOS
        return None

    # the two tree walkers of base_view.cpp, through their effect on the child's tracking state
    def f_stop_tree(self, I, args, n):
        """stop_owned_ts_data_tree: ends the child's output links; value and modification state are kept (the removed
        element stays readable for the cycle)"""
        return VOID

    def f_invalidate_tree(self, I, args, n):
        ctx = I.ctx
        v = ctx.rv(args[0])
        mem = getattr(v, "mem", None)
        if not isinstance(mem, ChildMem):
            raise Gap("invalidate_owned_ts_data_tree on %r" % (v,))
        g = self.g
        ctx.write(Loc((g.oid, "chas")), z3.Store(ctx.store[(g.oid, "chas")], mem.slot, False))
        ctx.write(Loc((g.oid, "clmt")), z3.Store(ctx.store[(g.oid, "clmt")], mem.slot, 0))
        return VOID

    def function_handler(self, name, node, callee_node):
        if name == "stop_owned_ts_data_tree":
            return self.f_stop_tree
        if name == "invalidate_owned_ts_data_tree":
            return self.f_invalidate_tree
        return Kernel.function_handler(self, name, node, callee_node)

    # prepare_delta's loop over the pending-erase list: children of pending slots are invalidated, nothing else moves
    def _pd_inv(self, I, ctx):
        g = self.g
        e = ctx.loop_entry["prepare_delta:0"]
        chas_e, clmt_e = e[(g.oid, "chas")], e[(g.oid, "clmt")]
        chas, clmt = self.child(ctx)
        live, con = ctx.store[(g.oid, "live")], ctx.store[(g.oid, "constructed")]
        pos = self.range_pos(I)
        v = self.pending_vec
        pend = lambda s: z3.And(s >= 0, s < ctx.store[(g.oid, "cap")], con[s], z3.Not(live[s]))
        qi = z3.Int("qi")
        yield "position-in-range", z3.And(pos >= 0, pos <= v.length(ctx))
        yield "live-children-untouched", z3.ForAll([qs], z3.Implies(z3.Not(pend(qs)), z3.And(chas[qs] == chas_e[qs], clmt[qs] == clmt_e[qs])))
        yield "visited-pending-children-invalidated", z3.ForAll([qi], z3.Implies(
            z3.And(qi >= 0, qi < pos, pend(v.data(ctx)[qi])), z3.And(z3.Not(chas[v.data(ctx)[qi]]), clmt[v.data(ctx)[qi]] == 0)))
        yield "others-keep-or-lose", z3.ForAll([qs], z3.Implies(pend(qs), z3.Or(
            z3.And(chas[qs] == chas_e[qs], clmt[qs] == clmt_e[qs]), z3.And(z3.Not(chas[qs]), clmt[qs] == 0))))

    def _pd_frame(self, I, ctx):
        return [Loc((self.g.oid, "chas")), Loc((self.g.oid, "clmt"))]

    @property
    def loops(self):
        return {"prepare_delta:0": LoopSpec(inv=self._pd_inv, frame=self._pd_frame)}

    # ---- shared postconditions
    def common_post(self, I, ret):
        ctx = I.ctx
        cur = self.cur(ctx)
        ctx.oblige("ensures.DInv[C05 added/removed disjoint, added present, removed absent and previously present, value = "
                   "previous value with the delta applied, modified only for present elements]", self.d_inv(*cur), kind="post-normal")
        ctx.oblige("ensures.delta-capacity-tracks-slot-capacity", z3.And(*[b.size(ctx) == cur[8] for b in (
            self.added, self.removed, self.mod, self.pub)]), kind="post-normal")
        ctx.oblige("ensures.window-time=max(old,t)[C04/C05 lazy delta clean-up rolls only on a strictly newer time]",
                   ctx.store[(self.th.oid, "delta_time_")] == z3.If(self.t > self.dt0, self.t, self.dt0), kind="post-normal")
        ctx.oblige("ensures.concrete-time", self.t != 0, kind="post-normal")

    def children_follow_the_roll(self, I, but=None):
        ctx = I.ctx
        roll, con1, add1, rem1, mod1, chas1, clmt1 = self.rolled()
        chas, clmt = self.child(ctx)
        cond = (lambda s: s != but) if but is not None else (lambda s: z3.BoolVal(True))
        ctx.oblige("ensures.children:only-the-erased-slots'-children-are-reset[C05 removed element readable during its cycle, gone afterwards]",
                   z3.ForAll([qs], z3.Implies(cond(qs), z3.And(chas[qs] == chas1(qs), clmt[qs] == clmt1(qs)))), kind="post-normal")

    def post_exc(self, I, exc):
        ctx = I.ctx
        ctx.oblige("raises.invalid_argument-iff-MIN_DT", z3.And(z3.BoolVal(exc.cls == "std::invalid_argument"), self.t == 0),
                   kind="post-exceptional")
        live, con, key, base, add, rem, mod, pub, cap = self.cur(ctx)
        ctx.oblige("raises.state-unchanged", z3.And(live == self.live0, con == self.con0, add == self.add0, rem == self.rem0,
                                                    mod == self.mod0, pub == self.pub0), kind="post-exceptional")


class TSDInsertKey(TSDKernel):
    name = "ts_data_slot_ops.cpp:TSDSlotStorage::insert_key"
    fn_name = "insert_key"
    title = ("TSD insert_key: key live afterwards; a removal in the same window is cancelled without trace, a child that already "
             "holds a value is published and marked added, a value-less child is not a member of the value yet")

    def params(self, I):
        return {"key": KeyView(self.keyid), "modified_time": self.t}

    def post(self, I, ret):
        ctx = I.ctx
        self.common_post(I, ret)
        live, con, key, base, add, rem, mod, pub, cap = self.cur(ctx)
        roll, con1, add1, rem1, mod1, chas1, clmt1 = self.rolled()
        chas, clmt = self.child(ctx)
        slot, changed = ctx.store[(ret.oid, "slot")], ctx.store[(ret.oid, "changed")]
        was_live = z3.Exists([qs], z3.And(qs >= 0, qs < self.cap0, self.live0[qs], self.key0[qs] == self.keyid))
        ctx.oblige("ensures.changed<=>key-was-not-live", changed == z3.Not(was_live), kind="post-normal")
        ctx.oblige("ensures.key-live-afterwards-at-the-returned-slot", z3.And(slot >= 0, slot < cap, live[slot], key[slot] == self.keyid),
                   kind="post-normal")
        ctx.oblige("ensures.only-that-slot's-membership-changes", z3.ForAll([qs], z3.Implies(qs != slot, z3.And(
            live[qs] == self.live0[qs], pub[qs] == self.pub0[qs]))), kind="post-normal")
        ctx.oblige("ensures.unchanged=>delta-is-the-rolled-delta", z3.Implies(z3.Not(changed), z3.ForAll(
            [qs], z3.And(add[qs] == add1(qs), rem[qs] == rem1(qs), mod[qs] == mod1(qs), pub[qs] == self.pub0[qs]))), kind="post-normal")
        # property-derived: what the delta says about the (re)inserted key
        was_removed = rem1(slot)
        has_value = clmt[slot] != 0
        ctx.oblige("ensures.changed=>cancel-a-removal-or-add-a-valued-child[C05 mutations that cancel within one cycle leave no trace; "
                   "every added element is present afterwards]",
                   z3.Implies(changed, z3.ForAll([qs], z3.And(
                       rem[qs] == z3.And(rem1(qs), qs != slot),
                       add[qs] == z3.Or(add1(qs), z3.And(qs == slot, z3.Not(was_removed), has_value))))), kind="post-normal")
        ctx.oblige("ensures.changed=>published-iff-the-child-holds-a-value[C05/C10 only valid children are elements of the value]",
                   z3.Implies(changed, pub[slot] == z3.Or(was_removed, has_value)), kind="post-normal")
        ctx.oblige("ensures.re-inserted-key-keeps-its-modified-mark[C05 F9: value + delta coherent when a key is removed and re-inserted in one cycle]",
                   z3.Implies(z3.And(changed, pub[slot], clmt[slot] == self.t, chas[slot]), mod[slot]), kind="post-normal")
        ctx.oblige("ensures.other-slots'-modified-marks-follow-the-roll", z3.ForAll([qs], z3.Implies(qs != slot, mod[qs] == mod1(qs))),
                   kind="post-normal")
        ctx.oblige("ensures.key-set-clock[C04 the key set ticks exactly when membership changed]",
                   ctx.store[(self.kst.oid, "last_modified_time")] == z3.If(z3.And(changed, self.t > self.kslmt0), self.t, self.kslmt0),
                   kind="post-normal")
        self.children_follow_the_roll(I, but=slot)
        ctx.oblige("ensures.new-slot=>fresh-child,resurrected-slot=>child-kept", z3.Implies(changed, z3.If(
            ctx.store[(ret.oid, "constructed")], z3.And(z3.Not(chas[slot]), clmt[slot] == 0),
            z3.And(chas[slot] == self.chas0[slot], clmt[slot] == self.clmt0[slot]))), kind="post-normal")


class TSDInsertKeyMove(TSDInsertKey):
    name = "ts_data_slot_ops.cpp:TSDSlotStorage::insert_key_move"
    fn_name = "insert_key_move"
    title = "TSD insert_key_move: as insert_key (the key payload is moved when the bindings agree)"

    def params(self, I):
        kv = MovableKeyView(self.keyid, z3.Bool("key_has_the_dictionary_key_binding"))
        return {"key": kv, "modified_time": self.t}


class TSDRemoveKey(TSDKernel):
    name = "ts_data_slot_ops.cpp:TSDSlotStorage::remove_key"
    fn_name = "remove_key"
    title = ("TSD remove_key: key absent afterwards; a published element is un-published and its addition in the same window is "
             "cancelled, else it is marked removed; the slot stays constructed (readable) for the cycle")

    def params(self, I):
        return {"key": KeyView(self.keyid), "modified_time": self.t}

    def the_slot(self, ctx, ret):
        return ctx.store[(ret.oid, "slot")]

    def was_live(self):
        return z3.Exists([qs], z3.And(qs >= 0, qs < self.cap0, self.live0[qs], self.key0[qs] == self.keyid))

    def post(self, I, ret):
        ctx = I.ctx
        self.common_post(I, ret)
        live, con, key, base, add, rem, mod, pub, cap = self.cur(ctx)
        roll, con1, add1, rem1, mod1, chas1, clmt1 = self.rolled()
        slot, changed = self.the_slot(ctx, ret), ctx.store[(ret.oid, "changed")]
        ctx.oblige("ensures.changed<=>was-live", changed == self.was_live(), kind="post-normal")
        self.absent_post(I, ret)
        ctx.oblige("ensures.changed=>that-slot-left,others-kept", z3.Implies(changed, z3.And(
            slot >= 0, slot < cap, self.live0[slot],
            z3.ForAll([qs], z3.And(live[qs] == z3.And(self.live0[qs], qs != slot), pub[qs] == z3.And(self.pub0[qs], qs != slot))))),
            kind="post-normal")
        ctx.oblige("ensures.unchanged=>membership-kept", z3.Implies(z3.Not(changed), z3.And(live == self.live0, pub == self.pub0)),
                   kind="post-normal")
        ctx.oblige("ensures.unchanged=>delta-is-the-rolled-delta", z3.Implies(z3.Not(changed), z3.ForAll(
            [qs], z3.And(add[qs] == add1(qs), rem[qs] == rem1(qs), mod[qs] == mod1(qs)))), kind="post-normal")
        was_pub = self.pub0[slot]
        ctx.oblige("ensures.changed=>cancel-an-addition-or-mark-removed[C05 cancelling mutations leave no trace; removed was present before]",
                   z3.Implies(changed, z3.ForAll([qs], z3.And(
                       add[qs] == z3.And(add1(qs), qs != slot),
                       rem[qs] == z3.Or(rem1(qs), z3.And(qs == slot, was_pub, z3.Not(add1(slot))))))), kind="post-normal")
        ctx.oblige("ensures.changed=>modified-mark-dropped,others-follow-the-roll", z3.Implies(changed, z3.ForAll(
            [qs], mod[qs] == z3.And(mod1(qs), qs != slot))), kind="post-normal")
        ctx.oblige("ensures.removed-element-stays-readable-this-cycle[C05 logical removal vs physical erase]",
                   z3.Implies(changed, z3.And(con[slot], key[slot] == self.key0[slot])), kind="post-normal")
        ctx.oblige("ensures.key-set-clock[C04 the key set ticks exactly when membership changed]",
                   ctx.store[(self.kst.oid, "last_modified_time")] == z3.If(z3.And(changed, self.t > self.kslmt0), self.t, self.kslmt0),
                   kind="post-normal")
        self.children_follow_the_roll(I)

    def absent_post(self, I, ret):
        ctx = I.ctx
        live, con, key, base, add, rem, mod, pub, cap = self.cur(ctx)
        ctx.oblige("ensures.key-absent-afterwards[C05 every removed element is absent afterwards]",
                   z3.ForAll([qs], z3.Implies(z3.And(qs >= 0, qs < cap, live[qs]), key[qs] != self.keyid)), kind="post-normal")


class TSDRemoveSlot(TSDRemoveKey):
    name = "ts_data_slot_ops.cpp:TSDSlotStorage::remove_slot"
    fn_name = "remove_slot"
    title = "TSD remove_slot: as remove_key, addressed by slot"

    def params(self, I):
        self.slot_arg = z3.Int("slot_arg")
        I.ctx.assume(self.slot_arg >= 0)
        return {"slot": self.slot_arg, "modified_time": self.t}

    def the_slot(self, ctx, ret):
        return self.slot_arg

    def was_live(self):
        s = self.slot_arg
        return z3.And(s != NPOS, s < self.cap0, self.live0[s])

    def absent_post(self, I, ret):
        ctx = I.ctx
        ctx.oblige("ensures.result-slot-is-the-argument", ctx.store[(ret.oid, "slot")] == self.slot_arg, kind="post-normal")


class TSDRecordChildModified(TSDKernel):
    name = "ts_data_slot_ops.cpp:TSDSlotStorage::record_child_modified"
    fn_name = "record_child_modified"
    title = ("TSD record_child_modified: a live child that holds a value is published (added, or its removal cancelled) and marked "
             "modified; one that lost its value is un-published (removed, or its addition cancelled)")

    def params(self, I):
        self.slot_arg = z3.Int("slot_arg")
        I.ctx.assume(self.slot_arg >= 0)
        return {"slot": self.slot_arg, "modified_time": self.t}

    def post(self, I, ret):
        ctx = I.ctx
        s = self.slot_arg
        live, con, key, base, add, rem, mod, pub, cap = self.cur(ctx)
        was_live = z3.And(s < self.cap0, self.live0[s])
        roll, con1, add1, rem1, mod1, chas1, clmt1 = self.rolled()
        ctx.oblige("ensures.DInv", self.d_inv(*self.cur(ctx)), kind="post-normal")
        ctx.oblige("ensures.concrete-time", self.t != 0, kind="post-normal")
        ctx.oblige("ensures.not-live=>nothing-changes", z3.Implies(z3.Not(was_live), z3.And(
            add == self.add0, rem == self.rem0, mod == self.mod0, pub == self.pub0, live == self.live0, con == self.con0,
            ctx.store[(self.th.oid, "delta_time_")] == self.dt0)), kind="post-normal")
        ctx.oblige("ensures.membership-unchanged", z3.And(live == self.live0), kind="post-normal")
        has = self.chas0[s]
        ctx.oblige("ensures.live=>published-iff-the-child-holds-a-value[C05 value = previous value with the delta applied]",
                   z3.Implies(was_live, z3.ForAll([qs], pub[qs] == z3.If(qs == s, has, self.pub0[qs]))), kind="post-normal")
        ctx.oblige("ensures.live=>modified-iff-the-child-holds-a-value", z3.Implies(was_live, z3.ForAll(
            [qs], mod[qs] == z3.If(qs == s, has, mod1(qs)))), kind="post-normal")
        ctx.oblige("ensures.live=>structural-delta[C05 added present & new, removed absent & previously present, cancel leaves no trace]",
                   z3.Implies(was_live, z3.ForAll([qs], z3.And(
                       add[qs] == z3.If(qs == s, z3.If(has, z3.Or(add1(s), z3.And(z3.Not(self.pub0[s]), z3.Not(rem1(s)))), z3.BoolVal(False)),
                                        add1(qs)),
                       rem[qs] == z3.If(qs == s, z3.If(has, z3.BoolVal(False), z3.Or(rem1(s), z3.And(self.pub0[s], z3.Not(add1(s))))),
                                        rem1(qs))))), kind="post-normal")
        ctx.oblige("ensures.live=>window-time=max(old,t)", z3.Implies(was_live, ctx.store[(self.th.oid, "delta_time_")] ==
                                                                      z3.If(self.t > self.dt0, self.t, self.dt0)), kind="post-normal")

    def post_exc(self, I, exc):
        ctx = I.ctx
        ctx.oblige("raises.invalid_argument-iff-MIN_DT", z3.And(z3.BoolVal(exc.cls == "std::invalid_argument"), self.t == 0),
                   kind="post-exceptional")


class TSDTouch(TSDKernel):
    name = "ts_data_slot_ops.cpp:TSDSlotStorage::touch"
    fn_name = "touch"
    title = "TSD touch: opens the delta window for t without changing membership"

    def params(self, I):
        return {"modified_time": self.t}

    def post(self, I, ret):
        ctx = I.ctx
        self.common_post(I, ret)
        live, con, key, base, add, rem, mod, pub, cap = self.cur(ctx)
        roll, con1, add1, rem1, mod1, chas1, clmt1 = self.rolled()
        ctx.oblige("ensures.membership-unchanged", z3.And(live == self.live0, pub == self.pub0), kind="post-normal")
        ctx.oblige("ensures.roll-clears-the-delta-and-erases-pending-slots[C04/C05 lazy clean-up]",
                   z3.ForAll([qs], z3.And(add[qs] == add1(qs), rem[qs] == rem1(qs), mod[qs] == mod1(qs), con[qs] == con1(qs))),
                   kind="post-normal")
        ctx.oblige("ensures.result=not-yet-modified-at-t", ret == (self.lmt != self.t), kind="post-normal")
        self.children_follow_the_roll(I)


KERNELS = [TSDInsertKey, TSDInsertKeyMove, TSDRemoveKey, TSDRemoveSlot, TSDRecordChildModified, TSDTouch]
