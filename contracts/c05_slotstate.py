"""C05, third layer -- the slot-state stores underneath KeySlotStore (include/hgraph/types/utils/slot_bitmap.h and
impl/stable_slot_store_impl.h).  c05_keystore uses StableSlotStore<ConstructedAndLive> through the contract
  constructed(s) / live(s): false outside the capacity;  mark_staged: constructed, not live;  mark_live: succeeds exactly for a
  constructed non-live slot;  mark_pending: succeeds exactly for a live slot (stays constructed);  mark_free: neither;
  every other slot untouched.
Here that contract is proved on both physical representations: the bitmap one (on top of SlotBitmap, whose set / reset / test are
proved against the bit view  bit(b) = words[b div 64][b mod 64], b < bit_count) and the tagged-pointer one."""
import z3

from cxxvc.kernel import Kernel, LoopSpec
from cxxvc.interp import Obj, Ptr, Loc, ArrLoc, Gap, VOID
from cxxvc import extract

TU = "src/hgraph/types/metadata/ts_data_slot_ops.cpp"
I_ = z3.IntSort()
B_ = z3.BoolSort()
WORD = z3.ArraySort(I_, B_)          # one 64-bit word as bit index -> bool
qb, qs = z3.Ints("qb qs")


# ------------------------------------------------------------------ SlotBitmap
class Mask:
    """bit_mask(bit): the word with exactly bit (bit mod 64) set (slot_bitmap.h, one line: 1 << (bit % 64))"""
    custom_binop = True

    def __init__(self, pos, inverted=False):
        self.pos, self.inverted = pos, inverted

    def invert(self):
        return Mask(self.pos, not self.inverted)

    def rbinop(self, I, op, word):
        if not (isinstance(word, z3.ExprRef) and word.sort() == WORD):
            raise Gap("mask combined with %r" % (word,))
        if op == "|" and not self.inverted:
            return z3.Store(word, self.pos, True)
        if op == "&" and self.inverted:
            return z3.Store(word, self.pos, False)
        if op == "&" and not self.inverted:
            return Masked(word[self.pos])
        raise Gap("word %s mask" % op)

    binop = lambda self, I, op, other: self.rbinop(I, op, other)


class Masked:
    """(word & one-hot mask): non-zero iff that bit is set"""
    custom_binop = True

    def __init__(self, bit):
        self.bit = bit

    def binop(self, I, op, other):
        if isinstance(other, z3.ExprRef) and z3.is_int_value(other) and other.as_long() == 0 and op in ("!=", "=="):
            return self.bit if op == "!=" else z3.Not(self.bit)
        raise Gap("masked word %s %r" % (op, other))

    def compare(self, I, op, other):
        return self.binop(I, op, other)


class WordsObj(Obj):
    cls = "uint64_t[]"

    def __init__(self, k):
        Obj.__init__(self, name="words")
        self.k = k

    def index(self, I, idx, n):
        I.ctx.oblige("word-index-inside-the-allocation@%s" % extract.line_of(n), z3.And(idx >= 0, idx < self.k.wcap), kind="bounds",
                     line=extract.line_of(n))
        return ArrLoc((self.oid, "data"), idx)


class BitmapKernel(Kernel):
    tu = TU
    filter = "SlotBitmap"
    cls = "SlotBitmap"
    property_ids = ("C05",)
    scope = {"lo": 0, "hi": 3}
    inline = ("word_index",)

    def setup(self, I):
        ctx = I.ctx
        th = Obj("SlotBitmap", "this_bitmap")
        self.th = th
        self.n = z3.Int("bit_count")
        self.wcap = z3.Int("word_capacity")
        self.W0 = z3.Array("words0", I_, WORD)
        wo = WordsObj(self)
        self.wo = wo
        ctx.store[(wo.oid, "data")] = self.W0
        ctx.store[(th.oid, "words")] = Ptr(wo, self.n == 0)
        ctx.store[(th.oid, "bit_count")] = self.n
        ctx.store[(th.oid, "word_capacity")] = self.wcap
        self.b = z3.Int("bit")
        # representation invariant: the allocation covers every addressable bit
        ctx.assume(z3.And(self.n >= 0, self.wcap >= 0, self.b >= 0, 64 * self.wcap >= self.n))
        return th, {"bit": self.b}

    def global_var(self, I, ref, node):
        if ref.get("name") == "bits_per_word":
            return z3.IntVal(64)
        return None

    def method_handler(self, obj, name, node):
        if name == "bit_mask":
            return lambda I, o, a, n: Mask(I.ctx.rv(a[0]) % 64)
        return Kernel.method_handler(self, obj, name, node)

    def function_handler(self, name, node, callee_node):
        if name == "bit_mask":
            return lambda I, a, n: Mask(I.ctx.rv(a[0]) % 64)
        return Kernel.function_handler(self, name, node, callee_node)

    @staticmethod
    def view(W, b):
        return W[b / 64][b % 64]

    def now(self, ctx):
        return ctx.store[(self.wo.oid, "data")]

    def post_exc(self, I, exc):
        I.ctx.oblige("noexcept", False, kind="post-exceptional")


class BitmapSet(BitmapKernel):
    name = "slot_bitmap.h:SlotBitmap::set"
    fn_name = "set"
    sig = "void (std::size_t)"
    title = "SlotBitmap::set: bit b becomes set when addressable, every other bit (and an out-of-range request) unchanged"

    def post(self, I, ret):
        ctx = I.ctx
        W = self.now(ctx)
        ctx.oblige("ensures.view'=view+{bit}-when-addressable[C05 delta bits: exactly the addressed slot's mark changes]",
                   z3.ForAll([qb], z3.Implies(z3.And(qb >= 0, qb < self.n), self.view(W, qb) == z3.Or(
                       self.view(self.W0, qb), z3.And(qb == self.b, self.b < self.n)))), kind="post-normal")
        ctx.oblige("ensures.out-of-range=>nothing-written", z3.Implies(self.b >= self.n, W == self.W0), kind="post-normal")


class BitmapReset(BitmapKernel):
    name = "slot_bitmap.h:SlotBitmap::reset(bit)"
    fn_name = "reset"
    sig = "void (std::size_t)"
    title = "SlotBitmap::reset(bit): bit b becomes clear, every other bit unchanged"

    def post(self, I, ret):
        ctx = I.ctx
        W = self.now(ctx)
        ctx.oblige("ensures.view'=view-{bit}[C05]", z3.ForAll([qb], z3.Implies(z3.And(qb >= 0, qb < self.n), self.view(W, qb) == z3.And(
            self.view(self.W0, qb), qb != self.b))), kind="post-normal")
        ctx.oblige("ensures.out-of-range=>nothing-written", z3.Implies(self.b >= self.n, W == self.W0), kind="post-normal")


class BitmapTest(BitmapKernel):
    name = "slot_bitmap.h:SlotBitmap::test"
    fn_name = "test"
    title = "SlotBitmap::test: the bit of the view, false outside the addressable range"

    def post(self, I, ret):
        ctx = I.ctx
        ctx.oblige("ensures.test=view(bit)-and-in-range[C05]", ret == z3.And(self.b < self.n, self.view(self.W0, self.b)), kind="post-normal")
        ctx.oblige("ensures.pure", self.now(ctx) == self.W0, kind="post-normal")


# ------------------------------------------------------------------ bitmap representation of the slot states
class BitsModel(Obj):
    """SlotBitmap through the contract proved above"""
    cls = "SlotBitmap(model)"

    def __init__(self, k, nm):
        Obj.__init__(self, name=nm)
        self.k, self.nm = k, nm

    def bits(self, ctx):
        return ctx.store[(self.k.g.oid, self.nm)]

    def m_test(self, I, args, n):
        s = I.ctx.rv(args[0])
        return z3.And(s >= 0, s < self.k.cap, self.bits(I.ctx)[s])

    def _w(self, I, s, v):
        ctx = I.ctx
        b = self.bits(ctx)
        ctx.write(Loc((self.k.g.oid, self.nm)), z3.If(z3.And(s >= 0, s < self.k.cap), z3.Store(b, s, v), b))
        return VOID

    def m_set(self, I, args, n):
        return self._w(I, I.ctx.rv(args[0]), True)

    def m_reset(self, I, args, n):
        if not args:
            I.ctx.write(Loc((self.k.g.oid, self.nm)), z3.K(I_, z3.BoolVal(False)))
            return VOID
        return self._w(I, I.ctx.rv(args[0]), False)


class StateKernel(Kernel):
    """shared: abstract (con, live, cap) and the contract clauses c05_keystore.Stable uses"""
    tu = TU
    property_ids = ("C05",)
    scope = {"lo": 0, "hi": 3}
    model_methods_first = True

    def base(self, I):
        ctx = I.ctx
        g = Obj("ghost", "ssg")
        self.g = g
        self.cap = z3.Int("slot_count")
        self.con0, self.live0 = z3.Array("constructed0", I_, B_), z3.Array("live0", I_, B_)
        self.s = z3.Int("slot")
        ctx.assume(z3.And(self.cap >= 0, self.s >= 0))
        # state invariant of the store: live => constructed, nothing outside the capacity
        ctx.assume(z3.ForAll([qs], z3.And(z3.Implies(self.live0[qs], self.con0[qs]),
                                          z3.Implies(z3.Or(qs < 0, qs >= self.cap), z3.And(z3.Not(self.con0[qs]), z3.Not(self.live0[qs]))))))

    def inr(self):
        return self.s < self.cap

    def others_untouched(self, con, live):
        return z3.ForAll([qs], z3.Implies(qs != self.s, z3.And(con[qs] == self.con0[qs], live[qs] == self.live0[qs])))

    def check(self, I, ret, what):
        ctx = I.ctx
        con, live = self.state(ctx)
        s, c0, l0 = self.s, self.con0, self.live0
        o = ctx.oblige
        o("ensures.other-slots-untouched[C05 exactly the addressed slot changes state]", self.others_untouched(con, live), kind="post-normal")
        if what == "constructed":
            o("ensures.constructed(s)<=>addressable-and-constructed", ret == z3.And(self.inr(), c0[s]), kind="post-normal")
        elif what == "live":
            o("ensures.live(s)<=>addressable-and-live", ret == z3.And(self.inr(), l0[s]), kind="post-normal")
        elif what == "mark_staged":
            o("ensures.staged:constructed-not-live", z3.Implies(self.inr(), z3.And(con[s], z3.Not(live[s]))), kind="post-normal")
        elif what == "mark_live":
            ok = z3.And(self.inr(), c0[s], z3.Not(l0[s]))
            o("ensures.mark_live-succeeds-exactly-for-a-constructed-non-live-slot[C05 a pending key is resurrected in its own slot]",
              z3.And(ret == ok, live[s] == z3.Or(l0[s], ok), con[s] == c0[s]), kind="post-normal")
        elif what == "mark_pending":
            ok = z3.And(self.inr(), l0[s])
            o("ensures.mark_pending-succeeds-exactly-for-a-live-slot,which-stays-constructed[C05 logical removal vs physical erase]",
              z3.And(ret == ok, live[s] == z3.And(l0[s], z3.Not(ok)), con[s] == c0[s]), kind="post-normal")
        elif what == "mark_free":
            o("ensures.free:neither-constructed-nor-live", z3.Implies(self.inr(), z3.And(z3.Not(con[s]), z3.Not(live[s]))), kind="post-normal")
        if what in ("constructed", "live"):
            o("ensures.pure", z3.And(con == c0, live == l0), kind="post-normal")

    def post_exc(self, I, exc):
        I.ctx.oblige("noexcept", False, kind="post-exceptional")


class BitmapImplKernel(StateKernel):
    filter = "BitmapStableSlotStoreImpl"
    cls = "BitmapStableSlotStoreImpl"
    cls_targs = [1]            # StableSlotStateModel::ConstructedAndLive
    inline = ("constructed", "live")

    def setup(self, I):
        ctx = I.ctx
        self.base(I)
        th = Obj("BitmapStableSlotStoreImpl", "this_impl")
        self.th = th
        ctx.store[(self.g.oid, "con")] = self.con0
        ctx.store[(self.g.oid, "live")] = self.live0
        ctx.store[(th.oid, "constructed_")] = BitsModel(self, "con")
        ctx.store[(th.oid, "live_")] = BitsModel(self, "live")
        ctx.store[(th.oid, "slot_count_")] = self.cap
        return th, {"slot": self.s}

    def state(self, ctx):
        return ctx.store[(self.g.oid, "con")], ctx.store[(self.g.oid, "live")]


def bitmap_kernel(fn, what=None):
    what = what or fn

    class K(BitmapImplKernel):
        name = "stable_slot_store_impl.h:BitmapStableSlotStoreImpl<ConstructedAndLive>::%s" % fn
        fn_name = fn
        title = "bitmap slot states: %s against the state contract KeySlotStore relies on" % fn
        inline = tuple(x for x in ("constructed", "live") if x != fn)

        def post(self, I, ret):
            self.check(I, ret, what)
    K.__name__ = "Bitmap_" + fn
    return K


# ------------------------------------------------------------------ tagged-pointer representation
TAGS = {"Free": 0, "Staged": 1, "Live": 2, "PendingErase": 3}


class SlotPtrRef(Obj):
    cls = "SlotPointer"

    def __init__(self, k, idx):
        Obj.__init__(self, name="slot_pointer")
        self.k, self.idx = k, idx

    def m_set_tag(self, I, args, n):
        ctx = I.ctx
        t = ctx.rv(args[0])
        tags = ctx.store[(self.k.g.oid, "tags")]
        ctx.write(Loc((self.k.g.oid, "tags")), z3.Store(tags, self.idx, t))
        return VOID

    def m_has_enum(self, I, args, n):
        return I.ctx.store[(self.k.g.oid, "tags")][self.idx] == I.ctx.rv(args[0])


class SlotsArr(Obj):
    cls = "SlotPointer[]"

    def __init__(self, k):
        Obj.__init__(self, name="slots_")
        self.k = k

    def index(self, I, idx, n):
        I.ctx.oblige("requires.slot-addressable(callers: KeySlotStore only marks slots below its capacity)@%s" % extract.line_of(n),
                     z3.And(idx >= 0, idx < self.k.cap), kind="bounds", line=extract.line_of(n))
        return SlotPtrRef(self.k, idx)


class TaggedImplKernel(StateKernel):
    filter = "TaggedPointerStableSlotStoreImpl"
    cls = "TaggedPointerStableSlotStoreImpl"
    cls_targs = [1]
    needs_range = ()

    def setup(self, I):
        ctx = I.ctx
        self.base(I)
        th = Obj("TaggedPointerStableSlotStoreImpl", "this_impl")
        self.th = th
        self.tags0 = z3.Array("tags0", I_, I_)
        ctx.store[(self.g.oid, "tags")] = self.tags0
        ctx.assume(z3.ForAll([qs], z3.And(self.tags0[qs] >= 0, self.tags0[qs] <= 3,
                                          z3.Implies(z3.And(qs >= 0, qs < self.cap), z3.And(
                                              self.con0[qs] == (self.tags0[qs] != TAGS["Free"]),
                                              self.live0[qs] == (self.tags0[qs] == TAGS["Live"]))))))
        if self.fn_name in ("mark_staged", "mark_free"):
            ctx.assume(self.s < self.cap)        # precondition (an obligation at KeySlotStore's call sites, c05_keystore)
        ctx.store[(th.oid, "slots_")] = Ptr(SlotsArr(self), z3.BoolVal(False))
        ctx.store[(th.oid, "slot_count_")] = self.cap
        return th, {"slot": self.s}

    def enum_const(self, I, ref):
        nm = ref.get("name")
        if nm in TAGS:
            return z3.IntVal(TAGS[nm])
        raise Gap("enum constant %s" % nm)

    def state(self, ctx):
        tags = ctx.store[(self.g.oid, "tags")]
        cap = self.cap
        con = z3.Lambda([qs], z3.And(qs >= 0, qs < cap, tags[qs] != TAGS["Free"]))
        live = z3.Lambda([qs], z3.And(qs >= 0, qs < cap, tags[qs] == TAGS["Live"]))
        return con, live


def tagged_kernel(fn):
    class K(TaggedImplKernel):
        name = "stable_slot_store_impl.h:TaggedPointerStableSlotStoreImpl<ConstructedAndLive>::%s" % fn
        fn_name = fn
        title = "tagged-pointer slot states: %s against the state contract KeySlotStore relies on" % fn
        inline = tuple(x for x in ("constructed", "live") if x != fn)

        def post(self, I, ret):
            self.check(I, ret, fn)
    K.__name__ = "Tagged_" + fn
    return K


FNS = ("constructed", "live", "mark_staged", "mark_live", "mark_pending", "mark_free")
KERNELS = [BitmapSet, BitmapReset, BitmapTest] + [bitmap_kernel(f) for f in FNS] + [tagged_kernel(f) for f in FNS]
