"""C19 -- operator resolution: consistent variable binding (type_resolution.h ResolutionMap::bind_*) and the
specificity rank functions (type_pattern.cpp scalar_pattern_rank / ts_pattern_rank) against recursive spec functions.
The candidate selection loop of OperatorRegistry::resolve is not under contract yet (see not_decided)."""
import z3

from cxxvc.kernel import Kernel, LoopSpec, Lemma
from cxxvc.interp import Obj, Ptr, Loc, Opt, Gap, VOID
from cxxvc import extract, models
from cxxvc.models import MapKV, Vec

I_ = z3.IntSort()
qk, qj = z3.Ints("qk qj")


# ------------------------------------------------------------------ ResolutionMap::bind_*


class BindKernel(Kernel):
    tu = "src/hgraph/types/operator_dispatch.cpp"
    filter = "ResolutionMap"
    cls = "ResolutionMap"
    property_ids = ("C19",)
    scope = {"lo": 0, "hi": 3}
    field = None
    pointer_value = True

    def setup(self, I):
        ctx = I.ctx
        th = Obj("ResolutionMap", "this_map")
        self.th = th
        self.maps = {}
        for f in ("ts_vars", "scalar_vars", "size_vars"):
            self.maps[f] = MapKV(ctx, f)
            ctx.store[(th.oid, f)] = self.maps[f]
        self.m = self.maps[self.field]
        self.has0, self.val0 = self.m.has(ctx), self.m.val(ctx)
        self.name_ = z3.Int("name")
        self.v = z3.Int("value")
        ctx.assume(z3.And(self.name_ >= 0))
        if self.pointer_value:
            # pointers: 0 is nullptr; stored values are never null
            ctx.assume(z3.ForAll([qk], z3.Implies(self.has0[qk], self.val0[qk] != 0)))
        arg = self.v
        return th, {"name": self.name_, self.argname: arg}

    def function_handler(self, name, node, callee_node):
        if name == "format":
            return lambda I, a, n: I.ctx.fresh("fmt_string")
        return Kernel.function_handler(self, name, node, callee_node)

    def others_untouched(self, ctx):
        conds = []
        for f, m in self.maps.items():
            if m is not self.m:
                conds.append(z3.And(m.has(ctx) == z3.Array(f + "_has0", I_, z3.BoolSort()), m.val(ctx) == z3.Array(f + "_val0", I_, I_)))
        return z3.And(*conds)

    def post(self, I, ret):
        ctx = I.ctx
        has, val = self.m.has(ctx), self.m.val(ctx)
        n_, v = self.name_, self.v
        ctx.oblige("ensures.bound-to-the-value[C19 every type variable bound to one type across all positions]",
                   z3.And(has[n_], val[n_] == v), kind="post-normal")
        ctx.oblige("ensures.absent=>inserted,present-with-the-same-value=>unchanged,no-other-key-changes[C19 monotone]",
                   z3.And(z3.Implies(self.has0[n_], self.val0[n_] == v),
                          z3.ForAll([qk], z3.Implies(qk != n_, z3.And(has[qk] == self.has0[qk], val[qk] == self.val0[qk])))),
                   kind="post-normal")
        ctx.oblige("ensures.other-variable-kinds-untouched", self.others_untouched(ctx), kind="post-normal")
        if self.pointer_value:
            ctx.oblige("ensures.never-null", v != 0, kind="post-normal")

    def post_exc(self, I, exc):
        ctx = I.ctx
        has, val = self.m.has(ctx), self.m.val(ctx)
        n_, v = self.name_, self.v
        conflict = z3.And(self.has0[n_], self.val0[n_] != v)
        null = (v == 0) if self.pointer_value else z3.BoolVal(False)
        ctx.oblige("raises.logic_error-iff-null-or-inconsistent-rebinding[C19 bind rejects inconsistent re-binding]",
                   z3.And(z3.BoolVal(exc.cls == "std::logic_error"), z3.Or(null, conflict)), kind="post-exceptional")
        ctx.oblige("raises.bindings-unchanged", z3.And(has == self.has0, z3.ForAll([qk], z3.Implies(has[qk], val[qk] == self.val0[qk])),
                                                       self.others_untouched(ctx)), kind="post-exceptional")


class BindTs(BindKernel):
    name = "type_resolution.h:ResolutionMap::bind_ts"
    fn_name = "bind_ts"
    field = "ts_vars"
    argname = "meta"
    title = "bind_ts: absent -> inserted; same -> unchanged; different -> logic_error"



class BindScalar(BindTs):
    name = "type_resolution.h:ResolutionMap::bind_scalar"
    fn_name = "bind_scalar"
    field = "scalar_vars"
    title = "bind_scalar: absent -> inserted; same -> unchanged; different -> logic_error"


class BindSize(BindKernel):
    name = "type_resolution.h:ResolutionMap::bind_size"
    fn_name = "bind_size"
    field = "size_vars"
    argname = "size"
    pointer_value = False
    title = "bind_size: absent -> inserted; same -> unchanged; different -> logic_error"


# ------------------------------------------------------------------ rank functions

LARGE_RANK, SCALAR_VAR_RANK = 10000, 100
SC = {"Var": 0, "Concrete": 1, "UnknownTuple": 2, "HomogeneousTuple": 3, "FixedTuple": 4, "Set": 5, "Map": 6, "Series": 7,
      "Frame": 8, "Array": 9, "Bundle": 10}
TS = {"Var": 0, "Concrete": 1, "TS": 2, "TSS": 3, "TSL": 4, "TSD": 5, "TSW": 6, "TSB": 7, "REF": 8, "Signal": 9}

R_sc = z3.Function("spec_scalar_rank", I_, I_)      # spec: rank of scalar pattern id
R_ts = z3.Function("spec_ts_rank", I_, I_)          # spec: rank of time-series pattern id
child = z3.Function("child", I_, I_, I_)            # child(id, j): id of the j-th child pattern
PS_sc = z3.Function("half_rank_prefix_sum", I_, I_, I_)  # sum over j < k of R_sc(child(id, j)) / 2
PS_ts = z3.Function("rank_prefix_sum", I_, I_, I_)       # sum over j < k of R_ts(child(id, j))


def cdiv2(x):
    return z3.If(x >= 0, x / 2, -((-x) / 2))


class PatObj(Obj):
    cls = "pattern"

    def __init__(self, k, pid, scalar):
        Obj.__init__(self, name="pattern")
        self.k, self.pid, self.scalar = k, pid, scalar

    def member(self, ctx, name, node):
        k, p = self.k, self.pid
        if name == "kind":
            return k.kind(p)
        if name == "constraints":
            return SizeOnlyVec(k.ncons(p))
        if name == "children":
            return Vec(ctx, "children", length=k.nch(p), elem=lambda j: PatObj(k, child(p, j), self.scalar))
        if name == "scalar":
            return PatObj(k, k.scal(p), True)
        if name in ("schema_var", "size_var", "any_window"):
            return z3.Function(name, I_, z3.BoolSort())(p)
        if name == "fixed_size":
            return z3.Function("fixed_size", I_, I_)(p)
        if name == "bundle_origin":
            return StrObj(z3.Function("bundle_origin_empty", I_, z3.BoolSort())(p))
        raise Gap("pattern member %s" % name)


class StrObj(Obj):
    cls = "std::string"

    def __init__(self, empty):
        Obj.__init__(self, name="string")
        self.e = empty

    def m_empty(self, I, args, n):
        return self.e


class SizeOnlyVec(Obj):
    cls = "vector"

    def __init__(self, n):
        Obj.__init__(self, name="vector")
        self.n = n

    def m_empty(self, I, args, n):
        return self.n == 0


class RankKernel(Kernel):
    tu = "src/hgraph/types/type_pattern.cpp"
    property_ids = ("C19",)
    scope = {"lo": 0, "hi": 3}

    def kind(self, p):
        return z3.Function("kind", I_, I_)(p)

    def ncons(self, p):
        return z3.Function("n_constraints", I_, I_)(p)

    def nch(self, p):
        return z3.Function("n_children", I_, I_)(p)

    def scal(self, p):
        return z3.Function("scalar_of", I_, I_)(p)

    def base(self, I):
        ctx = I.ctx
        self.p = z3.Int("pattern_id")
        ctx.assume(z3.And(self.nch(self.p) >= 0, self.ncons(self.p) >= 0))
        # induction hypothesis: the spec ranks of sub-patterns are non-negative, Concrete sub-patterns rank 0
        ctx.assume(z3.ForAll([qk], z3.And(R_sc(qk) >= 0, R_ts(qk) >= 0)))
        # prefix sums (definition)
        ctx.assume(z3.ForAll([qk], z3.And(PS_sc(qk, 0) == 0, PS_ts(qk, 0) == 0)))
        ctx.assume(z3.ForAll([qk, qj], z3.Implies(qj >= 0, z3.And(
            PS_sc(qk, qj + 1) == PS_sc(qk, qj) + cdiv2(R_sc(child(qk, qj))),
            PS_ts(qk, qj + 1) == PS_ts(qk, qj) + R_ts(child(qk, qj))))))

        # consequence of the two facts above by induction on j (base and step are proved in RankLemmas)
        ctx.assume(z3.ForAll([qk, qj], z3.Implies(qj >= 0, z3.And(PS_sc(qk, qj) >= 0, PS_ts(qk, qj) >= 0))))

    def function_handler(self, name, node, callee_node):
        if name == "scalar_pattern_rank":
            return lambda I, a, n: R_sc(I.ctx.rv(a[0]).pid)
        if name == "ts_pattern_rank":
            return lambda I, a, n: R_ts(I.ctx.rv(a[0]).pid)
        return Kernel.function_handler(self, name, node, callee_node)

    def global_var(self, I, ref, node):
        return {"LARGE_RANK": z3.IntVal(LARGE_RANK), "SCALAR_VAR_RANK": z3.IntVal(SCALAR_VAR_RANK)}.get(ref.get("name"))


class ScalarPatternRank(RankKernel):
    name = "type_pattern.cpp:scalar_pattern_rank"
    fn_name = "scalar_pattern_rank"
    filter = "scalar_pattern_rank"
    title = "scalar_pattern_rank against its recursive spec"

    def setup(self, I):
        self.base(I)
        return None, {"pattern": PatObj(self, self.p, True)}

    def inv(self, I, ctx):
        k = self.range_pos(I)
        yield "pos-range", z3.And(k >= 0, k <= self.nch(self.p))
        yield "rank=1+sum-of-half-ranks-so-far", self.local(I, "rank") == 1 + PS_sc(self.p, k)

    @property
    def loops(self):
        return {0: LoopSpec(self.inv), 1: LoopSpec(self.inv), 2: LoopSpec(self.inv)}

    def post(self, I, ret):
        ctx = I.ctx
        p, kd = self.p, self.kind(self.p)
        summ = 1 + PS_sc(p, self.nch(p))
        origin_empty = z3.Function("bundle_origin_empty", I_, z3.BoolSort())(p)
        schema_var = z3.Function("schema_var", I_, z3.BoolSort())(p)
        spec = z3.If(kd == SC["Var"], z3.If(self.ncons(p) == 0, SCALAR_VAR_RANK, SCALAR_VAR_RANK // 2),
               z3.If(kd == SC["Concrete"], 0,
               z3.If(kd == SC["UnknownTuple"], 1 + z3.If(self.nch(p) == 0, 0, cdiv2(R_sc(child(p, 0)))),
               z3.If(kd == SC["Bundle"], z3.If(origin_empty, z3.If(schema_var, SCALAR_VAR_RANK // 2, 1), summ),
               z3.If(z3.And(kd >= SC["HomogeneousTuple"], kd <= SC["Array"]), summ, 0)))))
        ctx.oblige("ensures.result=spec[C19 specificity rank]", ret == spec, kind="post-normal")
        ctx.oblige("ensures.non-negative,Concrete-is-most-specific[C19 most specific candidate]",
                   z3.And(ret >= 0, z3.Implies(kd == SC["Concrete"], ret == 0)), kind="post-normal")


class TsPatternRank(RankKernel):
    name = "type_pattern.cpp:ts_pattern_rank"
    fn_name = "ts_pattern_rank"
    filter = "ts_pattern_rank"
    title = "ts_pattern_rank against its recursive spec"

    def setup(self, I):
        self.base(I)
        I.ctx.assume(z3.Implies(z3.Or(*[self.kind(self.p) == TS[k] for k in ("TSL", "TSD", "REF")]), self.nch(self.p) >= 1))
        return None, {"pattern": PatObj(self, self.p, False)}

    def inv(self, I, ctx):
        k = self.range_pos(I)
        yield "pos-range", z3.And(k >= 0, k <= self.nch(self.p))
        yield "rank=1+sum-of-ranks-so-far", self.local(I, "rank") == 1 + PS_ts(self.p, k)

    @property
    def loops(self):
        return {0: LoopSpec(self.inv)}

    def post(self, I, ret):
        ctx = I.ctx
        p, kd = self.p, self.kind(self.p)
        B = lambda nm: z3.Function(nm, I_, z3.BoolSort())(p)
        fixed = z3.Function("fixed_size", I_, I_)(p)
        sc = R_sc(self.scal(p))
        c0 = R_ts(child(p, 0))
        spec = z3.If(kd == TS["Var"], z3.If(self.ncons(p) == 0, LARGE_RANK, LARGE_RANK // 2),
               z3.If(kd == TS["Concrete"], 0,
               z3.If(z3.Or(kd == TS["TS"], kd == TS["TSS"]), 1 + sc,
               z3.If(kd == TS["TSL"], 1 + c0 + z3.If(B("size_var"), 5, z3.If(fixed == 0, 10, 0)),
               z3.If(kd == TS["TSD"], 1 + sc + c0,
               z3.If(kd == TS["TSW"], 1 + sc + z3.If(B("any_window"), 10, 0),
               z3.If(kd == TS["TSB"], z3.If(B("schema_var"), LARGE_RANK // 2, 1 + PS_ts(p, self.nch(p))),
               z3.If(kd == TS["REF"], c0, 0))))))))
        ctx.oblige("ensures.result=spec[C19 specificity rank]", ret == spec, kind="post-normal")
        ctx.oblige("ensures.non-negative,Concrete-is-most-specific[C19]",
                   z3.And(ret >= 0, z3.Implies(kd == TS["Concrete"], ret == 0)), kind="post-normal")


class RankLemmas(Lemma):
    name = "lemma:rank-monotone"
    property_ids = ("C19",)
    title = "each rank combination is monotone in the ranks of its sub-patterns (a more specific sub-pattern never ranks the whole higher)"
    scope = {"lo": 0, "hi": 6}

    def lemmas(self):
        a, b, c, d = z3.Ints("a b c d")
        hyp = [a >= 0, b >= 0, c >= 0, d >= 0, a <= b, c <= d]
        yield "half-is-monotone", hyp, cdiv2(a) <= cdiv2(b)
        yield "TS/TSS/TSW:1+scalar", hyp, 1 + a <= 1 + b
        yield "TSD:1+key+value", hyp, 1 + a + c <= 1 + b + d
        yield "sum-step-monotone(TSB, tuples)", hyp, a + c <= b + d
        ps0, r = z3.Ints("prefix_sum next_rank")
        yield "prefix-sum-nonneg:base", [], z3.IntVal(0) >= 0
        yield "prefix-sum-nonneg:step(ts)", [ps0 >= 0, r >= 0], ps0 + r >= 0
        yield "prefix-sum-nonneg:step(scalar)", [ps0 >= 0, r >= 0], ps0 + cdiv2(r) >= 0
        yield "concrete-below-any-variable", [], z3.And(0 < SCALAR_VAR_RANK // 2, SCALAR_VAR_RANK // 2 < SCALAR_VAR_RANK,
                                                         0 < LARGE_RANK // 2, LARGE_RANK // 2 < LARGE_RANK)


KERNELS = [BindTs, BindScalar, BindSize, ScalarPatternRank, TsPatternRank]
LEMMAS = [RankLemmas]


# =====================================================================================================
# OperatorRegistry::resolve -- the selection skeleton
# =====================================================================================================
# Verified configuration (stated in the evidence): no wiring observers (wiring == nullptr, so the diagnostic-only
# code is dead), no caller-pinned size hints, the winner has no keyword arguments.  normalize_call and try_match are
# opaque but deterministic per candidate: norm_ok[i], match_ok[i], adj[i] (rank adjustment).

from cxxvc.interp import ThrowEx, ExcVal  # noqa: E402
from cxxvc.models import VecIter  # noqa: E402

B_ = z3.BoolSort()
qa, qb = z3.Ints("qa qb")


class Wild(Obj):
    """diagnostic / bookkeeping object whose content does not matter for the selection"""
    cls = "wild"

    def member(self, ctx, name, node):
        return Wild(name=name)

    def call(self, I, args, n):
        return Wild(name="result")

    def op(self, I, op, rest, n, a0):
        return Wild(name="result")


class ImplObj(Obj):
    cls = "OperatorImpl"

    def __init__(self, k, idx):
        Obj.__init__(self, name="impl")
        self.k, self.idx = k, idx

    def same_as(self, other):
        return self.idx == other.idx

    def member(self, ctx, name, node):
        if name == "rank":
            return self.k.impl_rank[self.idx]
        return Wild(name=name)


class SurvVec(Obj):
    """std::vector<Survivor>: len, sidx[] (candidate index), srank[]"""
    cls = "std::vector<Survivor>"

    def __init__(self, ctx, k):
        Obj.__init__(self, name="survivors")
        self.k = k
        ctx.store[(self.oid, "len")] = z3.IntVal(0)
        ctx.store[(self.oid, "sidx")] = z3.K(I_, z3.IntVal(-1))
        ctx.store[(self.oid, "srank")] = z3.K(I_, z3.IntVal(0))

    def f(self, ctx, nm):
        return ctx.store[(self.oid, nm)]

    def length(self, ctx):
        return self.f(ctx, "len")

    def m_push_back(self, I, args, n):
        ctx = I.ctx
        s = ctx.rv(args[0])
        L = self.f(ctx, "len")
        ctx.write(Loc((self.oid, "sidx")), z3.Store(self.f(ctx, "sidx"), L, s.impl.idx))
        ctx.write(Loc((self.oid, "srank")), z3.Store(self.f(ctx, "srank"), L, s.rank))
        ctx.write(Loc((self.oid, "len")), L + 1)
        return VOID

    def m_empty(self, I, args, n):
        return self.f(I.ctx, "len") == 0

    def m_size(self, I, args, n):
        return self.f(I.ctx, "len")

    def m_begin(self, I, args, n):
        return VecIter(self, z3.IntVal(0))

    def m_end(self, I, args, n):
        return VecIter(self, self.f(I.ctx, "len"))

    def elem_loc(self, idx):
        return SurvRef(self, idx)

    def op(self, I, op, rest, n, a0):
        if op == "[]":
            i = I.ctx.rv(rest[0])
            I.ctx.oblige("vector-index-in-range@%s" % extract.line_of(n), z3.And(i >= 0, i < self.f(I.ctx, "len")), kind="bounds")
            return SurvRef(self, i)
        return NotImplemented


class SurvRef(Obj):
    cls = "Survivor&"

    def __init__(self, vec, idx):
        Obj.__init__(self, name="survivor")
        self.vec, self.idx = vec, idx

    def member(self, ctx, name, node):
        if name == "rank":
            return self.vec.f(ctx, "srank")[self.idx]
        if name == "impl":
            return Ptr(ImplObj(self.vec.k, self.vec.f(ctx, "sidx")[self.idx]), z3.BoolVal(False))
        if name == "call":
            return CallObj(self.vec.k)
        return Wild(name=name)


class SurvObj(Obj):
    cls = "Survivor"

    def __init__(self, impl, rank):
        Obj.__init__(self, name="survivor_value")
        self.impl, self.rank = impl, rank


class CallObj(Obj):
    cls = "NormalizedCall"

    def __init__(self, k):
        Obj.__init__(self, name="call")
        self.k = k

    def member(self, ctx, name, node):
        if name == "defaults_used":
            return ctx.store[(self.k.g.oid, "defaults_used")]
        if name == "kwargs":
            return Vec(ctx, "kwargs", length=z3.IntVal(0))
        return Wild(name=name)


class Resolve(Kernel):
    name = "operator_dispatch.cpp:OperatorRegistry::resolve"
    tu = "src/hgraph/types/operator_dispatch.cpp"
    filter = "OperatorRegistry::resolve"
    fn_name = "resolve"
    property_ids = ("C19",)
    scope = {"lo": 0, "hi": 3}
    title = "resolve: the unique survivor of minimum rank is selected; none -> resolution error; shared minimum -> ambiguity error"
    max_paths = 20000

    def setup(self, I):
        ctx = I.ctx
        th = Obj("OperatorRegistry", "this_registry")
        self.th = th
        g = Obj("ghost", "rg")
        self.g = g
        self.N = z3.Int("n_candidates")
        self.known = z3.Bool("name_registered")
        self.norm_ok = z3.Array("normalize_ok", I_, B_)
        self.match_ok = z3.Array("match_ok", I_, B_)
        self.adj = z3.Array("rank_adjustment", I_, I_)
        self.impl_rank = z3.Array("impl_rank", I_, I_)
        ctx.store[(g.oid, "defaults_used")] = z3.Int("defaults_used0")
        ctx.assume(self.N >= 0)
        self.impls = Vec(ctx, "family", length=self.N, elem=lambda i: ImplObj(self, i))
        ctx.store[(th.oid, "overloads_")] = OverloadMap(self)
        self.sv = None
        return th, {"name": z3.Int("op_name"), "args": Wild(name="args"), "output_required": Opt(z3.Bool("or_has"), z3.Bool("or_v")),
                    "expected_output": Ptr(None), "size_hints": Vec(ctx, "size_hints", length=z3.IntVal(0)),
                    "global_state": Wild(name="global_state"), "wiring": Ptr(None), "initial_resolution": Ptr(None)}

    def surv(self, i):
        return z3.And(self.norm_ok[i], self.match_ok[i])

    def rk(self, i):
        return self.impl_rank[i] + self.adj[i]

    def function_handler(self, name, node, callee_node):
        h = getattr(self, "f_" + name, None)
        if h is not None:
            return h
        if name in ("format", "join"):
            return lambda I, a, n: I.ctx.fresh("text")
        return Kernel.function_handler(self, name, node, callee_node)

    def method_handler(self, obj, name, node):
        if isinstance(obj, Wild):
            if name == "size":
                return lambda I, o, a, n: I.ctx.fresh("wild_size")
            if name == "empty":
                return lambda I, o, a, n: I.ctx.fresh("wild_empty", "bool")
            return lambda I, o, a, n: Wild(name=name)
        return Kernel.method_handler(self, obj, name, node)

    def f_normalize_call(self, I, args, n):
        ctx = I.ctx
        impl = ctx.rv(args[0])
        ctx.write(Loc((self.g.oid, "defaults_used")), ctx.fresh("defaults_used"))
        return self.norm_ok[impl.idx]

    def f_try_match(self, I, args, n):
        ctx = I.ctx
        impl = ctx.rv(args[0])
        ra = args[6]
        if not isinstance(ra, Loc):
            raise Gap("try_match: rank_adjustment is not passed by reference")
        ctx.write(ra, self.adj[impl.idx])
        flag = args[10]
        if isinstance(flag, Loc):
            ctx.write(flag, ctx.fresh("any_requires_rejected", "bool"))
        return self.match_ok[impl.idx]

    def f_stable_sort(self, I, args, n):
        """std::stable_sort(begin, end, by rank): a stable sorted permutation of the survivors"""
        ctx = I.ctx
        b, e = ctx.rv(args[0]), ctx.rv(args[1])
        sv = b.vec
        L = sv.f(ctx, "len")
        ctx.oblige("callee-pre.stable_sort:whole-survivor-range", z3.And(b.idx == 0, e.idx == L), kind="callee-pre")
        i0, r0 = sv.f(ctx, "sidx"), sv.f(ctx, "srank")
        i1, r1 = ctx.fresh("sorted_idx", i0.sort()), ctx.fresh("sorted_rank", r0.sort())
        pi, inv = ctx.fresh("perm", i0.sort()), ctx.fresh("perm_inv", i0.sort())
        rng = lambda v: z3.And(v >= 0, v < L)
        ctx.assume(z3.ForAll([qa], z3.Implies(rng(qa), z3.And(rng(pi[qa]), rng(inv[qa]), inv[pi[qa]] == qa, pi[inv[qa]] == qa,
                                                            i1[qa] == i0[pi[qa]], r1[qa] == r0[pi[qa]]))))
        # the same permutation read from the unsorted side (redundant, helps instantiation)
        ctx.assume(z3.ForAll([qa], z3.Implies(rng(qa), z3.And(i0[qa] == i1[inv[qa]], r0[qa] == r1[inv[qa]]))))
        ctx.assume(z3.ForAll([qa, qb], z3.Implies(z3.And(rng(qa), rng(qb), qa < qb), z3.And(
            r1[qa] <= r1[qb], z3.Implies(r1[qa] == r1[qb], pi[qa] < pi[qb])))))
        ctx.write(Loc((sv.oid, "sidx")), i1)
        ctx.write(Loc((sv.oid, "srank")), r1)
        return VOID

    def f_min_element(self, I, args, n):
        """std::min_element(begin, end, by rank): iterator to the first element of minimum rank (end for an empty range)"""
        ctx = I.ctx
        b, e = ctx.rv(args[0]), ctx.rv(args[1])
        sv = b.vec
        L = sv.f(ctx, "len")
        ctx.oblige("callee-pre.min_element:whole-survivor-range", z3.And(b.idx == 0, e.idx == L), kind="callee-pre")
        r = sv.f(ctx, "srank")
        m = ctx.fresh("min_pos")
        ctx.assume(z3.If(L == 0, m == 0, z3.And(m >= 0, m < L, z3.ForAll([qa], z3.Implies(z3.And(qa >= 0, qa < L), z3.And(
            r[m] <= r[qa], z3.Implies(qa < m, r[m] < r[qa])))))))
        return VecIter(sv, m)

    def f_iter_swap(self, I, args, n):
        ctx = I.ctx
        a, b = ctx.rv(args[0]), ctx.rv(args[1])
        sv = a.vec
        L = sv.f(ctx, "len")
        ctx.oblige("callee-pre.iter_swap:dereferenceable", z3.And(a.idx >= 0, a.idx < L, b.idx >= 0, b.idx < L), kind="callee-pre")
        for nm in ("sidx", "srank"):
            arr = sv.f(ctx, nm)
            ctx.write(Loc((sv.oid, nm)), z3.Store(z3.Store(arr, a.idx, arr[b.idx]), b.idx, arr[a.idx]))
        return VOID

    def ctor_handler(self, qt, node):
        if "iterator" in qt:
            return lambda I, args, n: I.ctx.rv(args[0])
        if "Survivor" in qt and ("vector<" in qt):
            def mkv(I, args, n):
                self.sv = SurvVec(I.ctx, self)
                return self.sv
            return mkv
        if qt.endswith("Survivor"):
            def mks(I, args, n):
                a = [I.ctx.rv(x) for x in args]
                if len(a) == 1 and isinstance(a[0], SurvObj):
                    return a[0]
                return SurvObj(a[0].target, a[3])
            return mks
        if qt.endswith("NormalizedCall"):
            return lambda I, args, n: I.ctx.rv(args[0]) if args else CallObj(self)
        if qt.endswith("ResolvedOperatorCall"):
            def mkr(I, args, n):
                a = [I.ctx.rv(x) for x in args]
                if len(a) == 1 and isinstance(a[0], Obj) and a[0].cls == "ResolvedOperatorCall":
                    return a[0]
                o = Obj("ResolvedOperatorCall", "resolved")
                o.impl = a[0]
                return o
            return mkr
        if qt.endswith("WiringResolutionEvent") or qt.endswith("ResolutionMap") or "vector<std::pair<" in qt \
                or qt.endswith("WiringArg"):
            return lambda I, args, n: I.ctx.rv(args[0]) if args and isinstance(I.ctx.rv(args[0]), Obj) else Wild(name=qt[-20:])
        return Kernel.ctor_handler(self, qt, node)

    def default_value(self, I, qt, d):
        v = Kernel.default_value(self, I, qt, d)
        if v is not None:
            return v
        from cxxvc.interp import strip_type
        s = strip_type(qt)
        if s.startswith("std::vector<") or s == "std::string" or s.startswith("std::basic_string"):
            if "string>" in s or s.startswith("std::vector<std::string") or s.startswith("std::vector<std::basic_string"):
                return Vec(I.ctx, d.get("name", "vec"), length=z3.IntVal(0))
            return I.ctx.fresh("str") if "string" in s and "vector" not in s else None
        return None

    # loops in source order: 0 diagnostics args, 1 candidates, 2 params, 3 size names, 4 tied, 5 kwargs
    def inv_candidates(self, I, ctx):
        pos = self.range_pos(I)
        sv = self.sv
        L, si, sr = sv.f(ctx, "len"), sv.f(ctx, "sidx"), sv.f(ctx, "srank")
        yield "pos-range", z3.And(pos >= 0, pos <= self.N, L >= 0)
        yield "survivors-are-exactly-the-matching-candidates-seen-so-far,in-order", z3.And(
            z3.ForAll([qa], z3.Implies(z3.And(qa >= 0, qa < L), z3.And(si[qa] >= 0, si[qa] < pos, self.surv(si[qa]),
                                                                     sr[qa] == self.rk(si[qa])))),
            z3.ForAll([qa, qb], z3.Implies(z3.And(qa >= 0, qa < qb, qb < L), si[qa] < si[qb])),
            z3.ForAll([qk], z3.Implies(z3.And(qk >= 0, qk < pos, self.surv(qk)), z3.Exists([qa], z3.And(qa >= 0, qa < L, si[qa] == qk)))))
        yield "found", self.known

    def frame_candidates(self, I, ctx):
        sv = self.sv
        fr = [Loc((sv.oid, nm)) for nm in ("len", "sidx", "srank")]
        rej = self.local_obj(I, "rejected")
        fr += [rej.loc("len"), rej.loc("data"), Loc((self.g.oid, "defaults_used"))]
        return fr

    def inv_tied(self, I, ctx):
        pos = self.range_pos(I)
        yield "pos-range", z3.And(pos >= 0, pos <= self.sv.f(ctx, "len"))

    def frame_tied(self, I, ctx):
        t = self.local_obj(I, "tied")
        return [t.loc("len"), t.loc("data")]

    @property
    def loops(self):
        return {0: LoopSpec(unroll=0, unwind_assert=True), 1: LoopSpec(self.inv_candidates, self.frame_candidates),
                2: LoopSpec(unroll=0, unwind_assert=True), 3: LoopSpec(unroll=0, unwind_assert=True),
                4: LoopSpec(self.inv_tied, self.frame_tied), 5: LoopSpec(unroll=0, unwind_assert=True)}

    def unique_min(self, w):
        return z3.And(w >= 0, w < self.N, self.surv(w),
                      z3.ForAll([qk], z3.Implies(z3.And(qk >= 0, qk < self.N, qk != w, self.surv(qk)), self.rk(qk) > self.rk(w))))

    def post(self, I, ret):
        ctx = I.ctx
        w = ret.impl.target.idx
        ctx.oblige("ensures.selected=the-unique-matching-candidate-of-minimum-rank[C19 unique most specific match; the winner "
                   "is a function of the set of (candidate, rank), so registration order cannot matter]",
                   z3.And(self.known, self.unique_min(w)), kind="post-normal")

    def post_exc(self, I, exc):
        ctx = I.ctx
        any_surv = z3.Exists([qk], z3.And(qk >= 0, qk < self.N, self.surv(qk)))
        shared_min = z3.Exists([qa, qb], z3.And(qa >= 0, qa < self.N, qb >= 0, qb < self.N, qa != qb, self.surv(qa), self.surv(qb),
                                                self.rk(qa) == self.rk(qb),
                                                z3.ForAll([qk], z3.Implies(z3.And(qk >= 0, qk < self.N, self.surv(qk)),
                                                                           self.rk(qk) >= self.rk(qa)))))
        is_res = z3.BoolVal(exc.cls.endswith("OperatorResolutionError"))
        is_req = z3.BoolVal(exc.cls.endswith("OperatorRequirementsError"))
        ctx.oblige("raises.resolution-error-iff-nothing-matches,ambiguity-error-iff-the-best-rank-is-shared[C19]",
                   z3.Or(z3.And(is_res, z3.Or(z3.Not(self.known), self.N == 0)),
                         z3.And(z3.Or(is_res, is_req), self.known, self.N > 0, z3.Not(any_surv)),
                         z3.And(is_res, self.known, shared_min)), kind="post-exceptional")


class OverloadMap(Obj):
    cls = "std::map<name, family>"

    def __init__(self, k):
        Obj.__init__(self, name="overloads_")
        self.k = k

    def m_find(self, I, args, n):
        return FamilyIter(self.k, z3.Not(self.k.known))

    def m_end(self, I, args, n):
        return FamilyIter(self.k, z3.BoolVal(True))


class FamilyIter(Obj):
    cls = "map iterator"
    is_value = True

    def __init__(self, k, is_end):
        Obj.__init__(self, name="family_iter")
        self.k, self.is_end = k, is_end

    def compare(self, I, op, other):
        e = z3.And(self.is_end, other.is_end) if not z3.is_true(z3.simplify(other.is_end)) else self.is_end
        return e if op == "==" else z3.Not(e)

    def op(self, I, op, rest, n, a0):
        if op in ("==", "!="):
            return self.compare(I, op, rest[0])
        return NotImplemented

    def arrow(self, I):
        from cxxvc.interp import Pair
        I.ctx.oblige("map-iterator-valid", z3.Not(self.is_end), kind="iterator")
        return Pair(z3.IntVal(0), self.k.impls)


models.install_guards(Resolve)
KERNELS += [Resolve]
