"""C19 -- operator resolution: consistent variable binding (type_resolution.h ResolutionMap::bind_*) and the
specificity rank functions (type_pattern.cpp scalar_pattern_rank / ts_pattern_rank) against recursive spec functions.
The candidate selection loop of OperatorRegistry::resolve is not under contract yet (see not_decided)."""
import z3

from cxxvc.kernel import Kernel, LoopSpec, Lemma
from cxxvc.interp import Obj, Ptr, Loc, Opt, Gap, VOID
from cxxvc import extract, models
from cxxvc.models import MapKV, Vec

I_ = z3.IntSort()
qk, qj = z3.Ints("qk qj")


# ------------------------------------------------------------------ ResolutionMap::bind_*


class BindKernel(Kernel):
    tu = "src/hgraph/types/operator_dispatch.cpp"
    filter = "ResolutionMap"
    cls = "ResolutionMap"
    property_ids = ("C19",)
    scope = {"lo": 0, "hi": 3}
    field = None
    pointer_value = True

    def setup(self, I):
        ctx = I.ctx
        th = Obj("ResolutionMap", "this_map")
        self.th = th
        self.maps = {}
        for f in ("ts_vars", "scalar_vars", "size_vars"):
            self.maps[f] = MapKV(ctx, f)
            ctx.store[(th.oid, f)] = self.maps[f]
        self.m = self.maps[self.field]
        self.has0, self.val0 = self.m.has(ctx), self.m.val(ctx)
        self.name_ = z3.Int("name")
        self.v = z3.Int("value")
        ctx.assume(z3.And(self.name_ >= 0))
        if self.pointer_value:
            # pointers: 0 is nullptr; stored values are never null
            ctx.assume(z3.ForAll([qk], z3.Implies(self.has0[qk], self.val0[qk] != 0)))
        arg = self.v
        return th, {"name": self.name_, self.argname: arg}

    def function_handler(self, name, node, callee_node):
        if name == "format":
            return lambda I, a, n: I.ctx.fresh("fmt_string")
        return Kernel.function_handler(self, name, node, callee_node)

    def others_untouched(self, ctx):
        conds = []
        for f, m in self.maps.items():
            if m is not self.m:
                conds.append(z3.And(m.has(ctx) == z3.Array(f + "_has0", I_, z3.BoolSort()), m.val(ctx) == z3.Array(f + "_val0", I_, I_)))
        return z3.And(*conds)

    def post(self, I, ret):
        ctx = I.ctx
        has, val = self.m.has(ctx), self.m.val(ctx)
        n_, v = self.name_, self.v
        ctx.oblige("ensures.bound-to-the-value[C19 every type variable bound to one type across all positions]",
                   z3.And(has[n_], val[n_] == v), kind="post-normal")
        ctx.oblige("ensures.absent=>inserted,present-with-the-same-value=>unchanged,no-other-key-changes[C19 monotone]",
                   z3.And(z3.Implies(self.has0[n_], self.val0[n_] == v),
                          z3.ForAll([qk], z3.Implies(qk != n_, z3.And(has[qk] == self.has0[qk], val[qk] == self.val0[qk])))),
                   kind="post-normal")
        ctx.oblige("ensures.other-variable-kinds-untouched", self.others_untouched(ctx), kind="post-normal")
        if self.pointer_value:
            ctx.oblige("ensures.never-null", v != 0, kind="post-normal")

    def post_exc(self, I, exc):
        ctx = I.ctx
        has, val = self.m.has(ctx), self.m.val(ctx)
        n_, v = self.name_, self.v
        conflict = z3.And(self.has0[n_], self.val0[n_] != v)
        null = (v == 0) if self.pointer_value else z3.BoolVal(False)
        ctx.oblige("raises.logic_error-iff-null-or-inconsistent-rebinding[C19 bind rejects inconsistent re-binding]",
                   z3.And(z3.BoolVal(exc.cls == "std::logic_error"), z3.Or(null, conflict)), kind="post-exceptional")
        ctx.oblige("raises.bindings-unchanged", z3.And(has == self.has0, z3.ForAll([qk], z3.Implies(has[qk], val[qk] == self.val0[qk])),
                                                       self.others_untouched(ctx)), kind="post-exceptional")


class BindTs(BindKernel):
    name = "type_resolution.h:ResolutionMap::bind_ts"
    fn_name = "bind_ts"
    field = "ts_vars"
    argname = "meta"
    title = "bind_ts: absent -> inserted; same -> unchanged; different -> logic_error"



class BindScalar(BindTs):
    name = "type_resolution.h:ResolutionMap::bind_scalar"
    fn_name = "bind_scalar"
    field = "scalar_vars"
    title = "bind_scalar: absent -> inserted; same -> unchanged; different -> logic_error"


class BindSize(BindKernel):
    name = "type_resolution.h:ResolutionMap::bind_size"
    fn_name = "bind_size"
    field = "size_vars"
    argname = "size"
    pointer_value = False
    title = "bind_size: absent -> inserted; same -> unchanged; different -> logic_error"


# ------------------------------------------------------------------ rank functions

LARGE_RANK, SCALAR_VAR_RANK = 10000, 100
SC = {"Var": 0, "Concrete": 1, "UnknownTuple": 2, "HomogeneousTuple": 3, "FixedTuple": 4, "Set": 5, "Map": 6, "Series": 7,
      "Frame": 8, "Array": 9, "Bundle": 10}
TS = {"Var": 0, "Concrete": 1, "TS": 2, "TSS": 3, "TSL": 4, "TSD": 5, "TSW": 6, "TSB": 7, "REF": 8, "Signal": 9}

R_sc = z3.Function("spec_scalar_rank", I_, I_)      # spec: rank of scalar pattern id
R_ts = z3.Function("spec_ts_rank", I_, I_)          # spec: rank of time-series pattern id
child = z3.Function("child", I_, I_, I_)            # child(id, j): id of the j-th child pattern
PS_sc = z3.Function("half_rank_prefix_sum", I_, I_, I_)  # sum over j < k of R_sc(child(id, j)) / 2
PS_ts = z3.Function("rank_prefix_sum", I_, I_, I_)       # sum over j < k of R_ts(child(id, j))


def cdiv2(x):
    return z3.If(x >= 0, x / 2, -((-x) / 2))


class PatObj(Obj):
    cls = "pattern"

    def __init__(self, k, pid, scalar):
        Obj.__init__(self, name="pattern")
        self.k, self.pid, self.scalar = k, pid, scalar

    def member(self, ctx, name, node):
        k, p = self.k, self.pid
        if name == "kind":
            return k.kind(p)
        if name == "constraints":
            return SizeOnlyVec(k.ncons(p))
        if name == "children":
            return Vec(ctx, "children", length=k.nch(p), elem=lambda j: PatObj(k, child(p, j), self.scalar))
        if name == "scalar":
            return PatObj(k, k.scal(p), True)
        if name in ("schema_var", "size_var", "any_window"):
            return z3.Function(name, I_, z3.BoolSort())(p)
        if name == "fixed_size":
            return z3.Function("fixed_size", I_, I_)(p)
        if name == "bundle_origin":
            return StrObj(z3.Function("bundle_origin_empty", I_, z3.BoolSort())(p))
        raise Gap("pattern member %s" % name)


class StrObj(Obj):
    cls = "std::string"

    def __init__(self, empty):
        Obj.__init__(self, name="string")
        self.e = empty

    def m_empty(self, I, args, n):
        return self.e


class SizeOnlyVec(Obj):
    cls = "vector"

    def __init__(self, n):
        Obj.__init__(self, name="vector")
        self.n = n

    def m_empty(self, I, args, n):
        return self.n == 0


class RankKernel(Kernel):
    tu = "src/hgraph/types/type_pattern.cpp"
    property_ids = ("C19",)
    scope = {"lo": 0, "hi": 3}

    def kind(self, p):
        return z3.Function("kind", I_, I_)(p)

    def ncons(self, p):
        return z3.Function("n_constraints", I_, I_)(p)

    def nch(self, p):
        return z3.Function("n_children", I_, I_)(p)

    def scal(self, p):
        return z3.Function("scalar_of", I_, I_)(p)

    def base(self, I):
        ctx = I.ctx
        self.p = z3.Int("pattern_id")
        ctx.assume(z3.And(self.nch(self.p) >= 0, self.ncons(self.p) >= 0))
        # induction hypothesis: the spec ranks of sub-patterns are non-negative, Concrete sub-patterns rank 0
        ctx.assume(z3.ForAll([qk], z3.And(R_sc(qk) >= 0, R_ts(qk) >= 0)))
        # prefix sums (definition)
        ctx.assume(z3.ForAll([qk], z3.And(PS_sc(qk, 0) == 0, PS_ts(qk, 0) == 0)))
        ctx.assume(z3.ForAll([qk, qj], z3.Implies(qj >= 0, z3.And(
            PS_sc(qk, qj + 1) == PS_sc(qk, qj) + cdiv2(R_sc(child(qk, qj))),
            PS_ts(qk, qj + 1) == PS_ts(qk, qj) + R_ts(child(qk, qj))))))

        # consequence of the two facts above by induction on j (base and step are proved in RankLemmas)
        ctx.assume(z3.ForAll([qk, qj], z3.Implies(qj >= 0, z3.And(PS_sc(qk, qj) >= 0, PS_ts(qk, qj) >= 0))))

    def function_handler(self, name, node, callee_node):
        if name == "scalar_pattern_rank":
            return lambda I, a, n: R_sc(I.ctx.rv(a[0]).pid)
        if name == "ts_pattern_rank":
            return lambda I, a, n: R_ts(I.ctx.rv(a[0]).pid)
        return Kernel.function_handler(self, name, node, callee_node)

    def global_var(self, I, ref, node):
        return {"LARGE_RANK": z3.IntVal(LARGE_RANK), "SCALAR_VAR_RANK": z3.IntVal(SCALAR_VAR_RANK)}.get(ref.get("name"))


class ScalarPatternRank(RankKernel):
    name = "type_pattern.cpp:scalar_pattern_rank"
    fn_name = "scalar_pattern_rank"
    filter = "scalar_pattern_rank"
    title = "scalar_pattern_rank against its recursive spec"

    def setup(self, I):
        self.base(I)
        return None, {"pattern": PatObj(self, self.p, True)}

    def inv(self, I, ctx):
        k = self.range_pos(I)
        yield "pos-range", z3.And(k >= 0, k <= self.nch(self.p))
        yield "rank=1+sum-of-half-ranks-so-far", self.local(I, "rank") == 1 + PS_sc(self.p, k)

    @property
    def loops(self):
        return {0: LoopSpec(self.inv), 1: LoopSpec(self.inv), 2: LoopSpec(self.inv)}

    def post(self, I, ret):
        ctx = I.ctx
        p, kd = self.p, self.kind(self.p)
        summ = 1 + PS_sc(p, self.nch(p))
        origin_empty = z3.Function("bundle_origin_empty", I_, z3.BoolSort())(p)
        schema_var = z3.Function("schema_var", I_, z3.BoolSort())(p)
        spec = z3.If(kd == SC["Var"], z3.If(self.ncons(p) == 0, SCALAR_VAR_RANK, SCALAR_VAR_RANK // 2),
               z3.If(kd == SC["Concrete"], 0,
               z3.If(kd == SC["UnknownTuple"], 1 + z3.If(self.nch(p) == 0, 0, cdiv2(R_sc(child(p, 0)))),
               z3.If(kd == SC["Bundle"], z3.If(origin_empty, z3.If(schema_var, SCALAR_VAR_RANK // 2, 1), summ),
               z3.If(z3.And(kd >= SC["HomogeneousTuple"], kd <= SC["Array"]), summ, 0)))))
        ctx.oblige("ensures.result=spec[C19 specificity rank]", ret == spec, kind="post-normal")
        ctx.oblige("ensures.non-negative,Concrete-is-most-specific[C19 most specific candidate]",
                   z3.And(ret >= 0, z3.Implies(kd == SC["Concrete"], ret == 0)), kind="post-normal")


class TsPatternRank(RankKernel):
    name = "type_pattern.cpp:ts_pattern_rank"
    fn_name = "ts_pattern_rank"
    filter = "ts_pattern_rank"
    title = "ts_pattern_rank against its recursive spec"

    def setup(self, I):
        self.base(I)
        I.ctx.assume(z3.Implies(z3.Or(*[self.kind(self.p) == TS[k] for k in ("TSL", "TSD", "REF")]), self.nch(self.p) >= 1))
        return None, {"pattern": PatObj(self, self.p, False)}

    def inv(self, I, ctx):
        k = self.range_pos(I)
        yield "pos-range", z3.And(k >= 0, k <= self.nch(self.p))
        yield "rank=1+sum-of-ranks-so-far", self.local(I, "rank") == 1 + PS_ts(self.p, k)

    @property
    def loops(self):
        return {0: LoopSpec(self.inv)}

    def post(self, I, ret):
        ctx = I.ctx
        p, kd = self.p, self.kind(self.p)
        B = lambda nm: z3.Function(nm, I_, z3.BoolSort())(p)
        fixed = z3.Function("fixed_size", I_, I_)(p)
        sc = R_sc(self.scal(p))
        c0 = R_ts(child(p, 0))
        spec = z3.If(kd == TS["Var"], z3.If(self.ncons(p) == 0, LARGE_RANK, LARGE_RANK // 2),
               z3.If(kd == TS["Concrete"], 0,
               z3.If(z3.Or(kd == TS["TS"], kd == TS["TSS"]), 1 + sc,
               z3.If(kd == TS["TSL"], 1 + c0 + z3.If(B("size_var"), 5, z3.If(fixed == 0, 10, 0)),
               z3.If(kd == TS["TSD"], 1 + sc + c0,
               z3.If(kd == TS["TSW"], 1 + sc + z3.If(B("any_window"), 10, 0),
               z3.If(kd == TS["TSB"], z3.If(B("schema_var"), LARGE_RANK // 2, 1 + PS_ts(p, self.nch(p))),
               z3.If(kd == TS["REF"], c0, 0))))))))
        ctx.oblige("ensures.result=spec[C19 specificity rank]", ret == spec, kind="post-normal")
        ctx.oblige("ensures.non-negative,Concrete-is-most-specific[C19]",
                   z3.And(ret >= 0, z3.Implies(kd == TS["Concrete"], ret == 0)), kind="post-normal")


class RankLemmas(Lemma):
    name = "lemma:rank-monotone"
    property_ids = ("C19",)
    title = "each rank combination is monotone in the ranks of its sub-patterns (a more specific sub-pattern never ranks the whole higher)"
    scope = {"lo": 0, "hi": 6}

    def lemmas(self):
        a, b, c, d = z3.Ints("a b c d")
        hyp = [a >= 0, b >= 0, c >= 0, d >= 0, a <= b, c <= d]
        yield "half-is-monotone", hyp, cdiv2(a) <= cdiv2(b)
        yield "TS/TSS/TSW:1+scalar", hyp, 1 + a <= 1 + b
        yield "TSD:1+key+value", hyp, 1 + a + c <= 1 + b + d
        yield "sum-step-monotone(TSB, tuples)", hyp, a + c <= b + d
        ps0, r = z3.Ints("prefix_sum next_rank")
        yield "prefix-sum-nonneg:base", [], z3.IntVal(0) >= 0
        yield "prefix-sum-nonneg:step(ts)", [ps0 >= 0, r >= 0], ps0 + r >= 0
        yield "prefix-sum-nonneg:step(scalar)", [ps0 >= 0, r >= 0], ps0 + cdiv2(r) >= 0
        yield "concrete-below-any-variable", [], z3.And(0 < SCALAR_VAR_RANK // 2, SCALAR_VAR_RANK // 2 < SCALAR_VAR_RANK,
                                                         0 < LARGE_RANK // 2, LARGE_RANK // 2 < LARGE_RANK)


KERNELS = [BindTs, BindScalar, BindSize, ScalarPatternRank, TsPatternRank]
LEMMAS = [RankLemmas]
