"""C19 -- operator resolution: consistent variable binding (type_resolution.h ResolutionMap::bind_*) and the
specificity rank functions (type_pattern.cpp scalar_pattern_rank / ts_pattern_rank) against recursive spec functions.
The candidate selection loop of OperatorRegistry::resolve is not under contract yet (see not_decided)."""
import z3

from cxxvc.kernel import Kernel, LoopSpec, Lemma
from cxxvc.interp import Obj, Ptr, Loc, Opt, Gap, VOID
from cxxvc import extract, models
from cxxvc.models import MapKV, Vec

I_ = z3.IntSort()
qk, qj = z3.Ints("qk qj")


# ------------------------------------------------------------------ ResolutionMap::bind_*


class BindKernel(Kernel):
    tu = "src/hgraph/types/operator_dispatch.cpp"
    filter = "ResolutionMap"
    cls = "ResolutionMap"
    property_ids = ("C19",)
    scope = {"lo": 0, "hi": 3}
    field = None
    pointer_value = True

    def setup(self, I):
        ctx = I.ctx
        th = Obj("ResolutionMap", "this_map")
        self.th = th
        self.maps = {}
        for f in ("ts_vars", "scalar_vars", "size_vars"):
            self.maps[f] = MapKV(ctx, f)
            ctx.store[(th.oid, f)] = self.maps[f]
        self.m = self.maps[self.field]
        self.has0, self.val0 = self.m.has(ctx), self.m.val(ctx)
        self.name_ = z3.Int("name")
        self.v = z3.Int("value")
        ctx.assume(z3.And(self.name_ >= 0))
        if self.pointer_value:
            # pointers: 0 is nullptr; stored values are never null
            ctx.assume(z3.ForAll([qk], z3.Implies(self.has0[qk], self.val0[qk] != 0)))
        arg = self.v
        return th, {"name": self.name_, self.argname: arg}

    def function_handler(self, name, node, callee_node):
        if name == "format":
            return lambda I, a, n: I.ctx.fresh("fmt_string")
        return Kernel.function_handler(self, name, node, callee_node)

    def others_untouched(self, ctx):
        conds = []
        for f, m in self.maps.items():
            if m is not self.m:
                conds.append(z3.And(m.has(ctx) == z3.Array(f + "_has0", I_, z3.BoolSort()), m.val(ctx) == z3.Array(f + "_val0", I_, I_)))
        return z3.And(*conds)

    def post(self, I, ret):
        ctx = I.ctx
        has, val = self.m.has(ctx), self.m.val(ctx)
        n_, v = self.name_, self.v
        ctx.oblige("ensures.bound-to-the-value[C19 every type variable bound to one type across all positions]",
                   z3.And(has[n_], val[n_] == v), kind="post-normal")
        ctx.oblige("ensures.absent=>inserted,present-with-the-same-value=>unchanged,no-other-key-changes[C19 monotone]",
                   z3.And(z3.Implies(self.has0[n_], self.val0[n_] == v),
                          z3.ForAll([qk], z3.Implies(qk != n_, z3.And(has[qk] == self.has0[qk], val[qk] == self.val0[qk])))),
                   kind="post-normal")
        ctx.oblige("ensures.other-variable-kinds-untouched", self.others_untouched(ctx), kind="post-normal")
        if self.pointer_value:
            ctx.oblige("ensures.never-null", v != 0, kind="post-normal")

    def post_exc(self, I, exc):
        ctx = I.ctx
        has, val = self.m.has(ctx), self.m.val(ctx)
        n_, v = self.name_, self.v
        conflict = z3.And(self.has0[n_], self.val0[n_] != v)
        null = (v == 0) if self.pointer_value else z3.BoolVal(False)
        ctx.oblige("raises.logic_error-iff-null-or-inconsistent-rebinding[C19 bind rejects inconsistent re-binding]",
                   z3.And(z3.BoolVal(exc.cls == "std::logic_error"), z3.Or(null, conflict)), kind="post-exceptional")
        ctx.oblige("raises.bindings-unchanged", z3.And(has == self.has0, z3.ForAll([qk], z3.Implies(has[qk], val[qk] == self.val0[qk])),
                                                       self.others_untouched(ctx)), kind="post-exceptional")


class BindTs(BindKernel):
    name = "type_resolution.h:ResolutionMap::bind_ts"
    fn_name = "bind_ts"
    field = "ts_vars"
    argname = "meta"
    title = "bind_ts: absent -> inserted; same -> unchanged; different -> logic_error"



class BindScalar(BindTs):
    name = "type_resolution.h:ResolutionMap::bind_scalar"
    fn_name = "bind_scalar"
    field = "scalar_vars"
    title = "bind_scalar: absent -> inserted; same -> unchanged; different -> logic_error"


class BindSize(BindKernel):
    name = "type_resolution.h:ResolutionMap::bind_size"
    fn_name = "bind_size"
    field = "size_vars"
    argname = "size"
    pointer_value = False
    title = "bind_size: absent -> inserted; same -> unchanged; different -> logic_error"


# ------------------------------------------------------------------ rank functions

LARGE_RANK, SCALAR_VAR_RANK = 10000, 100
SC = {"Var": 0, "Concrete": 1, "UnknownTuple": 2, "HomogeneousTuple": 3, "FixedTuple": 4, "Set": 5, "Map": 6, "Series": 7,
      "Frame": 8, "Array": 9, "Bundle": 10}
TS = {"Var": 0, "Concrete": 1, "TS": 2, "TSS": 3, "TSL": 4, "TSD": 5, "TSW": 6, "TSB": 7, "REF": 8, "Signal": 9}

R_sc = z3.Function("spec_scalar_rank", I_, I_)      # spec: rank of scalar pattern id
R_ts = z3.Function("spec_ts_rank", I_, I_)          # spec: rank of time-series pattern id
child = z3.Function("child", I_, I_, I_)            # child(id, j): id of the j-th child pattern
PS_sc = z3.Function("half_rank_prefix_sum", I_, I_, I_)  # sum over j < k of R_sc(child(id, j)) / 2
PS_ts = z3.Function("rank_prefix_sum", I_, I_, I_)       # sum over j < k of R_ts(child(id, j))


def cdiv2(x):
    return z3.If(x >= 0, x / 2, -((-x) / 2))


class PatObj(Obj):
    cls = "pattern"

    def __init__(self, k, pid, scalar):
        Obj.__init__(self, name="pattern")
        self.k, self.pid, self.scalar = k, pid, scalar

    def member(self, ctx, name, node):
        k, p = self.k, self.pid
        if name == "kind":
            return k.kind(p)
        if name == "constraints":
            return SizeOnlyVec(k.ncons(p))
        if name == "children":
            return Vec(ctx, "children", length=k.nch(p), elem=lambda j: PatObj(k, child(p, j), self.scalar))
        if name == "scalar":
            return PatObj(k, k.scal(p), True)
        if name in ("schema_var", "size_var", "any_window"):
            return z3.Function(name, I_, z3.BoolSort())(p)
        if name == "fixed_size":
            return z3.Function("fixed_size", I_, I_)(p)
        if name == "bundle_origin":
            return StrObj(z3.Function("bundle_origin_empty", I_, z3.BoolSort())(p))
        raise Gap("pattern member %s" % name)


class StrObj(Obj):
    cls = "std::string"

    def __init__(self, empty):
        Obj.__init__(self, name="string")
        self.e = empty

    def m_empty(self, I, args, n):
        return self.e


class SizeOnlyVec(Obj):
    cls = "vector"

    def __init__(self, n):
        Obj.__init__(self, name="vector")
        self.n = n

    def m_empty(self, I, args, n):
        return self.n == 0


class RankKernel(Kernel):
    tu = "src/hgraph/types/type_pattern.cpp"
    property_ids = ("C19",)
    scope = {"lo": 0, "hi": 3}

    def kind(self, p):
        return z3.Function("kind", I_, I_)(p)

    def ncons(self, p):
        return z3.Function("n_constraints", I_, I_)(p)

    def nch(self, p):
        return z3.Function("n_children", I_, I_)(p)

    def scal(self, p):
        return z3.Function("scalar_of", I_, I_)(p)

    def base(self, I):
        ctx = I.ctx
        self.p = z3.Int("pattern_id")
        ctx.assume(z3.And(self.nch(self.p) >= 0, self.ncons(self.p) >= 0))
        # induction hypothesis: the spec ranks of sub-patterns are non-negative, Concrete sub-patterns rank 0
        ctx.assume(z3.ForAll([qk], z3.And(R_sc(qk) >= 0, R_ts(qk) >= 0)))
        # prefix sums (definition)
        ctx.assume(z3.ForAll([qk], z3.And(PS_sc(qk, 0) == 0, PS_ts(qk, 0) == 0)))
        ctx.assume(z3.ForAll([qk, qj], z3.Implies(qj >= 0, z3.And(
            PS_sc(qk, qj + 1) == PS_sc(qk, qj) + cdiv2(R_sc(child(qk, qj))),
            PS_ts(qk, qj + 1) == PS_ts(qk, qj) + R_ts(child(qk, qj))))))

        # consequence of the two facts above by induction on j (base and step are proved in RankLemmas)
        ctx.assume(z3.ForAll([qk, qj], z3.Implies(qj >= 0, z3.And(PS_sc(qk, qj) >= 0, PS_ts(qk, qj) >= 0))))

    def function_handler(self, name, node, callee_node):
        if name == "scalar_pattern_rank":
            return lambda I, a, n: R_sc(I.ctx.rv(a[0]).pid)
        if name == "ts_pattern_rank":
            return lambda I, a, n: R_ts(I.ctx.rv(a[0]).pid)
        return Kernel.function_handler(self, name, node, callee_node)

    def global_var(self, I, ref, node):
        return {"LARGE_RANK": z3.IntVal(LARGE_RANK), "SCALAR_VAR_RANK": z3.IntVal(SCALAR_VAR_RANK)}.get(ref.get("name"))


class ScalarPatternRank(RankKernel):
    name = "type_pattern.cpp:scalar_pattern_rank"
    fn_name = "scalar_pattern_rank"
    filter = "scalar_pattern_rank"
    title = "scalar_pattern_rank against its recursive spec"

    def setup(self, I):
        self.base(I)
        return None, {"pattern": PatObj(self, self.p, True)}

    def inv(self, I, ctx):
        k = self.range_pos(I)
        yield "pos-range", z3.And(k >= 0, k <= self.nch(self.p))
        yield "rank=1+sum-of-half-ranks-so-far", self.local(I, "rank") == 1 + PS_sc(self.p, k)

    @property
    def loops(self):
        return {0: LoopSpec(self.inv), 1: LoopSpec(self.inv), 2: LoopSpec(self.inv)}

    def post(self, I, ret):
        ctx = I.ctx
        p, kd = self.p, self.kind(self.p)
        summ = 1 + PS_sc(p, self.nch(p))
        origin_empty = z3.Function("bundle_origin_empty", I_, z3.BoolSort())(p)
        schema_var = z3.Function("schema_var", I_, z3.BoolSort())(p)
        spec = z3.If(kd == SC["Var"], z3.If(self.ncons(p) == 0, SCALAR_VAR_RANK, SCALAR_VAR_RANK // 2),
               z3.If(kd == SC["Concrete"], 0,
               z3.If(kd == SC["UnknownTuple"], 1 + z3.If(self.nch(p) == 0, 0, cdiv2(R_sc(child(p, 0)))),
               z3.If(kd == SC["Bundle"], z3.If(origin_empty, z3.If(schema_var, SCALAR_VAR_RANK // 2, 1), summ),
               z3.If(z3.And(kd >= SC["HomogeneousTuple"], kd <= SC["Array"]), summ, 0)))))
        ctx.oblige("ensures.result=spec[C19 specificity rank]", ret == spec, kind="post-normal")
        ctx.oblige("ensures.non-negative,Concrete-is-most-specific[C19 most specific candidate]",
                   z3.And(ret >= 0, z3.Implies(kd == SC["Concrete"], ret == 0)), kind="post-normal")


class TsPatternRank(RankKernel):
    name = "type_pattern.cpp:ts_pattern_rank"
    fn_name = "ts_pattern_rank"
    filter = "ts_pattern_rank"
    title = "ts_pattern_rank against its recursive spec"

    def setup(self, I):
        self.base(I)
        I.ctx.assume(z3.Implies(z3.Or(*[self.kind(self.p) == TS[k] for k in ("TSL", "TSD", "REF")]), self.nch(self.p) >= 1))
        return None, {"pattern": PatObj(self, self.p, False)}

    def inv(self, I, ctx):
        k = self.range_pos(I)
        yield "pos-range", z3.And(k >= 0, k <= self.nch(self.p))
        yield "rank=1+sum-of-ranks-so-far", self.local(I, "rank") == 1 + PS_ts(self.p, k)

    @property
    def loops(self):
        return {0: LoopSpec(self.inv)}

    def post(self, I, ret):
        ctx = I.ctx
        p, kd = self.p, self.kind(self.p)
        B = lambda nm: z3.Function(nm, I_, z3.BoolSort())(p)
        fixed = z3.Function("fixed_size", I_, I_)(p)
        sc = R_sc(self.scal(p))
        c0 = R_ts(child(p, 0))
        spec = z3.If(kd == TS["Var"], z3.If(self.ncons(p) == 0, LARGE_RANK, LARGE_RANK // 2),
               z3.If(kd == TS["Concrete"], 0,
               z3.If(z3.Or(kd == TS["TS"], kd == TS["TSS"]), 1 + sc,
               z3.If(kd == TS["TSL"], 1 + c0 + z3.If(B("size_var"), 5, z3.If(fixed == 0, 10, 0)),
               z3.If(kd == TS["TSD"], 1 + sc + c0,
               z3.If(kd == TS["TSW"], 1 + sc + z3.If(B("any_window"), 10, 0),
               z3.If(kd == TS["TSB"], z3.If(B("schema_var"), LARGE_RANK // 2, 1 + PS_ts(p, self.nch(p))),
               z3.If(kd == TS["REF"], c0, 0))))))))
        ctx.oblige("ensures.result=spec[C19 specificity rank]", ret == spec, kind="post-normal")
        ctx.oblige("ensures.non-negative,Concrete-is-most-specific[C19]",
                   z3.And(ret >= 0, z3.Implies(kd == TS["Concrete"], ret == 0)), kind="post-normal")


class RankLemmas(Lemma):
    name = "lemma:rank-monotone"
    property_ids = ("C19",)
    title = "each rank combination is monotone in the ranks of its sub-patterns (a more specific sub-pattern never ranks the whole higher)"
    scope = {"lo": 0, "hi": 6}

    def lemmas(self):
        a, b, c, d = z3.Ints("a b c d")
        hyp = [a >= 0, b >= 0, c >= 0, d >= 0, a <= b, c <= d]
        yield "half-is-monotone", hyp, cdiv2(a) <= cdiv2(b)
        yield "TS/TSS/TSW:1+scalar", hyp, 1 + a <= 1 + b
        yield "TSD:1+key+value", hyp, 1 + a + c <= 1 + b + d
        yield "sum-step-monotone(TSB, tuples)", hyp, a + c <= b + d
        ps0, r = z3.Ints("prefix_sum next_rank")
        yield "prefix-sum-nonneg:base", [], z3.IntVal(0) >= 0
        yield "prefix-sum-nonneg:step(ts)", [ps0 >= 0, r >= 0], ps0 + r >= 0
        yield "prefix-sum-nonneg:step(scalar)", [ps0 >= 0, r >= 0], ps0 + cdiv2(r) >= 0
        yield "concrete-below-any-variable", [], z3.And(0 < SCALAR_VAR_RANK // 2, SCALAR_VAR_RANK // 2 < SCALAR_VAR_RANK,
                                                         0 < LARGE_RANK // 2, LARGE_RANK // 2 < LARGE_RANK)


KERNELS = [BindTs, BindScalar, BindSize, ScalarPatternRank, TsPatternRank]
LEMMAS = [RankLemmas]


# =====================================================================================================
# OperatorRegistry::resolve -- the selection skeleton
# =====================================================================================================
# Verified configuration (stated in the evidence): no wiring observers (wiring == nullptr, so the diagnostic-only
# code is dead), no caller-pinned size hints, the winner has no keyword arguments.  normalize_call and try_match are
# opaque but deterministic per candidate: norm_ok[i], match_ok[i], adj[i] (rank adjustment).

from cxxvc.interp import ThrowEx, ExcVal  # noqa: E402
from cxxvc.models import VecIter  # noqa: E402

B_ = z3.BoolSort()
qa, qb = z3.Ints("qa qb")


class Wild(Obj):
    """diagnostic / bookkeeping object whose content does not matter for the selection"""
    cls = "wild"

    def member(self, ctx, name, node):
        return Wild(name=name)

    def call(self, I, args, n):
        return Wild(name="result")

    def assign(self, I, v):
        return self

    def op(self, I, op, rest, n, a0):
        if op == "=":
            return self
        if op in ("==", "!=", "<", ">", "<=", ">="):
            return I.ctx.fresh("wild_compare", "bool")
        return Wild(name="result")


class ImplObj(Obj):
    cls = "OperatorImpl"

    def __init__(self, k, idx):
        Obj.__init__(self, name="impl")
        self.k, self.idx = k, idx

    def same_as(self, other):
        return self.idx == other.idx

    def member(self, ctx, name, node):
        if name == "rank":
            return self.k.impl_rank[self.idx]
        return Wild(name=name)


class SurvVec(Obj):
    """std::vector<Survivor>: len, sidx[] (candidate index), srank[]"""
    cls = "std::vector<Survivor>"

    def __init__(self, ctx, k):
        Obj.__init__(self, name="survivors")
        self.k = k
        ctx.store[(self.oid, "len")] = z3.IntVal(0)
        ctx.store[(self.oid, "sidx")] = z3.K(I_, z3.IntVal(-1))
        ctx.store[(self.oid, "srank")] = z3.K(I_, z3.IntVal(0))

    def f(self, ctx, nm):
        return ctx.store[(self.oid, nm)]

    def length(self, ctx):
        return self.f(ctx, "len")

    def m_push_back(self, I, args, n):
        ctx = I.ctx
        s = ctx.rv(args[0])
        L = self.f(ctx, "len")
        ctx.write(Loc((self.oid, "sidx")), z3.Store(self.f(ctx, "sidx"), L, s.impl.idx))
        ctx.write(Loc((self.oid, "srank")), z3.Store(self.f(ctx, "srank"), L, s.rank))
        ctx.write(Loc((self.oid, "len")), L + 1)
        return VOID

    def m_empty(self, I, args, n):
        return self.f(I.ctx, "len") == 0

    def m_size(self, I, args, n):
        return self.f(I.ctx, "len")

    def m_begin(self, I, args, n):
        return VecIter(self, z3.IntVal(0))

    def m_end(self, I, args, n):
        return VecIter(self, self.f(I.ctx, "len"))

    def elem_loc(self, idx):
        return SurvRef(self, idx)

    def m_back(self, I, args, n):
        I.ctx.oblige("vector-back-nonempty@%s" % extract.line_of(n), self.f(I.ctx, "len") > 0, kind="bounds")
        return SurvRef(self, self.f(I.ctx, "len") - 1)

    def m_front(self, I, args, n):
        I.ctx.oblige("vector-front-nonempty@%s" % extract.line_of(n), self.f(I.ctx, "len") > 0, kind="bounds")
        return SurvRef(self, z3.IntVal(0))

    def op(self, I, op, rest, n, a0):
        if op == "[]":
            i = I.ctx.rv(rest[0])
            I.ctx.oblige("vector-index-in-range@%s" % extract.line_of(n), z3.And(i >= 0, i < self.f(I.ctx, "len")), kind="bounds")
            return SurvRef(self, i)
        return NotImplemented


class SurvRef(Obj):
    cls = "Survivor&"

    def __init__(self, vec, idx):
        Obj.__init__(self, name="survivor")
        self.vec, self.idx = vec, idx

    def member(self, ctx, name, node):
        if name == "rank":
            return self.vec.f(ctx, "srank")[self.idx]
        if name == "impl":
            return Ptr(ImplObj(self.vec.k, self.vec.f(ctx, "sidx")[self.idx]), z3.BoolVal(False))
        if name == "call":
            return CallObj(self.vec.k)
        return Wild(name=name)


class SurvObj(Obj):
    cls = "Survivor"

    def __init__(self, impl, rank):
        Obj.__init__(self, name="survivor_value")
        self.impl, self.rank = impl, rank


class CallObj(Obj):
    cls = "NormalizedCall"

    def __init__(self, k):
        Obj.__init__(self, name="call")
        self.k = k

    def member(self, ctx, name, node):
        if name == "defaults_used":
            return ctx.store[(self.k.g.oid, "defaults_used")]
        if name == "kwargs":
            return Vec(ctx, "kwargs", length=z3.IntVal(0))
        return Wild(name=name)


class Resolve(Kernel):
    name = "operator_dispatch.cpp:OperatorRegistry::resolve"
    tu = "src/hgraph/types/operator_dispatch.cpp"
    filter = "OperatorRegistry::resolve"
    fn_name = "resolve"
    property_ids = ("C19",)
    scope = {"lo": 0, "hi": 3}
    title = "resolve: the unique survivor of minimum rank is selected; none -> resolution error; shared minimum -> ambiguity error"
    max_paths = 20000
    bounded_fallback = 3        # a rewritten selection step (new loops): searched over at most three candidates, a pass proves nothing

    def bound_sizes(self, I, n):
        I.ctx.assume(self.N <= n)

    def setup(self, I):
        ctx = I.ctx
        th = Obj("OperatorRegistry", "this_registry")
        self.th = th
        g = Obj("ghost", "rg")
        self.g = g
        self.N = z3.Int("n_candidates")
        self.known = z3.Bool("name_registered")
        self.norm_ok = z3.Array("normalize_ok", I_, B_)
        self.match_ok = z3.Array("match_ok", I_, B_)
        self.adj = z3.Array("rank_adjustment", I_, I_)
        self.impl_rank = z3.Array("impl_rank", I_, I_)
        ctx.store[(g.oid, "defaults_used")] = z3.Int("defaults_used0")
        ctx.assume(self.N >= 0)
        self.impls = Vec(ctx, "family", length=self.N, elem=lambda i: ImplObj(self, i))
        ctx.store[(th.oid, "overloads_")] = OverloadMap(self)
        self.sv = None
        return th, {"name": z3.Int("op_name"), "args": Wild(name="args"), "output_required": Opt(z3.Bool("or_has"), z3.Bool("or_v")),
                    "expected_output": Ptr(None), "size_hints": Vec(ctx, "size_hints", length=z3.IntVal(0)),
                    "global_state": Wild(name="global_state"), "wiring": Ptr(None), "initial_resolution": Ptr(None)}

    def surv(self, i):
        return z3.And(self.norm_ok[i], self.match_ok[i])

    def rk(self, i):
        return self.impl_rank[i] + self.adj[i]

    def function_handler(self, name, node, callee_node):
        h = getattr(self, "f_" + name, None)
        if h is not None:
            return h
        if name in ("format", "join"):
            return lambda I, a, n: I.ctx.fresh("text")
        return Kernel.function_handler(self, name, node, callee_node)

    def method_handler(self, obj, name, node):
        if isinstance(obj, Wild):
            if name == "size":
                return lambda I, o, a, n: I.ctx.fresh("wild_size")
            if name == "empty":
                return lambda I, o, a, n: I.ctx.fresh("wild_empty", "bool")
            return lambda I, o, a, n: Wild(name=name)
        return Kernel.method_handler(self, obj, name, node)

    def f_normalize_call(self, I, args, n):
        ctx = I.ctx
        impl = ctx.rv(args[0])
        ctx.write(Loc((self.g.oid, "defaults_used")), ctx.fresh("defaults_used"))
        return self.norm_ok[impl.idx]

    def f_try_match(self, I, args, n):
        ctx = I.ctx
        impl = ctx.rv(args[0])
        ra = args[6]
        if not isinstance(ra, Loc):
            raise Gap("try_match: rank_adjustment is not passed by reference")
        ctx.write(ra, self.adj[impl.idx])
        flag = args[10]
        if isinstance(flag, Loc):
            ctx.write(flag, ctx.fresh("any_requires_rejected", "bool"))
        return self.match_ok[impl.idx]

    def f_stable_sort(self, I, args, n):
        """std::stable_sort(begin, end, by rank): a stable sorted permutation of the survivors"""
        ctx = I.ctx
        b, e = ctx.rv(args[0]), ctx.rv(args[1])
        sv = b.vec
        L = sv.f(ctx, "len")
        ctx.oblige("callee-pre.stable_sort:whole-survivor-range", z3.And(b.idx == 0, e.idx == L), kind="callee-pre")
        i0, r0 = sv.f(ctx, "sidx"), sv.f(ctx, "srank")
        i1, r1 = ctx.fresh("sorted_idx", i0.sort()), ctx.fresh("sorted_rank", r0.sort())
        pi, inv = ctx.fresh("perm", i0.sort()), ctx.fresh("perm_inv", i0.sort())
        rng = lambda v: z3.And(v >= 0, v < L)
        ctx.assume(z3.ForAll([qa], z3.Implies(rng(qa), z3.And(rng(pi[qa]), rng(inv[qa]), inv[pi[qa]] == qa, pi[inv[qa]] == qa,
                                                            i1[qa] == i0[pi[qa]], r1[qa] == r0[pi[qa]]))))
        # the same permutation read from the unsorted side (redundant, helps instantiation)
        ctx.assume(z3.ForAll([qa], z3.Implies(rng(qa), z3.And(i0[qa] == i1[inv[qa]], r0[qa] == r1[inv[qa]]))))
        ctx.assume(z3.ForAll([qa, qb], z3.Implies(z3.And(rng(qa), rng(qb), qa < qb), z3.And(
            r1[qa] <= r1[qb], z3.Implies(r1[qa] == r1[qb], pi[qa] < pi[qb])))))
        ctx.write(Loc((sv.oid, "sidx")), i1)
        ctx.write(Loc((sv.oid, "srank")), r1)
        return VOID

    def f_min_element(self, I, args, n):
        """std::min_element(begin, end, by rank): iterator to the first element of minimum rank (end for an empty range)"""
        ctx = I.ctx
        b, e = ctx.rv(args[0]), ctx.rv(args[1])
        sv = b.vec
        L = sv.f(ctx, "len")
        ctx.oblige("callee-pre.min_element:whole-survivor-range", z3.And(b.idx == 0, e.idx == L), kind="callee-pre")
        r = sv.f(ctx, "srank")
        m = ctx.fresh("min_pos")
        ctx.assume(z3.If(L == 0, m == 0, z3.And(m >= 0, m < L, z3.ForAll([qa], z3.Implies(z3.And(qa >= 0, qa < L), z3.And(
            r[m] <= r[qa], z3.Implies(qa < m, r[m] < r[qa])))))))
        return VecIter(sv, m)

    def f_iter_swap(self, I, args, n):
        ctx = I.ctx
        a, b = ctx.rv(args[0]), ctx.rv(args[1])
        sv = a.vec
        L = sv.f(ctx, "len")
        ctx.oblige("callee-pre.iter_swap:dereferenceable", z3.And(a.idx >= 0, a.idx < L, b.idx >= 0, b.idx < L), kind="callee-pre")
        for nm in ("sidx", "srank"):
            arr = sv.f(ctx, nm)
            ctx.write(Loc((sv.oid, nm)), z3.Store(z3.Store(arr, a.idx, arr[b.idx]), b.idx, arr[a.idx]))
        return VOID

    def ctor_handler(self, qt, node):
        if "iterator" in qt:
            return lambda I, args, n: I.ctx.rv(args[0])
        if "Survivor" in qt and ("vector<" in qt):
            def mkv(I, args, n):
                self.sv = SurvVec(I.ctx, self)
                return self.sv
            return mkv
        if qt.endswith("Survivor"):
            def mks(I, args, n):
                a = [I.ctx.rv(x) for x in args]
                if len(a) == 1 and isinstance(a[0], SurvObj):
                    return a[0]
                return SurvObj(a[0].target, a[3])
            return mks
        if qt.endswith("NormalizedCall"):
            return lambda I, args, n: I.ctx.rv(args[0]) if args else CallObj(self)
        if qt.endswith("ResolvedOperatorCall"):
            def mkr(I, args, n):
                a = [I.ctx.rv(x) for x in args]
                if len(a) == 1 and isinstance(a[0], Obj) and a[0].cls == "ResolvedOperatorCall":
                    return a[0]
                o = Obj("ResolvedOperatorCall", "resolved")
                o.impl = a[0]
                return o
            return mkr
        if qt.endswith("WiringResolutionEvent") or qt.endswith("ResolutionMap") or "vector<std::pair<" in qt \
                or qt.endswith("WiringArg"):
            return lambda I, args, n: I.ctx.rv(args[0]) if args and isinstance(I.ctx.rv(args[0]), Obj) else Wild(name=qt[-20:])
        return Kernel.ctor_handler(self, qt, node)

    def default_value(self, I, qt, d):
        v = Kernel.default_value(self, I, qt, d)
        if v is not None:
            return v
        from cxxvc.interp import strip_type
        s = strip_type(qt)
        if s.startswith("std::vector<") or s == "std::string" or s.startswith("std::basic_string"):
            if "string>" in s or s.startswith("std::vector<std::string") or s.startswith("std::vector<std::basic_string"):
                return Vec(I.ctx, d.get("name", "vec"), length=z3.IntVal(0))
            return I.ctx.fresh("str") if "string" in s and "vector" not in s else None
        return None

    # loops in source order: 0 diagnostics args, 1 candidates, 2 params, 3 size names, 4 tied, 5 kwargs
    def inv_candidates(self, I, ctx):
        pos = self.range_pos(I)
        sv = self.sv
        L, si, sr = sv.f(ctx, "len"), sv.f(ctx, "sidx"), sv.f(ctx, "srank")
        yield "pos-range", z3.And(pos >= 0, pos <= self.N, L >= 0)
        yield "survivors-are-exactly-the-matching-candidates-seen-so-far,in-order", z3.And(
            z3.ForAll([qa], z3.Implies(z3.And(qa >= 0, qa < L), z3.And(si[qa] >= 0, si[qa] < pos, self.surv(si[qa]),
                                                                     sr[qa] == self.rk(si[qa])))),
            z3.ForAll([qa, qb], z3.Implies(z3.And(qa >= 0, qa < qb, qb < L), si[qa] < si[qb])),
            z3.ForAll([qk], z3.Implies(z3.And(qk >= 0, qk < pos, self.surv(qk)), z3.Exists([qa], z3.And(qa >= 0, qa < L, si[qa] == qk)))))
        yield "found", self.known

    def frame_candidates(self, I, ctx):
        sv = self.sv
        fr = [Loc((sv.oid, nm)) for nm in ("len", "sidx", "srank")]
        rej = self.local_obj(I, "rejected")
        fr += [rej.loc("len"), rej.loc("data"), Loc((self.g.oid, "defaults_used"))]
        return fr

    def inv_tied(self, I, ctx):
        pos = self.range_pos(I)
        yield "pos-range", z3.And(pos >= 0, pos <= self.sv.f(ctx, "len"))

    def frame_tied(self, I, ctx):
        t = self.local_obj(I, "tied")
        return [t.loc("len"), t.loc("data")]

    @property
    def loops(self):
        return {0: LoopSpec(unroll=0, unwind_assert=True), 1: LoopSpec(self.inv_candidates, self.frame_candidates),
                2: LoopSpec(unroll=0, unwind_assert=True), 3: LoopSpec(unroll=0, unwind_assert=True),
                4: LoopSpec(self.inv_tied, self.frame_tied), 5: LoopSpec(unroll=0, unwind_assert=True)}

    def unique_min(self, w):
        return z3.And(w >= 0, w < self.N, self.surv(w),
                      z3.ForAll([qk], z3.Implies(z3.And(qk >= 0, qk < self.N, qk != w, self.surv(qk)), self.rk(qk) > self.rk(w))))

    def post(self, I, ret):
        ctx = I.ctx
        w = ret.impl.target.idx
        ctx.oblige("ensures.selected=the-unique-matching-candidate-of-minimum-rank[C19 unique most specific match; the winner "
                   "is a function of the set of (candidate, rank), so registration order cannot matter]",
                   z3.And(self.known, self.unique_min(w)), kind="post-normal")

    def post_exc(self, I, exc):
        ctx = I.ctx
        any_surv = z3.Exists([qk], z3.And(qk >= 0, qk < self.N, self.surv(qk)))
        shared_min = z3.Exists([qa, qb], z3.And(qa >= 0, qa < self.N, qb >= 0, qb < self.N, qa != qb, self.surv(qa), self.surv(qb),
                                                self.rk(qa) == self.rk(qb),
                                                z3.ForAll([qk], z3.Implies(z3.And(qk >= 0, qk < self.N, self.surv(qk)),
                                                                           self.rk(qk) >= self.rk(qa)))))
        is_res = z3.BoolVal(exc.cls.endswith("OperatorResolutionError"))
        is_req = z3.BoolVal(exc.cls.endswith("OperatorRequirementsError"))
        ctx.oblige("raises.resolution-error-iff-nothing-matches,ambiguity-error-iff-the-best-rank-is-shared[C19]",
                   z3.Or(z3.And(is_res, z3.Or(z3.Not(self.known), self.N == 0)),
                         z3.And(z3.Or(is_res, is_req), self.known, self.N > 0, z3.Not(any_surv)),
                         z3.And(is_res, self.known, shared_min)), kind="post-exceptional")


class OverloadMap(Obj):
    cls = "std::map<name, family>"

    def __init__(self, k):
        Obj.__init__(self, name="overloads_")
        self.k = k

    def m_find(self, I, args, n):
        return FamilyIter(self.k, z3.Not(self.k.known))

    def m_end(self, I, args, n):
        return FamilyIter(self.k, z3.BoolVal(True))


class FamilyIter(Obj):
    cls = "map iterator"
    is_value = True

    def __init__(self, k, is_end):
        Obj.__init__(self, name="family_iter")
        self.k, self.is_end = k, is_end

    def compare(self, I, op, other):
        e = z3.And(self.is_end, other.is_end) if not z3.is_true(z3.simplify(other.is_end)) else self.is_end
        return e if op == "==" else z3.Not(e)

    def op(self, I, op, rest, n, a0):
        if op in ("==", "!="):
            return self.compare(I, op, rest[0])
        return NotImplemented

    def arrow(self, I):
        from cxxvc.interp import Pair
        I.ctx.oblige("map-iterator-valid", z3.Not(self.is_end), kind="iterator")
        return Pair(z3.IntVal(0), self.k.impls)


models.install_guards(Resolve)
KERNELS += [Resolve]


# =====================================================================================================
# try_match -- every supplied argument is really matched against its parameter
# =====================================================================================================
# Domain of the contract (stated in the evidence): the **kwargs pack block is outside it (assumed not entered:
# !(has_kwargs && has_kwargs_pattern && !kwargs.empty())); a variadic candidate has at least one parameter (its tail).

from cxxvc.models import Vec  # noqa: E402

KIND_TS, KIND_SCALAR = 0, 1          # WiringArg::Kind::TimeSeries / Scalar
PK_INPUT, PK_SCALAR = 0, 1           # ParamPattern::Kind::Input / Scalar
SP_CONCRETE, SP_VAR = 0, 1           # ScalarPattern::Kind::Concrete / Var
TP_VAR = 7


class MapObj(Obj):
    """ResolutionMap: the shared map (scope 0) or a per-argument copy (scope = 1 + arg index it was copied for)"""
    cls = "ResolutionMap"

    def __init__(self, scope, extends_shared=True):
        Obj.__init__(self, name="map")
        self.scope = scope
        self.extends_shared = extends_shared


class TsPat(Obj):
    cls = "TypePattern"

    def __init__(self, k, role, pidx=None):
        Obj.__init__(self, name="ts_pattern")
        self.k, self.role, self.pidx = k, role, pidx

    def member(self, ctx, name, node):
        if name == "kind":
            return self.k.ts_kind[self.pidx] if self.pidx is not None else z3.Int("%s_pattern_kind" % self.role)
        if name == "constraints":
            o = Obj("constraints", "constraints")
            o.m_empty = lambda I, a, n: (self.k.ts_unconstrained[self.pidx] if self.pidx is not None else I.ctx.fresh("c_empty", "bool"))
            return o
        if name == "meta":
            return Ptr(Wild(name="meta"), ctx.fresh("pattern_meta_null", "bool"))
        return Wild(name=name)


class ScPat(Obj):
    cls = "ScalarPattern"

    def __init__(self, k, pidx):
        Obj.__init__(self, name="scalar_pattern")
        self.k, self.pidx = k, pidx

    def member(self, ctx, name, node):
        if name == "kind":
            return self.k.sc_kind[self.pidx]
        if name == "meta":
            return MetaPtr(self.k.sc_meta[self.pidx])
        return Wild(name=name)


class MetaPtr(Obj):
    """pointer to interned metadata, compared by identity"""
    cls = "meta*"
    custom_binop = True

    def rbinop(self, I, op, other):
        return self.binop(I, op, other)

    def __init__(self, mid):
        Obj.__init__(self, name="meta")
        self.mid = mid

    def binop(self, I, op, other):
        o = I.ctx.rv(other)
        if isinstance(o, MetaPtr) and op in ("==", "!="):
            return (self.mid == o.mid) if op == "==" else (self.mid != o.mid)
        if isinstance(o, Ptr) and o.target is None and op in ("==", "!="):
            return (self.mid == 0) if op == "==" else (self.mid != 0)
        raise Gap("meta pointer %s" % op)


class ParamObj(Obj):
    cls = "ParamPattern"

    def __init__(self, k, pidx):
        Obj.__init__(self, name="param")
        self.k, self.pidx = k, pidx

    def member(self, ctx, name, node):
        if name == "kind":
            return self.k.p_kind[self.pidx]
        if name == "ts":
            return TsPat(self.k, "param", self.pidx)
        if name == "scalar":
            return ScPat(self.k, self.pidx)
        return Wild(name=name)


class SchemaPtr(Obj):
    cls = "TSValueTypeMetaData*"
    custom_binop = True

    def rbinop(self, I, op, other):
        return self.binop(I, op, other)

    def __init__(self, k, aidx):
        Obj.__init__(self, name="schema")
        self.k, self.aidx = k, aidx

    def binop(self, I, op, other):
        o = I.ctx.rv(other)
        if isinstance(o, Ptr) and o.target is None and op in ("==", "!="):
            nul = self.k.a_schema_null[self.aidx]
            return nul if op == "==" else z3.Not(nul)
        raise Gap("schema pointer %s" % op)

    def arrow(self, I):
        return Wild(name="schema_target")


class PortObj(Obj):
    cls = "WiringPortRef"

    def __init__(self, k, aidx):
        Obj.__init__(self, name="port")
        self.k, self.aidx = k, aidx

    def member(self, ctx, name, node):
        if name == "schema":
            return SchemaPtr(self.k, self.aidx)
        return Wild(name=name)


class ScalarValue(Obj):
    cls = "Value(scalar)"

    def __init__(self, k, aidx):
        Obj.__init__(self, name="scalar_value")
        self.k, self.aidx = k, aidx

    def m_has_value(self, I, args, n):
        return self.k.a_has_value[self.aidx]


class ArgObj(Obj):
    cls = "WiringArg"

    def __init__(self, k, aidx):
        Obj.__init__(self, name="arg")
        self.k, self.aidx = k, aidx

    def member(self, ctx, name, node):
        k, i = self.k, self.aidx
        if name == "kind":
            return k.a_kind[i]
        if name == "port":
            return PortObj(k, i)
        if name == "scalar_value":
            return ScalarValue(k, i)
        if name == "scalar_meta":
            return MetaPtr(k.a_meta[i])
        if name == "from_variadic_tail":
            return k.a_from_tail[i]
        return Wild(name=name)


class TryMatchImpl(Obj):
    cls = "OperatorImpl"

    def __init__(self, k):
        Obj.__init__(self, name="impl")
        self.k = k

    def member(self, ctx, name, node):
        k = self.k
        if name in ("has_output", "variadic", "has_kwargs", "has_kwargs_pattern"):
            return getattr(k, "i_" + name)
        if name == "params":
            return k.params
        if name == "kwargs_pattern":
            return TsPat(k, "kwargs")
        if name == "output":
            return TsPat(k, "output")
        if name == "default_resolver":
            return FnMember(k, "default_resolver", k.i_has_resolver)
        if name == "requires_predicate":
            return FnMember(k, "requires_predicate", k.i_has_requires)
        return Wild(name=name)


class FnMember(Obj):
    cls = "std::function"

    def __init__(self, k, what, present):
        Obj.__init__(self, name=what)
        self.k, self.what, self.present = k, what, present

    def truth(self, I):
        return self.present

    def call(self, I, args, n):
        ctx = I.ctx
        if ctx.choose(2, "%s outcome" % self.what) == 1:
            I.throw_from_callee(self.what)
        if self.what == "requires_predicate":
            return ctx.fresh("requires_accepts", "bool")
        return VOID


class TryMatch(Kernel):
    name = "operator_dispatch.cpp:try_match"
    tu = "src/hgraph/types/operator_dispatch.cpp"
    filter = "try_match"
    fn_name = "try_match"
    property_ids = ("C19",)
    scope = {"lo": 0, "hi": 3}
    title = "try_match: a candidate is accepted only if every supplied argument was matched against its own parameter under " \
            "bindings that extend the shared map"
    max_paths = 60000

    def setup(self, I):
        ctx = I.ctx
        self.nargs, self.nparams = z3.Int("n_args"), z3.Int("n_params")
        ctx.assume(z3.And(self.nargs >= 0, self.nparams >= 0))
        for nm in ("has_output", "variadic", "has_kwargs", "has_kwargs_pattern", "has_resolver", "has_requires"):
            setattr(self, "i_" + nm, z3.Bool("impl_" + nm))
        ctx.assume(z3.Implies(self.i_variadic, self.nparams >= 1))
        self.kwargs_empty = z3.Bool("kwargs_empty")
        ctx.assume(z3.Not(z3.And(self.i_has_kwargs, self.i_has_kwargs_pattern, z3.Not(self.kwargs_empty))))
        A = lambda nm, s=I_: z3.Array(nm, I_, s)
        self.a_kind, self.a_meta = A("arg_kind"), A("arg_scalar_meta")
        self.a_schema_null, self.a_has_value, self.a_from_tail = A("arg_schema_null", B_), A("arg_has_value", B_), A("arg_from_tail", B_)
        self.p_kind, self.ts_kind, self.sc_kind, self.sc_meta = A("param_kind"), A("param_ts_kind"), A("param_scalar_kind"), A("param_scalar_meta")
        self.ts_unconstrained = A("param_ts_unconstrained", B_)
        ctx.assume(z3.ForAll([qa], z3.And(z3.Or(self.a_kind[qa] == KIND_TS, self.a_kind[qa] == KIND_SCALAR),
                                          z3.Or(self.p_kind[qa] == PK_INPUT, self.p_kind[qa] == PK_SCALAR),
                                          z3.Or(self.sc_kind[qa] == SP_CONCRETE, self.sc_kind[qa] == SP_VAR))))
        self.params = Vec(ctx, "params", length=self.nparams, elem=lambda j: ParamObj(self, j))
        self.args = Vec(ctx, "args", length=self.nargs, elem=lambda i: ArgObj(self, i))
        kw = Obj("span", "kwargs")
        kw.m_empty = lambda I_2, a, n: self.kwargs_empty
        g = Obj("ghost", "tm")
        self.g = g
        # checked[i]: argument i went through a pattern match (time-series, promoted scalar, or scalar pattern) against
        # parameter min(i, nparams-1) under the shared map or a copy of it, and the match succeeded
        ctx.store[(g.oid, "checked")] = z3.K(I_, z3.BoolVal(False))
        ctx.store[(g.oid, "wrong_param")] = z3.BoolVal(False)
        self.shared = MapObj(0)
        self.rank0 = z3.Int("rank_adjustment0")
        oreq = Opt(z3.Bool("output_required_has"), z3.Bool("output_required_value"))
        return None, {"impl": TryMatchImpl(self), "args": self.args, "kwargs": kw, "output_required": oreq,
                      "expected_output": Ptr(Wild(name="expected_output"), z3.Bool("expected_output_null")),
                      "map": self.shared, "rank_adjustment": self.rank0, "why": z3.Int("why0"),
                      "global_state": Wild(name="global_state"), "wiring": Ptr(None), "requires_rejected": z3.Bool("requires_rejected0")}

    def enum_const(self, I, ref):
        nm = ref.get("name")
        tbl = {"TimeSeries": KIND_TS, "Scalar": KIND_SCALAR, "Input": PK_INPUT, "Concrete": SP_CONCRETE, "Var": SP_VAR,
               "TSD": 11}
        qual = ref.get("type", {}).get("qualType", "")
        if nm == "Scalar" and "ParamPattern" in qual:
            return z3.IntVal(PK_SCALAR)
        if nm == "Var" and "TypePattern" in qual:
            return z3.IntVal(TP_VAR)
        if nm == "Concrete" and "TypePattern" in qual:
            return z3.IntVal(3)
        if nm in tbl:
            return z3.IntVal(tbl[nm])
        raise Gap("enum constant %s" % nm)

    def function_handler(self, name, node, callee_node):
        h = getattr(self, "f_" + name, None)
        if h is not None:
            return h
        if name in ("format", "ts_pattern_to_string", "scalar_pattern_to_string"):
            return lambda I, a, n: I.ctx.fresh("text")
        return Kernel.function_handler(self, name, node, callee_node)

    def ctor_handler(self, qt, node):
        if qt.endswith("ResolutionMap"):
            def mk(I, args, n):
                src = I.ctx.rv(args[0]) if args else None
                if isinstance(src, MapObj):
                    return MapObj(src.scope + 1 if src.scope == 0 else src.scope, src.extends_shared)
                return MapObj(99, False)
            return mk
        if qt.endswith("OperatorCallContext"):
            return lambda I, args, n: Wild(name="context")
        return Kernel.ctor_handler(self, qt, node)

    def method_handler(self, obj, name, node):
        if isinstance(obj, Wild):
            if name == "size":
                return lambda I, o, a, n: I.ctx.fresh("wild_size")
            if name == "empty":
                return lambda I, o, a, n: I.ctx.fresh("wild_empty", "bool")
            return lambda I, o, a, n: Wild(name=name)
        return Kernel.method_handler(self, obj, name, node)

    def global_var(self, I, ref, node):
        if ref.get("name") == "variadic_pack_fixed_input_penalty":
            v = z3.Int("variadic_pack_fixed_input_penalty")     # a positive rank constant; its value does not matter here
            I.ctx.assume(v > 0)
            return v
        return None

    # ---- callees
    def _expected_param(self, i):
        return z3.If(i < self.nparams - 1, i, self.nparams - 1)

    def _match(self, I, what, pat, arg_idx, mp):
        """a pattern match of argument arg_idx: records it when it is against the argument's own parameter under bindings
        that extend the shared map; result arbitrary"""
        ctx = I.ctx
        ok = ctx.fresh(what + "_matches", "bool")
        good = z3.BoolVal(isinstance(mp, MapObj) and mp.extends_shared)
        if pat.pidx is None:
            good = z3.BoolVal(False)
            own = z3.BoolVal(False)
        else:
            own = pat.pidx == self._expected_param(arg_idx)
        ch = ctx.store[(self.g.oid, "checked")]
        ctx.write(Loc((self.g.oid, "checked")), z3.Store(ch, arg_idx, z3.Or(ch[arg_idx], z3.And(ok, good, own))))
        return ok

    def f_input_ts_pattern_match(self, I, args, n):
        ctx = I.ctx
        pat, sch, mp = ctx.rv(args[0]), ctx.rv(args[1]), ctx.rv(args[2])
        if not isinstance(pat, TsPat):
            raise Gap("input_ts_pattern_match on an untracked pattern")
        if isinstance(sch, SchemaPtr):
            return self._match(I, "ts", pat, sch.aidx, mp)
        return ctx.fresh("pack_matches", "bool")

    def f_scalar_value_matches_ts_pattern(self, I, args, n):
        ctx = I.ctx
        pat, val, mp = ctx.rv(args[0]), ctx.rv(args[1]), ctx.rv(args[2])
        if not isinstance(pat, TsPat) or not isinstance(val, ScalarValue):
            raise Gap("scalar_value_matches_ts_pattern on untracked operands")
        return self._match(I, "promoted_scalar", pat, val.aidx, mp)

    def f_scalar_pattern_match(self, I, args, n):
        ctx = I.ctx
        pat, meta, mp = ctx.rv(args[0]), ctx.rv(args[1]), ctx.rv(args[2])
        if not isinstance(pat, ScPat):
            raise Gap("scalar_pattern_match on an untracked pattern")
        # the argument is identified by its scalar_meta term arg_scalar_meta[i]
        mid = meta.mid if isinstance(meta, MetaPtr) else None
        if mid is None or not (z3.is_app(mid) and mid.decl().kind() == z3.Z3_OP_SELECT):
            raise Gap("scalar_pattern_match: argument not identifiable")
        return self._match(I, "scalar", pat, mid.arg(1), mp)

    def f_output_ts_pattern_match(self, I, args, n):
        return I.ctx.fresh("output_matches", "bool")

    def f_input_adaptation_rank(self, I, args, n):
        r = I.ctx.fresh("adaptation_rank")
        I.ctx.assume(r >= 0)
        return r

    def f_param_pattern_rank(self, I, args, n):
        r = I.ctx.fresh("tail_rank")
        I.ctx.assume(r >= 0)
        return r

    f_ts_pattern_rank = f_param_pattern_rank

    def f_coerce_scalar_value_to_meta(self, I, args, n):
        return Opt(I.ctx.fresh("coercible", "bool"), Wild(name="coerced"))

    def f_ts_pattern_resolve(self, I, args, n):
        return Ptr(Wild(name="resolved_output"), I.ctx.fresh("output_unresolved", "bool"))

    def f_min(self, I, args, n):
        a, b = I.ctx.rv(args[0]), I.ctx.rv(args[1])
        return z3.If(a < b, a, b)

    # ---- contract
    def arg_ok(self, ctx, i):
        ch = ctx.store[(self.g.oid, "checked")]
        fixed = z3.If(z3.And(self.i_variadic, self.nparams >= 1), self.nparams - 1, self.nparams)
        tail = z3.And(self.i_variadic, i >= fixed)
        p = self._expected_param(i)
        ts_arg = self.a_kind[i] == KIND_TS
        exempt_null_input = z3.And(z3.Not(tail), self.p_kind[p] == PK_INPUT, ts_arg, self.a_schema_null[i])
        scalar_param = z3.And(z3.Not(tail), self.p_kind[p] == PK_SCALAR)
        exempt_absent_scalar = z3.And(scalar_param, z3.Not(ts_arg), z3.Not(self.a_has_value[i]), self.sc_kind[p] == SP_VAR)
        concrete_scalar = z3.And(scalar_param, z3.Not(ts_arg), self.sc_kind[p] == SP_CONCRETE)   # matched by identity/coercion, no bindings
        return z3.Or(ch[i], exempt_null_input, exempt_absent_scalar, concrete_scalar)

    def inv(self, I, ctx):
        i = self.local(I, "i")
        yield "index-range", z3.And(i >= 0, i <= self.nargs)
        yield "every-argument-so-far-was-matched-against-its-own-parameter[C19]", z3.ForAll([qa], z3.Implies(
            z3.And(qa >= 0, qa < i), self.arg_ok(ctx, qa)))
        yield "arity-already-checked", z3.If(self.i_variadic, self.nargs >= self.nparams - 1, self.nargs == self.nparams)

    def frame(self, I, ctx):
        fr = [Loc((self.g.oid, "checked"))]
        for nm in ("rank_adjustment", "why"):
            fr.append(self.param_loc(I, nm))
        return fr

    def param_loc(self, I, nm):
        f = I.ctx.frame
        while f is not None:
            for did, b in f.vars.items():
                if isinstance(b, Loc) and getattr(b, "decl_name", None) == nm or (isinstance(b, Loc) and b.key[-1] == nm):
                    return b
            f = f.parent
        raise Gap("no location for %s" % nm)

    @property
    def loops(self):
        return {0: LoopSpec(self.inv, self.frame)}

    def post(self, I, ret):
        ctx = I.ctx
        ctx.oblige("ensures.accepted=>every-supplied-argument-really-matches-its-parameter-under-bindings-extending-the-shared-map"
                   "[C19 the selected candidate's parameters really match the supplied types with every type variable bound to one "
                   "type across all positions]",
                   z3.Implies(ret, z3.ForAll([qa], z3.Implies(z3.And(qa >= 0, qa < self.nargs), self.arg_ok(ctx, qa)))),
                   kind="post-normal")
        ctx.oblige("ensures.accepted=>arity-fits", z3.Implies(ret, z3.If(self.i_variadic, self.nargs >= self.nparams - 1,
                                                                        self.nargs == self.nparams)), kind="post-normal")

    def post_exc(self, I, exc):
        I.ctx.oblige("raises.nothing(user callbacks are caught)", False, kind="post-exceptional")


models_install = __import__("cxxvc.models", fromlist=["install_guards"]).install_guards
models_install(TryMatch)
KERNELS.append(TryMatch)


# ------------------------------------------------------------------ ts_pattern_match: one type per variable
#
# "The selected candidate's parameters really match the supplied types with every type variable bound to one type across
# all positions."  The bind functions (above) refuse an inconsistent re-bind, but the matcher never reaches them for a
# variable that is already bound: it compares the earlier binding with the supplied type itself.  Schemas are interned,
# so "one type" is pointer identity; ts_pattern_match is proved to accept a second occurrence of a variable only for the
# identical schema - for a whole-time-series variable and for a TSB schema variable alike.

TSK = {"TS": 0, "TSS": 1, "TSD": 2, "TSL": 3, "TSW": 4, "TSB": 5, "REF": 6, "SIGNAL": 7}
Equiv = z3.Function("schema_structurally_equivalent", I_, I_, B_)


class SchemaId(MetaPtr):
    """const TSValueTypeMetaData * identified by an integer (0 = nullptr)"""
    cls = "TSValueTypeMetaData*"

    def __init__(self, k, mid):
        MetaPtr.__init__(self, mid)
        self.k = k

    def truth(self, I):
        return self.mid != 0

    def arrow(self, I):
        return SchemaObj(self.k, self.mid)


class SchemaObj(Obj):
    cls = "TSValueTypeMetaData"

    def __init__(self, k, mid):
        Obj.__init__(self, name="schema")
        self.k, self.mid = k, mid

    def member(self, ctx, name, node):
        if name == "kind":
            return z3.Function("schema_kind", I_, I_)(self.mid)
        if name in ("value_schema", "value_type"):
            return Ptr(Wild(name=name), z3.Function(name + "_null", I_, B_)(self.mid))
        return Wild(name=name)

    def m_referenced_ts(self, I, a, n): return SchemaId(self.k, z3.Function("referenced_ts", I_, I_)(self.mid))
    def m_element_ts(self, I, a, n): return SchemaId(self.k, z3.Function("element_ts", I_, I_)(self.mid))
    def m_fixed_size(self, I, a, n): return z3.Function("schema_fixed_size", I_, I_)(self.mid)
    def m_period(self, I, a, n): return z3.Function("schema_period", I_, I_)(self.mid)
    def m_min_period(self, I, a, n): return z3.Function("schema_min_period", I_, I_)(self.mid)
    def m_is_duration_based(self, I, a, n): return z3.Function("schema_duration_based", I_, B_)(self.mid)
    def m_is_named_tsb(self, I, a, n): return z3.Function("schema_named_tsb", I_, B_)(self.mid)
    def m_key_type(self, I, a, n): return Wild(name="key_type")
    def m_bundle_name(self, I, a, n): return Ptr(Wild(name="bundle_name"), I.ctx.fresh("bundle_name_null", "bool"))
    def m_field_count(self, I, a, n): return z3.Function("schema_field_count", I_, I_)(self.mid)

    def m_fields(self, I, a, n):
        k, mid = self.k, self.mid

        class Fields(Obj):
            cls = "fields"

            def index(self2, I_2, j, n=None):
                f = Obj("TSFieldMetaData", "field")
                I_2.ctx.store[(f.oid, "name")] = Ptr(Wild(name="field_name"), I_2.ctx.fresh("field_name_null", "bool"))
                I_2.ctx.store[(f.oid, "type")] = SchemaId(k, z3.Function("field_type", I_, I_, I_)(mid, j))
                return f
        return Fields(name="fields")


class NameTok(Obj):
    cls = "std::string"

    def __init__(self, what):
        Obj.__init__(self, name=what)
        self.what = what


class MatchPattern(Obj):
    cls = "TypePattern"

    def __init__(self, k, top=True):
        Obj.__init__(self, name="pattern" if top else "child_pattern")
        self.k, self.top = k, top

    def member(self, ctx, name, node):
        k = self.k
        if not self.top:
            raise Gap("member %s of a child pattern read outside the recursive call" % name)
        if name == "kind":
            return k.pkind
        if name == "name":
            return k.var_name
        if name == "meta":
            return SchemaId(k, z3.Int("pattern_meta"))
        if name == "children":
            return Vec(ctx, "children", length=k.nchildren, elem=lambda j: MatchPattern(k, top=False))
        if name in ("schema_var", "named_bundle", "any_window", "size_var"):
            return z3.Bool("pattern_" + name)
        if name in ("fixed_size", "min_size"):
            return z3.Int("pattern_" + name)
        if name == "field_names":
            return Vec(ctx, "field_names", length=k.nchildren, elem=lambda j: Wild(name="field_name"))
        return Wild(name=name)


class MatchMap(Obj):
    cls = "ResolutionMap"

    def __init__(self, k):
        Obj.__init__(self, name="map")
        self.k = k

    def m_find_ts(self, I, a, n):
        nm = I.ctx.rv(a[0])
        if not (z3.is_expr(nm) and z3.eq(nm, self.k.var_name)):
            raise Gap("find_ts for a name that is not this pattern's variable")
        return SchemaId(self.k, self.k.bound)

    def m_bind_ts(self, I, a, n):
        c = I.ctx
        g = self.k.g
        nm, v = c.rv(a[0]), c.rv(a[1])
        c.write(Loc((g.oid, "binds")), c.store[(g.oid, "binds")] + 1)
        c.write(Loc((g.oid, "bind_ok")), z3.BoolVal(z3.is_expr(nm) and z3.eq(nm, self.k.var_name) and isinstance(v, SchemaId)))
        c.write(Loc((g.oid, "bound_to")), v.mid if isinstance(v, SchemaId) else z3.IntVal(-1))
        return VOID


class TsPatternMatch(Kernel):
    name = "type_pattern.cpp:ts_pattern_match"
    tu = "src/hgraph/types/type_pattern.cpp"
    filter = "ts_pattern_match"
    fn_name = "ts_pattern_match"
    property_ids = ("C19",)
    scope = {"lo": 0, "hi": 3}
    max_paths = 20000
    title = "ts_pattern_match: a variable that is already bound matches only the identical schema; a free one is bound once, to " \
            "the supplied schema"

    def setup(self, I):
        ctx = I.ctx
        self.pkind = z3.Int("pattern_kind")
        self.concrete = z3.Int("concrete")
        self.bound = z3.Int("already_bound_to")            # 0: the variable is free
        self.allowed = z3.Bool("allowed_by_constraints")
        self.nchildren = z3.Int("n_children")
        self.var_name = z3.Int("pattern_name")          # strings are opaque ids
        ctx.assume(z3.And(self.nchildren >= 0, self.pkind >= 0, self.pkind <= 9))
        ctx.assume(z3.Implies(z3.Or(*[self.pkind == TS[k] for k in ("TSL", "TSD", "REF")]), self.nchildren >= 1))
        qx = z3.Int("qx")
        ctx.assume(z3.ForAll([qx], Equiv(qx, qx)))
        g = Obj("ghost", "mg")
        self.g = g
        ctx.store[(g.oid, "binds")] = z3.IntVal(0)
        ctx.store[(g.oid, "bind_ok")] = z3.BoolVal(False)
        ctx.store[(g.oid, "bound_to")] = z3.IntVal(-1)
        ctx.store[(g.oid, "delegated_same_pattern")] = z3.IntVal(0)
        ctx.store[(g.oid, "delegated_to")] = z3.IntVal(-1)
        self.rec_result = z3.Bool("result_of_the_recursive_call_on_the_referenced_schema")
        self.pattern = MatchPattern(self)
        self.map = MatchMap(self)
        return None, {"pattern": self.pattern, "concrete": SchemaId(self, self.concrete), "map": self.map}

    def enum_const(self, I, ref):
        nm = ref.get("name")
        qual = ref.get("type", {}).get("qualType", "")
        if "TSTypeKind" in qual and nm in TSK:
            return z3.IntVal(TSK[nm])
        if "TypePattern" in qual and nm in TS:
            return z3.IntVal(TS[nm])
        raise Gap("enum constant %s of %s" % (nm, qual))

    def function_handler(self, name, node, callee_node):
        g = self.g
        if name == "ts_pattern_match":
            def rec(I, a, n):
                c = I.ctx
                p, s, m = c.rv(a[0]), c.rv(a[1]), c.rv(a[2])
                if m is not self.map:
                    raise Gap("recursive match under another map")
                if p is self.pattern:
                    c.write(Loc((g.oid, "delegated_same_pattern")), c.store[(g.oid, "delegated_same_pattern")] + 1)
                    c.write(Loc((g.oid, "delegated_to")), s.mid if isinstance(s, SchemaId) else z3.IntVal(-1))
                    return self.rec_result
                return c.fresh("child_matches", "bool")
            return rec
        if name in ("scalar_pattern_match", "size_pattern_match", "input_scalar_pattern_match", "input_ts_pattern_match"):
            return lambda I, a, n: I.ctx.fresh(name, "bool")
        if name == "ts_allowed_by_constraints":
            def al(I, a, n):
                p, s = I.ctx.rv(a[0]), I.ctx.rv(a[1])
                if p is self.pattern and isinstance(s, SchemaId) and z3.eq(s.mid, self.concrete):
                    return self.allowed
                return I.ctx.fresh("allowed_other", "bool")
            return al
        if name == "time_series_schema_equivalent":
            def eqv(I, a, n):
                l, r = I.ctx.rv(a[0]), I.ctx.rv(a[1])
                if not (isinstance(l, SchemaId) and isinstance(r, SchemaId)):
                    raise Gap("time_series_schema_equivalent of untracked schemas")
                return Equiv(l.mid, r.mid)
            return eqv
        return Kernel.function_handler(self, name, node, callee_node)

    def method_handler(self, obj, name, node):
        if isinstance(obj, Wild):
            if name == "size":
                return lambda I, o, a, n: I.ctx.fresh("wild_size")
            return lambda I, o, a, n: Wild(name=name)
        return Kernel.method_handler(self, obj, name, node)

    def inv(self, I, ctx):
        i = ctx.rv(self.local(I, "i"))
        yield "nothing-bound-by-the-field-loop", z3.And(ctx.store[(self.g.oid, "binds")] == 0, i >= 0, i <= self.nchildren)

    @property
    def loops(self):
        return {0: LoopSpec(self.inv, lambda I, ctx: [])}

    def post(self, I, ret):
        ctx = I.ctx
        g = lambda nm: ctx.store[(self.g.oid, nm)]
        ck = z3.Function("schema_kind", I_, I_)(self.concrete)
        live = self.concrete != 0
        through_ref = z3.And(live, self.pkind != TS["REF"], ck == TSK["REF"])
        direct = z3.And(live, z3.Not(through_ref))
        var = z3.And(direct, self.pkind == TS["Var"])
        svar = z3.And(direct, self.pkind == TS["TSB"], ck == TSK["TSB"], z3.Bool("pattern_schema_var"))
        is_bound = self.bound != 0
        bound_once = z3.And(g("binds") == 1, g("bind_ok"), g("bound_to") == self.concrete)
        ret = ret if z3.is_bool(ret) else ret != 0
        ctx.oblige("ensures.no-schema=>no-match", z3.Implies(z3.Not(live), z3.And(z3.Not(ret), g("binds") == 0)), kind="post-normal")
        ctx.oblige("ensures.a-reference-is-transparent:the-answer-is-that-of-the-referenced-schema",
                   z3.Implies(through_ref, z3.And(g("delegated_same_pattern") == 1, g("binds") == 0, ret == self.rec_result,
                                                  g("delegated_to") == z3.Function("referenced_ts", I_, I_)(self.concrete))),
                   kind="post-normal")
        ctx.oblige("ensures.bound-variable-matches-only-the-identical-schema[C19 every type variable bound to one type across all "
                   "positions]", z3.Implies(z3.And(var, is_bound), z3.And(ret == z3.And(self.bound == self.concrete, self.allowed),
                                                                            g("binds") == 0)), kind="post-normal")
        ctx.oblige("ensures.free-variable-is-bound-once-to-the-supplied-schema-iff-allowed[C19 the output type is the substitution of "
                   "those bindings]", z3.Implies(z3.And(var, z3.Not(is_bound)), z3.And(ret == self.allowed, z3.If(ret, bound_once, g("binds") == 0))),
                   kind="post-normal")
        # three clauses, so that the listed finding F12 (structurally equivalent bundles are accepted) does not hide a match of
        # bundles that are not even equivalent
        ctx.oblige("ensures.bound-bundle-schema-variable:the-identical-bundle-matches,nothing-is-re-bound[C19]",
                   z3.Implies(z3.And(svar, is_bound), z3.And(z3.Implies(self.bound == self.concrete, ret), g("binds") == 0)),
                   kind="post-normal")
        ctx.oblige("ensures.bound-bundle-schema-variable-never-matches-a-bundle-of-another-shape[C19 every type variable bound to one "
                   "type across all positions]", z3.Implies(z3.And(svar, is_bound, ret), Equiv(self.bound, self.concrete)),
                   kind="post-normal")
        ctx.oblige("ensures.bound-bundle-schema-variable-matches-only-the-identical-bundle[C19 every type variable bound to one type "
                   "across all positions]", z3.Implies(z3.And(svar, is_bound, ret), self.bound == self.concrete), kind="post-normal")
        ctx.oblige("ensures.free-bundle-schema-variable-is-bound-once-to-the-supplied-bundle-iff-allowed[C19]",
                   z3.Implies(z3.And(svar, z3.Not(is_bound)), z3.And(ret == self.allowed, z3.If(ret, bound_once, g("binds") == 0))),
                   kind="post-normal")
        ctx.oblige("ensures.no-other-case-binds-this-pattern's-variable", z3.Implies(z3.Not(z3.Or(var, svar)), g("binds") == 0),
                   kind="post-normal")


KERNELS += [TsPatternMatch]


# ------------------------------------------------------------------ normalize_call: defaults cost specificity
#
# resolve seeds a candidate's rank adjustment with NormalizedCall::defaults_used ("each default an overload falls back on
# makes it a little less specific than one whose parameters were all supplied"), which is what separates a candidate with a
# defaulted trailing parameter from the exact-arity one - so "the unique matching candidate that is most specific" depends
# on defaults_used counting EVERY parameter that was filled from its declared default, whatever the default is.

NC_DEFAULT = -2


class FilledSlot(Obj):
    cls = "std::optional<WiringArg>"

    def __init__(self, k, vec, idx):
        Obj.__init__(self, name="filled_slot")
        self.k, self.vec, self.idx = k, vec, idx

    def m_has_value(self, I, a, n):
        return I.ctx.store[(self.vec.oid, "has")][self.idx]

    def truth(self, I):
        return I.ctx.store[(self.vec.oid, "has")][self.idx]

    def assign(self, I, v):
        c = I.ctx
        v = c.rv(v)
        if isinstance(v, CallArg):
            src = v.i
        elif isinstance(v, Obj) and getattr(v, "synthesised", False):
            src = z3.IntVal(NC_DEFAULT)
            g = self.k.g
            c.write(Loc((g.oid, "defaults_materialised")), c.store[(g.oid, "defaults_materialised")] + 1)
        else:
            raise Gap("filled[...] assigned from %r" % (v,))
        c.write(Loc((self.vec.oid, "has")), z3.Store(c.store[(self.vec.oid, "has")], self.idx, True))
        c.write(Loc((self.vec.oid, "src")), z3.Store(c.store[(self.vec.oid, "src")], self.idx, src))
        return self

    def op(self, I, op, rest, n, a0):
        if op == "=":
            return self.assign(I, rest[0])
        if op == "*":
            return Wild(name="slot_value")
        return NotImplemented

    def deref(self, I):
        return Wild(name="slot_value")


class FilledVec(Obj):
    cls = "std::vector<std::optional<WiringArg>>"

    def __init__(self, k, ctx, n):
        Obj.__init__(self, name="filled")
        self.k = k
        ctx.store[(self.oid, "len")] = n
        ctx.store[(self.oid, "has")] = z3.K(I_, z3.BoolVal(False))
        ctx.store[(self.oid, "src")] = z3.K(I_, z3.IntVal(-1))

    def index(self, I, idx, n):
        I.ctx.oblige("vector-index-in-range@%s" % extract.line_of(n), z3.And(idx >= 0, idx < I.ctx.store[(self.oid, "len")]),
                     kind="bounds", line=extract.line_of(n))
        return FilledSlot(self.k, self, idx)

    def op(self, I, op, rest, n, a0):
        if op == "[]":
            return self.index(I, I.ctx.rv(rest[0]), n)
        return NotImplemented

    def m_size(self, I, a, n):
        return I.ctx.store[(self.oid, "len")]

    def m_begin(self, I, a, n):
        return models.VecIter(self, z3.IntVal(0))

    def m_end(self, I, a, n):
        return models.VecIter(self, I.ctx.store[(self.oid, "len")])

    def length(self, ctx):
        return ctx.store[(self.oid, "len")]

    def elem_loc(self, idx):
        return FilledSlot(self.k, self, idx)


class CallArg(Obj):
    cls = "WiringArg"

    def __init__(self, k, i):
        Obj.__init__(self, name="call_arg")
        self.k, self.i = k, i

    def member(self, ctx, name, node):
        if name == "name":
            return self.k.arg_name[self.i]
        return Wild(name=name)


class DefaultOpt(Obj):
    """std::optional<Value> default_value of parameter p: engaged or not; an engaged one may hold an empty Value (None)"""
    cls = "std::optional<Value>"

    def __init__(self, k, p):
        Obj.__init__(self, name="default_value")
        self.k, self.p = k, p

    def m_has_value(self, I, a, n):
        return self.k.dflt_declared[self.p]

    def arrow(self, I):
        v = Wild(name="default")
        v.m_has_value = lambda I_2, a, n: self.k.dflt_is_a_value[self.p]
        return v

    def op(self, I, op, rest, n, a0):
        if op == "*":
            return Wild(name="default")
        return NotImplemented

    def deref(self, I):
        return Wild(name="default")


class NormParam(Obj):
    cls = "ParamPattern"

    def __init__(self, k, p):
        Obj.__init__(self, name="param")
        self.k, self.p = k, p

    def member(self, ctx, name, node):
        if name == "name":
            return self.k.param_name[self.p]
        if name == "default_value":
            return DefaultOpt(self.k, self.p)
        if name == "kind":
            return self.k.param_kind[self.p]
        return Wild(name=name)


class NormalizeCall(Kernel):
    name = "operator_dispatch.cpp:normalize_call"
    tu = "src/hgraph/types/operator_dispatch.cpp"
    filter = "normalize_call"
    fn_name = "normalize_call"
    property_ids = ("C19",)
    scope = {"lo": 0, "hi": 3}
    max_paths = 20000
    title = "normalize_call: every declared parameter gets the supplied argument or its default, and defaults_used counts exactly " \
            "the defaults"

    def setup(self, I):
        ctx = I.ctx
        self.nargs, self.nparams = z3.Int("n_args"), z3.Int("n_params")
        self.variadic, self.has_kwargs = z3.Bool("impl_variadic"), z3.Bool("impl_has_kwargs")
        self.positional_params = z3.Int("impl_positional_params")
        ctx.assume(z3.And(self.nargs >= 0, self.nparams >= 0, self.positional_params >= 0))
        A = lambda nm, s=I_: z3.Array(nm, I_, s)
        self.arg_name, self.param_name, self.param_kind = A("arg_name"), A("param_name"), A("param_kind")
        self.dflt_declared, self.dflt_is_a_value = A("param_has_default", B_), A("param_default_is_a_value", B_)
        g = Obj("ghost", "ng")
        self.g = g
        ctx.store[(g.oid, "defaults_materialised")] = z3.IntVal(0)
        impl = Obj("OperatorImpl", "impl")
        ctx.store[(impl.oid, "variadic")] = self.variadic
        ctx.store[(impl.oid, "has_kwargs")] = self.has_kwargs
        ctx.store[(impl.oid, "positional_params")] = self.positional_params
        ctx.store[(impl.oid, "params")] = Vec(ctx, "params", length=self.nparams, elem=lambda j: NormParam(self, j))
        out = Obj("NormalizedCall", "out")
        ctx.store[(out.oid, "defaults_used")] = z3.IntVal(0)
        kw = Wild(name="kwargs")
        kw.m_begin = kw.m_end = lambda I_2, a, n: Wild(name="kw_iter")
        ctx.store[(out.oid, "kwargs")] = kw
        ctx.store[(out.oid, "args")] = Wild(name="out_args")
        self.out = out
        self.filled = None
        args = Vec(ctx, "args", length=self.nargs, elem=lambda i: CallArg(self, i))
        return None, {"impl": impl, "args": args, "out": out, "why": Wild(name="why")}

    def ctor_handler(self, qt, node):
        if "optional<" in qt and "WiringArg" in qt and "vector" in qt and "iterator" not in qt:
            def mk(I, args, n):
                self.filled = FilledVec(self, I.ctx, I.ctx.rv(args[0]))
                return self.filled
            return mk
        if "iterator" not in qt and "vector" in qt and "WiringArg" in qt:
            return lambda I, args, n: Wild(name="tail")
        if qt.endswith("WiringArg") and "vector" not in qt and "optional" not in qt:
            def mk(I, args, n):
                if args:
                    return I.ctx.rv(args[0])
                o = Wild(name="synthesised")
                o.synthesised = True
                return o
            return mk
        return Kernel.ctor_handler(self, qt, node)

    def function_handler(self, name, node, callee_node):
        if name in ("format", "vformat"):
            return lambda I, a, n: I.ctx.fresh("text")
        if name == "append_tail_arg":
            return lambda I, a, n: I.ctx.fresh("tail_arg_accepted", "bool")
        if name == "min":
            return lambda I, a, n: z3.If(I.ctx.rv(a[0]) < I.ctx.rv(a[1]), I.ctx.rv(a[0]), I.ctx.rv(a[1]))
        if name == "find_if":
            return lambda I, a, n: Wild(name="kw_iter")
        if name == "move":
            return lambda I, a, n: I.ctx.rv(a[0])
        return Kernel.function_handler(self, name, node, callee_node)

    def method_handler(self, obj, name, node):
        if isinstance(obj, Wild):
            if name in ("size",):
                return lambda I, o, a, n: I.ctx.fresh("wild_size")
            if name == "empty":
                return lambda I, o, a, n: I.ctx.fresh("wild_empty", "bool")
            h = getattr(obj, "m_" + name, None)
            if h is not None:
                return None
            return lambda I, o, a, n: Wild(name=name)
        return Kernel.method_handler(self, obj, name, node)

    def enum_const(self, I, ref):
        nm = ref.get("name")
        tbl = {"TimeSeries": KIND_TS, "Scalar": KIND_SCALAR, "Input": PK_INPUT}
        if nm == "Scalar" and "ParamPattern" in ref.get("type", {}).get("qualType", ""):
            return z3.IntVal(PK_SCALAR)
        if nm in tbl:
            return z3.IntVal(tbl[nm])
        raise Gap("enum constant %s" % nm)

    # ---- loops: the bookkeeping invariant is the same everywhere
    def counted(self, ctx):
        return ctx.store[(self.out.oid, "defaults_used")] == ctx.store[(self.g.oid, "defaults_materialised")]

    def inv_plain(self, I, ctx):
        yield "defaults_used=defaults-materialised-so-far[C19 each default an overload falls back on makes it less specific]", self.counted(ctx)

    def inv_positional(self, I, ctx):
        pos = ctx.rv(self.local(I, "positional"))
        yield "positional-in-range", z3.And(pos >= 0, pos <= self.nargs, self.counted(ctx))

    def inv_index(self, var):
        def inv(I, ctx):
            i = ctx.rv(self.local(I, var))
            yield "index-non-negative", z3.And(i >= 0, self.counted(ctx))
        return inv

    def inv_find(self, I, ctx):
        p, index, fixed = (ctx.rv(self.local(I, nm)) for nm in ("p", "index", "fixed"))
        yield "found-index-in-range", z3.And(p >= 0, index >= 0, index <= fixed, self.counted(ctx))

    def inv_move_out(self, I, ctx):
        pos = self.range_pos(I)
        yield "cursor-in-range", z3.And(pos >= 0, pos <= ctx.store[(self.filled.oid, "len")], self.counted(ctx))

    def inv_defaults(self, I, ctx):
        p = ctx.rv(self.local(I, "p"))
        has = ctx.store[(self.filled.oid, "has")]
        yield "parameters-below-the-cursor-all-have-a-value;defaults_used=defaults-materialised[C19]", z3.And(
            p >= 0, self.counted(ctx), z3.ForAll([qa], z3.Implies(z3.And(qa >= 0, qa < p), has[qa])))

    def frame_filled(self, I, ctx):
        if self.filled is None:
            return []
        return [Loc((self.filled.oid, "has")), Loc((self.filled.oid, "src"))]

    def frame_defaults(self, I, ctx):
        return self.frame_filled(I, ctx) + [Loc((self.out.oid, "defaults_used")), Loc((self.g.oid, "defaults_materialised"))]

    @property
    def loops(self):
        return {0: LoopSpec(self.inv_positional, lambda I, ctx: []),
                1: LoopSpec(self.inv_index("i"), lambda I, ctx: []),
                2: LoopSpec(self.inv_index("i"), self.frame_filled),
                3: LoopSpec(self.inv_index("i"), self.frame_filled),
                4: LoopSpec(self.inv_find, lambda I, ctx: []),
                5: LoopSpec(self.inv_defaults, self.frame_defaults),
                6: LoopSpec(self.inv_move_out, lambda I, ctx: []),
                7: LoopSpec(self.inv_plain, lambda I, ctx: [])}

    def post(self, I, ret):
        ctx = I.ctx
        ret = ret if z3.is_bool(ret) else ret != 0
        fixed = z3.If(z3.And(self.variadic, self.nparams > 0), self.nparams - 1, self.nparams)
        ok = [self.counted(ctx)]
        if self.filled is not None:
            has = ctx.store[(self.filled.oid, "has")]
            ok.append(z3.ForAll([qa], z3.Implies(z3.And(qa >= 0, qa < fixed), has[qa])))
        ctx.oblige("ensures.accepted=>every-declared-parameter-has-a-value-and-defaults_used-counts-exactly-the-parameters-filled-from-"
                   "their-default[C19 the unique matching candidate that is most specific: a candidate that falls back on a default, "
                   "of any kind, ranks behind the exact-arity one]", z3.Implies(ret, z3.And(*ok)), kind="post-normal")


KERNELS += [NormalizeCall]


# ---------------------------------------------------------------- operator_rank (operator_dispatch.h): one accumulator for the whole signature
ACC = z3.DeclareSort("RankAccumulatorState")
ACC0 = z3.Const("empty_accumulator", ACC)
COLLECT_TS = z3.Function("collect_ts_rank", ACC, I_, ACC)         # (state, parameter) -> state
COLLECT_SC = z3.Function("collect_scalar_rank", ACC, I_, ACC)
ACC_TOTAL = z3.Function("accumulator_total", ACC, I_)
FOLD = z3.Function("fold_parameters", I_, ACC)                    # fold(k) = state after the first k parameters


class AccObj(Obj):
    cls = "RankAccumulator"

    def __init__(self, ctx):
        Obj.__init__(self, name="acc")
        ctx.store[(self.oid, "state")] = ACC0

    def m_total(self, I, args, n):
        return ACC_TOTAL(I.ctx.store[(self.oid, "state")])


class ParamRef(Obj):
    cls = "ParamPattern"

    def __init__(self, k, idx):
        Obj.__init__(self, name="param")
        self.k, self.idx = k, idx

    def member(self, ctx, name, node):
        if name == "kind":
            return z3.If(self.k.is_input[self.idx], z3.IntVal(0), z3.IntVal(1))
        if name in ("ts", "scalar"):
            o = Obj("pattern", name)
            o.param = self.idx
            o.which = name
            return o
        raise Gap("ParamPattern.%s" % name)


class ParamVec(Obj):
    cls = "std::vector<ParamPattern>"

    def __init__(self, k):
        Obj.__init__(self, name="params")
        self.k = k

    def m_size(self, I, args, n):
        return self.k.n

    def m_empty(self, I, args, n):
        return self.k.n == 0

    def op(self, I, op, rest, n, a0):
        if op == "[]":
            i = I.ctx.rv(rest[0])
            I.ctx.oblige("vector-index-in-range@%s" % extract.line_of(n), z3.And(i >= 0, i < self.k.n), kind="bounds")
            return ParamRef(self.k, i)
        return NotImplemented


class OperatorRank(Kernel):
    """Spec function: rank(params) = total(fold(collect, empty accumulator, params[0..count))) -- ONE accumulator receives every
    counted parameter in order, so a type variable repeated across parameters is counted once (at its cheapest position).  The
    accumulator's own arithmetic (add_var's min-merge, total's sum) is behind the uninterpreted collect / total functions."""
    name = "operator_dispatch.h:operator_rank"
    tu = "src/hgraph/types/operator_dispatch.cpp"
    filter = "operator_rank"
    fn_name = "operator_rank"
    property_ids = ("C19",)
    scope = {"lo": 0, "hi": 3}
    bounded_fallback = 3
    title = "operator_rank: the candidate's specificity is the total of ONE accumulator fed with every counted parameter"

    def setup(self, I):
        ctx = I.ctx
        self.n = z3.Int("n_params")
        self.skip = z3.Bool("skip_variadic_tail")
        self.is_input = z3.Array("param_is_input", I_, z3.BoolSort())
        ctx.assume(self.n >= 0)
        qk = z3.Int("qk")
        step = z3.If(self.is_input[qk], COLLECT_TS(FOLD(qk), qk), COLLECT_SC(FOLD(qk), qk))
        ctx.assume(FOLD(0) == ACC0)
        ctx.assume(z3.ForAll([qk], z3.Implies(qk >= 0, FOLD(qk + 1) == step)))
        return None, {"params": ParamVec(self), "skip_variadic_tail": self.skip}

    def bound_sizes(self, I, n):
        I.ctx.assume(self.n <= n)

    def ctor_handler(self, qt, node):
        if qt.endswith("RankAccumulator"):
            return lambda I, args, n: AccObj(I.ctx)
        return Kernel.ctor_handler(self, qt, node)

    def default_value(self, I, qt, d):
        if strip_type(qt).endswith("RankAccumulator"):
            return AccObj(I.ctx)
        return Kernel.default_value(self, I, qt, d)

    def enum_const(self, I, ref):
        if ref.get("name") == "Input":
            return z3.IntVal(0)
        if ref.get("name") == "Scalar":
            return z3.IntVal(1)
        raise Gap("enum constant %s" % ref.get("name"))

    def collect(self, fn, want):
        def h(I, args, n):
            ctx = I.ctx
            pat, acc = ctx.rv(args[0]), ctx.rv(args[1])
            if not isinstance(acc, AccObj) or getattr(pat, "param", None) is None:
                raise Gap("collect rank on %r / %r" % (pat, acc))
            ctx.oblige("callee-pre.%s-pattern-of-a-%s-parameter" % (want, want), z3.BoolVal(pat.which == want), kind="callee-pre")
            if want == "scalar":
                ctx.oblige("callee-pre.scalar-parameters-rank-their-variables-at-1", ctx.rv(args[2]) == 1, kind="callee-pre")
            st = ctx.store[(acc.oid, "state")]
            ctx.write(Loc((acc.oid, "state")), fn(st, pat.param))
            return VOID
        return h

    def function_handler(self, name, node, callee_node):
        if name == "collect_ts_rank":
            return self.collect(COLLECT_TS, "ts")
        if name == "collect_scalar_rank":
            return self.collect(COLLECT_SC, "scalar")
        if name == "param_pattern_rank":
            # the neighbouring helper (five lines, same header): the rank of ONE parameter on its own, fresh accumulator
            def ppr(I, args, n):
                p = I.ctx.rv(args[0])
                if not isinstance(p, ParamRef):
                    raise Gap("param_pattern_rank(%r)" % (p,))
                return ACC_TOTAL(z3.If(self.is_input[p.idx], COLLECT_TS(ACC0, p.idx), COLLECT_SC(ACC0, p.idx)))
            return ppr
        return Kernel.function_handler(self, name, node, callee_node)

    def count(self):
        return z3.If(z3.And(self.skip, self.n > 0), self.n - 1, self.n)

    def _inv(self, I, ctx):
        i = self.local(I, "i")
        acc = self.local_obj(I, "acc")
        yield "index-range", z3.And(i >= 0, i <= self.count())
        yield "one-accumulator-holds-the-fold-of-the-parameters-so-far", ctx.store[(acc.oid, "state")] == FOLD(i)

    def _frame(self, I, ctx):
        return [Loc((self.local_obj(I, "acc").oid, "state"))]

    @property
    def loops(self):
        return {0: LoopSpec(inv=self._inv, frame=self._frame)}

    def post(self, I, ret):
        I.ctx.oblige("ensures.rank=total-of-one-accumulator-over-all-counted-parameters[C19 the unique most specific match: a variable "
                     "repeated across parameters counts once, so the aligned overload ranks ahead of its independent-variable twin]",
                     ret == ACC_TOTAL(FOLD(self.count())), kind="post-normal")


KERNELS += [OperatorRank]


# ---------------------------------------------------------------- input_ts_pattern_match (the matcher try_match uses for supplied arguments)
class InputTsPatternMatch(TsPatternMatch):
    name = "type_pattern.cpp:input_ts_pattern_match"
    filter = "input_ts_pattern_match"
    fn_name = "input_ts_pattern_match"
    title = ("input_ts_pattern_match: a bundle schema variable on an INPUT is bound once, to the supplied bundle, and only if the "
             "variable's constraints allow that bundle; a bound one never accepts a bundle of another shape")

    def function_handler(self, name, node, callee_node):
        if name == "input_ts_pattern_match":
            return TsPatternMatch.function_handler(self, "ts_pattern_match", node, callee_node)
        if name == "input_accepts_output_schema":
            return lambda I, a, n: I.ctx.fresh(name, "bool")
        return TsPatternMatch.function_handler(self, name, node, callee_node)

    def post(self, I, ret):
        ctx = I.ctx
        g = lambda nm: ctx.store[(self.g.oid, nm)]
        ck = z3.Function("schema_kind", I_, I_)(self.concrete)
        live = self.concrete != 0
        signal = self.pkind == TS["Signal"]
        through_ref = z3.And(live, z3.Not(signal), self.pkind != TS["REF"], ck == TSK["REF"])
        direct = z3.And(live, z3.Not(signal), z3.Not(through_ref))
        svar = z3.And(direct, self.pkind == TS["TSB"], ck == TSK["TSB"], z3.Bool("pattern_schema_var"))
        is_bound = self.bound != 0
        bound_once = z3.And(g("binds") == 1, g("bind_ok"), g("bound_to") == self.concrete)
        ret = ret if z3.is_bool(ret) else ret != 0
        ctx.oblige("ensures.no-schema=>no-match", z3.Implies(z3.Not(live), z3.And(z3.Not(ret), g("binds") == 0)), kind="post-normal")
        ctx.oblige("ensures.a-signal-parameter-accepts-any-time-series,binding-nothing", z3.Implies(z3.And(live, signal), z3.And(
            ret, g("binds") == 0)), kind="post-normal")
        ctx.oblige("ensures.a-reference-is-transparent:the-answer-is-that-of-the-referenced-schema",
                   z3.Implies(through_ref, z3.And(g("delegated_same_pattern") == 1, g("binds") == 0, ret == self.rec_result,
                                                  g("delegated_to") == z3.Function("referenced_ts", I_, I_)(self.concrete))),
                   kind="post-normal")
        ctx.oblige("ensures.bound-bundle-schema-variable:the-identical-bundle-matches,nothing-is-re-bound[C19]",
                   z3.Implies(z3.And(svar, is_bound), z3.And(z3.Implies(self.bound == self.concrete, ret), g("binds") == 0)),
                   kind="post-normal")
        ctx.oblige("ensures.bound-bundle-schema-variable-never-matches-a-bundle-of-another-shape[C19 every type variable bound to one "
                   "type across all positions]", z3.Implies(z3.And(svar, is_bound, ret), Equiv(self.bound, self.concrete)),
                   kind="post-normal")
        ctx.oblige("ensures.free-bundle-schema-variable-is-bound-once-to-the-supplied-bundle-iff-its-constraints-allow-it[C19 the selected "
                   "candidate's parameters really match the supplied types]",
                   z3.Implies(z3.And(svar, z3.Not(is_bound)), z3.And(ret == self.allowed, z3.If(ret, bound_once, g("binds") == 0))),
                   kind="post-normal")


KERNELS += [InputTsPatternMatch]
