"""C05 (window part) -- ts_data_window_ops.cpp TSWindowStorageCore: the ring buffer behind TSW.

Abstract view: the window is the sequence W[i] = (V[phys(i)], T[phys(i)]), 0 <= i < size, phys(i) = (head + i) mod
capacity, over the current value/time buffers.  Representation invariant WInv: 0 <= size <= capacity, capacity == 0 =>
head == 0, capacity > 0 => 0 <= head < capacity.  Every mutating operation is proved against the *whole* view: which
elements are dropped, which appended, and that every other element keeps its value, its time and its relative order.

Memory: value/time buffers are arrays slot -> element id; a byte pointer is (buffer, slot) -- `bytes + k * stride` with
the buffer's own stride is slot k; any other pointer arithmetic is a gap.  Element copy/move construction and
assignment copy the element id and do not throw (assumption, listed in the evidence)."""
import z3

from cxxvc.kernel import Kernel, LoopSpec, Lemma
from cxxvc.interp import Obj, Ptr, Loc, Gap, VOID, ExcVal, ThrowEx, Opt, MAX_DT
from cxxvc import extract, models

TU = "src/hgraph/types/metadata/ts_data_window_ops.cpp"
I_ = z3.IntSort()
qi, qj = z3.Ints("qi qj")


class BytePtr:
    """pointer into a window buffer: (kernel, buffer id, kind 'V'|'T', slot)"""
    custom_binop = True

    def __init__(self, k, buf, kind, slot, null=None):
        self.k, self.buf, self.kind, self.slot = k, buf, kind, slot
        self.null = z3.BoolVal(False) if null is None else null

    def binop(self, I, op, other):
        if op == "+":
            o = I.ctx.rv(other)
            return BytePtr(self.k, self.buf, self.kind, self.slot + self.k.slots_of(o, self.kind), self.null)
        if op in ("==", "!=") and isinstance(other, Ptr) and other.target is None:
            return self.null if op == "==" else z3.Not(self.null)
        raise Gap("pointer arithmetic %s on a window buffer pointer" % op)

    def rbinop(self, I, op, other):
        if op in ("==", "!=", "+"):
            return self.binop(I, op, other)
        raise Gap("pointer arithmetic %s on a window buffer pointer" % op)

    def read(self, ctx):
        return ctx.store[(self.k.core.oid, "buf:%s" % self.buf)][self.slot]

    def write(self, ctx, v):
        key = (self.k.core.oid, "buf:%s" % self.buf)
        ctx.write(Loc(key), z3.Store(ctx.store[key], self.slot, v))


class SrcPtr:
    """pointer to an element outside the window (the pushed source, &modified_time)"""
    custom_binop = False

    def __init__(self, v):
        self.v = v

    def read(self, ctx):
        return self.v


def src_value(ctx, p):
    p = ctx.rv(p)
    if isinstance(p, (BytePtr, SrcPtr)):
        return p.read(ctx)
    if isinstance(p, Ptr) and isinstance(p.target, Loc):
        return ctx.load(p.target)
    if isinstance(p, z3.ExprRef):
        return p
    raise Gap("copy source %r is not a tracked element pointer" % (p,))


class Layout(Obj):
    cls = "layout"

    def __init__(self, k, kind):
        Obj.__init__(self, name="layout")
        self.k, self.kind = k, kind

    def member(self, ctx, name, node):
        return self.k.layout_term(self.kind, name)


class Plan(Obj):
    """MemoryUtils::StoragePlan / ValueTypeRef of the element ('V') or time ('T') type"""
    cls = "StoragePlan"

    def __init__(self, k, kind):
        Obj.__init__(self, name="plan_" + kind)
        self.k, self.kind = k, kind

    def member(self, ctx, name, node):
        if name == "layout":
            return Layout(self.k, self.kind)
        raise Gap("plan member %s" % name)

    def _construct(self, I, args):
        ctx = I.ctx
        dst = ctx.rv(args[0])
        if not isinstance(dst, BytePtr) or dst.kind != self.kind:
            raise Gap("construction target is not a %s buffer slot" % self.kind)
        ctx.oblige("callee-pre.construct:slot-inside-the-buffer", z3.And(dst.slot >= 0, dst.slot < self.k.buf_cap(ctx, dst.buf)),
                   kind="bounds")
        dst.write(ctx, src_value(ctx, args[1]))
        return VOID

    m_copy_construct = lambda self, I, args, n: self._construct(I, args)
    m_copy_construct_at = m_copy_construct
    m_move_construct_at = m_copy_construct
    m_copy_assign = m_copy_construct

    def m_can_copy_assign(self, I, args, n):
        return self.k.can_assign[self.kind]

    def m_destroy(self, I, args, n):
        return VOID

    m_destroy_at = m_destroy


class WindowKernel(Kernel):
    tu = TU
    property_ids = ("C05",)
    scope = {"lo": 0, "hi": 4}
    mod_wrap = True
    cls_name = "TSWindowStorageCore"

    def base(self, I):
        ctx = I.ctx
        core = Obj("TSWindowStorageCore", "this_window")
        self.core = core
        self.cap0, self.size0, self.head0 = z3.Int("capacity0"), z3.Int("size0"), z3.Int("head0")
        self.V0, self.T0 = z3.Array("values0", I_, I_), z3.Array("times0", I_, I_)
        self.stride = {"V": z3.Int("value_stride"), "T": z3.Int("time_stride")}
        self.can_assign = {"V": z3.Bool("value_can_copy_assign"), "T": z3.Bool("time_can_copy_assign")}
        ctx.assume(z3.And(self.stride["V"] > 0, self.stride["T"] > 0))
        ctx.store[(core.oid, "capacity_")] = self.cap0
        ctx.store[(core.oid, "size_")] = self.size0
        ctx.store[(core.oid, "head_")] = self.head0
        ctx.store[(core.oid, "buf:curV")] = self.V0
        ctx.store[(core.oid, "buf:curT")] = self.T0
        ctx.store[(core.oid, "cap:curV")] = self.cap0
        ctx.store[(core.oid, "cap:curT")] = self.cap0
        self.bytes_null = z3.Bool("buffers_null")
        ctx.store[(core.oid, "value_bytes_")] = BytePtr(self, "curV", "V", z3.IntVal(0), self.bytes_null)
        ctx.store[(core.oid, "time_bytes_")] = BytePtr(self, "curT", "T", z3.IntVal(0), self.bytes_null)
        ctx.store[(core.oid, "time_binding_")] = Ptr(Plan(self, "T"), z3.BoolVal(False))
        ctx.store[(core.oid, "element_binding_")] = Ptr(Plan(self, "V"), z3.BoolVal(False))
        ctx.store[(core.oid, "evicted_")] = z3.Int("evicted0")
        ctx.store[(core.oid, "evicted_time_")] = z3.Int("evicted_time0")
        ctx.assume(self.winv(self.cap0, self.size0, self.head0))
        ctx.assume(z3.Implies(self.bytes_null, self.cap0 == 0))
        return core

    @staticmethod
    def winv(cap, size, head):
        return z3.And(cap >= 0, size >= 0, size <= cap, z3.Implies(cap == 0, head == 0), head >= 0, z3.Implies(cap > 0, head < cap))

    @staticmethod
    def phys(cap, head, i):
        return z3.If(head + i < cap, head + i, head + i - cap)

    def st(self, ctx, nm):
        return ctx.store[(self.core.oid, nm)]

    def buf_cap(self, ctx, buf):
        return ctx.store[(self.core.oid, "cap:" + buf)]

    def view(self, ctx, which, i):
        """logical element i of the current window (which = 'V' or 'T')"""
        p = self.st(ctx, "value_bytes_" if which == "V" else "time_bytes_")
        arr = ctx.store[(self.core.oid, "buf:" + p.buf)]
        return arr[self.phys(self.st(ctx, "capacity_"), self.st(ctx, "head_"), i)]

    def view0(self, which, i):
        return (self.V0 if which == "V" else self.T0)[self.phys(self.cap0, self.head0, i)]

    def layout_term(self, kind, name):
        return z3.Int("%s_layout_%s" % (kind, name))

    def slots_of(self, off, kind):
        """byte offset -> slot count: only k * stride(kind) is understood"""
        st = self.stride[kind]
        off = z3.simplify(off) if isinstance(off, z3.ExprRef) else off
        if z3.is_int_value(off) and off.as_long() == 0:
            return z3.IntVal(0)
        if z3.is_app(off) and off.decl().kind() == z3.Z3_OP_MUL and off.num_args() == 2:
            a, b = off.arg(0), off.arg(1)
            if z3.eq(a, st):
                return b
            if z3.eq(b, st):
                return a
        if z3.eq(off, st):
            return z3.IntVal(1)
        raise Gap("byte offset %s is not a multiple of the %s stride" % (off, kind))

    # callees shared by the kernels (each is a one-line accessor of the same class)
    def function_handler(self, name, node, callee_node):
        h = getattr(self, "f_" + name, None)
        if h is not None:
            return h
        return Kernel.function_handler(self, name, node, callee_node)

    def method_handler(self, obj, name, node):
        if obj is self.core:
            h = getattr(self, "w_" + name, None)
            if h is not None:
                return lambda I, o, a, n: h(I, a, n)
        return Kernel.method_handler(self, obj, name, node)

    def f_align_up(self, I, args, n):
        a = I.ctx.rv(args[0])
        for kind in ("V", "T"):
            if isinstance(a, z3.ExprRef) and z3.eq(a, self.layout_term(kind, "size")):
                return self.stride[kind]
        raise Gap("align_up of something that is not an element/time layout size")

    def f_cast(self, I, args, n):
        return I.ctx.rv(args[0])

    def w_element_plan(self, I, a, n):
        return Plan(self, "V")

    def w_time_plan(self, I, a, n):
        return Plan(self, "T")

    w_element_binding = w_element_plan
    w_time_binding = w_time_plan

    def w_value_stride(self, I, a, n):
        return self.stride["V"]

    def w_time_stride(self, I, a, n):
        return self.stride["T"]

    def w_value_slot(self, I, a, n):
        p = self.st(I.ctx, "value_bytes_")
        return BytePtr(self, p.buf, "V", I.ctx.rv(a[0]), p.null)

    def w_time_slot(self, I, a, n):
        p = self.st(I.ctx, "time_bytes_")
        return BytePtr(self, p.buf, "T", I.ctx.rv(a[0]), p.null)

    def w_physical_index(self, I, a, n):
        """contract proved by PhysicalIndex"""
        ctx = I.ctx
        cap, head = self.st(ctx, "capacity_"), self.st(ctx, "head_")
        lg = ctx.rv(a[0])
        ctx.oblige("callee-pre.physical_index:logical<=capacity", z3.And(lg >= 0, lg <= cap), kind="callee-pre")
        return z3.If(cap == 0, z3.IntVal(0), self.phys(cap, head, lg))

    def _elem(self, I, a, which, what):
        ctx = I.ctx
        idx = ctx.rv(a[0])
        if ctx.decide(idx >= self.st(ctx, "size_"), "%s: index out of range" % what):
            I.throw_new("out_of_range", what)
        p = self.st(ctx, "value_bytes_" if which == "V" else "time_bytes_")
        return BytePtr(self, p.buf, which, self.phys(self.st(ctx, "capacity_"), self.st(ctx, "head_"), idx), p.null)

    def w_element_at(self, I, a, n):
        """contract proved by ElementAt"""
        return self._elem(I, a, "V", "element_at")

    def w_time_element_at(self, I, a, n):
        return self._elem(I, a, "T", "time_element_at")

    def w_time_at_physical(self, I, a, n):
        ctx = I.ctx
        p = self.st(ctx, "time_bytes_")
        return ctx.store[(self.core.oid, "buf:" + p.buf)][ctx.rv(a[0])]

    def w_destroy_slot(self, I, a, n):
        return VOID

    def w_validate_source(self, I, a, n):
        if I.ctx.choose(2, "validate_source outcome") == 1:
            I.throw_new("invalid_argument", "validate_source")
        return VOID

    def w_record_evicted(self, I, a, n):
        ctx = I.ctx
        ctx.write(Loc((self.core.oid, "evicted_")), src_value(ctx, a[0]))
        ctx.write(Loc((self.core.oid, "evicted_time_")), ctx.rv(a[1]))
        return VOID

    def w_copy_construct_slot(self, I, a, n):
        """copy_construct_slot(physical, source, time): both slots of `physical` are written (contract proved by
        CopyConstructSlot)"""
        ctx = I.ctx
        ph = ctx.rv(a[0])
        cap = self.st(ctx, "capacity_")
        ctx.oblige("callee-pre.copy_construct_slot:physical<capacity", z3.And(ph >= 0, ph < cap), kind="callee-pre")
        vp, tp = self.st(ctx, "value_bytes_"), self.st(ctx, "time_bytes_")
        BytePtr(self, vp.buf, "V", ph).write(ctx, src_value(ctx, a[1]))
        BytePtr(self, tp.buf, "T", ph).write(ctx, src_value(ctx, a[2]))
        return VOID

    def w_copy_assign_value_slot(self, I, a, n):
        ctx = I.ctx
        if not ctx.decide(self.can_assign["V"], "value copy-assignable"):
            I.throw_new("logic_error", "copy_assign_value_slot")
        p = self.st(ctx, "value_bytes_")
        BytePtr(self, p.buf, "V", ctx.rv(a[0])).write(ctx, src_value(ctx, a[1]))
        return VOID

    def w_copy_assign_time_slot(self, I, a, n):
        ctx = I.ctx
        if not ctx.decide(self.can_assign["T"], "time copy-assignable"):
            I.throw_new("logic_error", "copy_assign_time_slot")
        p = self.st(ctx, "time_bytes_")
        BytePtr(self, p.buf, "T", ctx.rv(a[0])).write(ctx, ctx.rv(a[1]))
        return VOID

    def w_clear(self, I, a, n):
        ctx = I.ctx
        ctx.write(Loc((self.core.oid, "size_")), z3.IntVal(0))
        ctx.write(Loc((self.core.oid, "head_")), z3.IntVal(0))
        return VOID

    def w_deallocate(self, I, a, n):
        ctx = I.ctx
        ctx.write(Loc((self.core.oid, "capacity_")), z3.IntVal(0))
        ctx.write(Loc((self.core.oid, "value_bytes_")), BytePtr(self, "none", "V", z3.IntVal(0), z3.BoolVal(True)))
        ctx.write(Loc((self.core.oid, "time_bytes_")), BytePtr(self, "none", "T", z3.IntVal(0), z3.BoolVal(True)))
        return VOID

    def winv_now(self, ctx):
        return self.winv(self.st(ctx, "capacity_"), self.st(ctx, "size_"), self.st(ctx, "head_"))


def _throw_new(I, kind, origin):
    ctx = I.ctx
    ctx.uncaught += 1
    raise ThrowEx(ExcVal(kind, origin=origin))


from cxxvc.interp import Interp
if not hasattr(Interp, "throw_new"):
    Interp.throw_new = _throw_new

models.install_guards(WindowKernel)


class PhysicalIndex(WindowKernel):
    name = "ts_data_window_ops.cpp:TSWindowStorageCore::physical_index"
    fn_name = "physical_index"
    filter = "TSWindowStorageCore::physical_index"
    title = "physical_index: logical position -> ring slot, inside the buffer"

    def setup(self, I):
        th = self.base(I)
        self.lg = z3.Int("logical")
        I.ctx.assume(z3.And(self.lg >= 0, self.lg <= self.cap0))
        return th, {"logical": self.lg}

    def post(self, I, ret):
        I.ctx.oblige("ensures.result=(head+logical)-wrapped-once,inside-the-buffer[C05 window order]", z3.And(
            ret == z3.If(self.cap0 == 0, 0, self.phys(self.cap0, self.head0, self.lg)),
            z3.Implies(self.lg < self.cap0, z3.And(ret >= 0, ret < self.cap0))), kind="post-normal")


class Append(WindowKernel):
    name = "ts_data_window_ops.cpp:TSWindowStorageCore::append"
    fn_name = "append"
    filter = "TSWindowStorageCore::append"
    title = "append: the window grows by exactly the pushed (value, time) at its end; every other element is untouched"

    def setup(self, I):
        th = self.base(I)
        self.pushed, self.t = z3.Int("pushed_value"), z3.Int("modified_time")
        s = Obj("ValueView", "source")
        s.m_data = lambda I_, a, n_: SrcPtr(self.pushed)
        return th, {"source": s, "modified_time": self.t}

    def post(self, I, ret):
        ctx = I.ctx
        ctx.oblige("ensures.size+1,head-and-capacity-unchanged,WInv", z3.And(
            self.st(ctx, "size_") == self.size0 + 1, self.st(ctx, "head_") == self.head0,
            self.st(ctx, "capacity_") == self.cap0, self.winv_now(ctx)), kind="post-normal")
        ctx.oblige("ensures.window'=window++[(value,time)][C05 the window holds the most recent elements in tick order]", z3.And(
            self.view(ctx, "V", self.size0) == self.pushed, self.view(ctx, "T", self.size0) == self.t,
            z3.ForAll([qi], z3.Implies(z3.And(qi >= 0, qi < self.size0), z3.And(
                self.view(ctx, "V", qi) == self.view0("V", qi), self.view(ctx, "T", qi) == self.view0("T", qi))))),
            kind="post-normal")

    def post_exc(self, I, exc):
        ctx = I.ctx
        ctx.oblige("raises.only-for-a-bad-source-or-a-full/absent-buffer", z3.Or(
            z3.BoolVal(exc.origin == "validate_source"), self.cap0 == 0, self.size0 >= self.cap0), kind="post-exceptional")
        ctx.oblige("raises.window-unchanged", z3.And(self.st(ctx, "size_") == self.size0, self.st(ctx, "head_") == self.head0,
                   self.st(ctx, "buf:curV") == self.V0, self.st(ctx, "buf:curT") == self.T0), kind="post-exceptional")


class OverwriteOldest(WindowKernel):
    name = "ts_data_window_ops.cpp:TSWindowStorageCore::overwrite_oldest"
    fn_name = "overwrite_oldest"
    filter = "TSWindowStorageCore::overwrite_oldest"
    title = "overwrite_oldest (full window): the oldest element is evicted and recorded, the pushed one becomes the newest"

    def setup(self, I):
        th = self.base(I)
        self.pushed, self.t = z3.Int("pushed_value"), z3.Int("modified_time")
        I.ctx.assume(z3.And(self.size0 == self.cap0))      # call site: SizeTSWindowStorage::push when size() >= period_
        s = Obj("ValueView", "source")
        s.m_data = lambda I_, a, n_: SrcPtr(self.pushed)
        return th, {"source": s, "modified_time": self.t}

    def post(self, I, ret):
        ctx = I.ctx
        n = self.size0
        ctx.oblige("ensures.size-and-capacity-unchanged,WInv", z3.And(
            self.st(ctx, "size_") == n, self.st(ctx, "capacity_") == self.cap0, self.winv_now(ctx)), kind="post-normal")
        ctx.oblige("ensures.window'=window[1:]++[(value,time)],evicted=window[0][C05 oldest first out; removed_value]", z3.And(
            self.st(ctx, "evicted_") == self.view0("V", z3.IntVal(0)), self.st(ctx, "evicted_time_") == self.t,
            self.view(ctx, "V", n - 1) == self.pushed, self.view(ctx, "T", n - 1) == self.t,
            z3.ForAll([qi], z3.Implies(z3.And(qi >= 0, qi < n - 1), z3.And(
                self.view(ctx, "V", qi) == self.view0("V", qi + 1), self.view(ctx, "T", qi) == self.view0("T", qi + 1))))),
            kind="post-normal")

    def post_exc(self, I, exc):
        ctx = I.ctx
        ctx.oblige("raises.only-for-a-bad-source,no-capacity-or-non-assignable-storage", z3.Or(
            z3.BoolVal(exc.origin == "validate_source"), self.cap0 == 0, z3.Not(self.can_assign["V"]),
            z3.Not(self.can_assign["T"])), kind="post-exceptional")


class PruneBefore(WindowKernel):
    name = "ts_data_window_ops.cpp:TSWindowStorageCore::prune_before"
    fn_name = "prune_before"
    filter = "TSWindowStorageCore::prune_before"
    title = "prune_before: exactly the maximal prefix of elements older than the cutoff is dropped; the rest keeps its order"

    def setup(self, I):
        th = self.base(I)
        self.cut = z3.Int("cutoff")
        return th, {"cutoff": self.cut}

    def inv(self, I, ctx):
        size, head, cap = self.st(ctx, "size_"), self.st(ctx, "head_"), self.st(ctx, "capacity_")
        d = self.size0 - size
        yield "WInv,capacity-unchanged", z3.And(self.winv(cap, size, head), cap == self.cap0, d >= 0, d <= self.size0)
        yield "head-advanced-by-the-number-dropped", z3.Implies(size > 0, head == self.phys(self.cap0, self.head0, d))
        yield "every-dropped-element-is-older-than-the-cutoff", z3.ForAll([qi], z3.Implies(
            z3.And(qi >= 0, qi < d), self.view0("T", qi) < self.cut))

    def frame(self, I, ctx):
        return [Loc((self.core.oid, "size_")), Loc((self.core.oid, "head_"))]

    @property
    def loops(self):
        return {0: LoopSpec(self.inv, self.frame)}

    def post(self, I, ret):
        ctx = I.ctx
        size = self.st(ctx, "size_")
        d = self.size0 - size
        ctx.oblige("ensures.WInv,buffers-untouched", z3.And(self.winv_now(ctx), self.st(ctx, "capacity_") == self.cap0,
                   self.st(ctx, "buf:curV") == self.V0, self.st(ctx, "buf:curT") == self.T0), kind="post-normal")
        ctx.oblige("ensures.dropped=the-maximal-prefix-older-than-the-cutoff;the-rest-in-order[C05 elements expire oldest first, "
                   "only when out of range]", z3.And(
                       d >= 0, d <= self.size0,
                       z3.ForAll([qi], z3.Implies(z3.And(qi >= 0, qi < d), self.view0("T", qi) < self.cut)),
                       z3.Implies(size > 0, self.view0("T", d) >= self.cut),
                       z3.ForAll([qi], z3.Implies(z3.And(qi >= 0, qi < size), z3.And(
                           self.view(ctx, "V", qi) == self.view0("V", qi + d), self.view(ctx, "T", qi) == self.view0("T", qi + d))))),
                   kind="post-normal")

    def post_exc(self, I, exc):
        I.ctx.oblige("noexcept", False, kind="post-exceptional")


class ReserveExact(WindowKernel):
    name = "ts_data_window_ops.cpp:TSWindowStorageCore::reserve_exact"
    fn_name = "reserve_exact"
    filter = "TSWindowStorageCore::reserve_exact"
    title = "reserve_exact: growing the ring buffer keeps the window (values, times, logical order) and re-bases it at slot 0"

    def setup(self, I):
        th = self.base(I)
        self.newcap = z3.Int("new_capacity")
        I.ctx.assume(self.newcap >= 0)
        ctx = I.ctx
        for b in ("newV", "newT"):
            ctx.store[(self.core.oid, "buf:" + b)] = z3.Array(b + "_uninitialised", I_, I_)
            ctx.store[(self.core.oid, "cap:" + b)] = self.newcap
        ctx.store[(self.core.oid, "buf:none")] = z3.Array("no_buffer", I_, I_)
        ctx.store[(self.core.oid, "cap:none")] = z3.IntVal(0)
        return th, {"new_capacity": self.newcap}

    def free_call_operator_new(self, I, args, n):
        sz = z3.simplify(I.ctx.rv(args[0]))
        for kind in ("V", "T"):
            try:
                self.slots_of(sz, kind)
                return BytePtr(self, "new" + kind, kind, z3.IntVal(0))
            except Gap:
                continue
        raise Gap("operator new of a size that is not slots * stride")

    def function_handler(self, name, node, callee_node):
        if name == "operator new":
            return self.free_call_operator_new
        if name == "operator delete":
            return lambda I, a, n: VOID
        return WindowKernel.function_handler(self, name, node, callee_node)

    def ctor_handler(self, qt, node):
        if "align_val_t" in qt:
            return lambda I, args, n: z3.IntVal(0)
        return Kernel.ctor_handler(self, qt, node)

    def inv(self, I, ctx):
        cv, ct = self.local(I, "constructed_values"), self.local(I, "constructed_times")
        nv, nt = self.st(ctx, "buf:newV"), self.st(ctx, "buf:newT")
        yield "relocated-count", z3.And(cv == ct, cv >= 0, cv <= self.size0)
        yield "relocated-prefix-is-the-window-in-logical-order[C05]", z3.ForAll([qi], z3.Implies(z3.And(qi >= 0, qi < cv), z3.And(
            nv[qi] == self.view0("V", qi), nt[qi] == self.view0("T", qi))))

    def frame(self, I, ctx):
        return [Loc((self.core.oid, "buf:newV")), Loc((self.core.oid, "buf:newT"))]

    @property
    def loops(self):
        return {2: LoopSpec(self.inv, self.frame)}

    def post(self, I, ret):
        ctx = I.ctx
        grew = self.newcap > self.cap0
        ctx.oblige("ensures.no-growth=>nothing-changes", z3.Implies(z3.Not(grew), z3.And(
            self.st(ctx, "capacity_") == self.cap0, self.st(ctx, "size_") == self.size0, self.st(ctx, "head_") == self.head0,
            self.st(ctx, "buf:curV") == self.V0, self.st(ctx, "buf:curT") == self.T0)), kind="post-normal")
        ctx.oblige("ensures.growth=>capacity=new_capacity,size-kept,head=0,WInv", z3.Implies(grew, z3.And(
            self.st(ctx, "capacity_") == self.newcap, self.st(ctx, "size_") == self.size0, self.st(ctx, "head_") == 0,
            self.winv_now(ctx))), kind="post-normal")
        ctx.oblige("ensures.window-preserved:same-values-and-times-in-the-same-logical-order[C05 the window's contents and order "
                   "do not depend on the buffer's capacity history]", z3.ForAll([qi], z3.Implies(
                       z3.And(qi >= 0, qi < self.size0), z3.And(self.view(ctx, "V", qi) == self.view0("V", qi),
                                                             self.view(ctx, "T", qi) == self.view0("T", qi)))), kind="post-normal")


KERNELS = [PhysicalIndex, Append, OverwriteOldest, PruneBefore, ReserveExact]


# ------------------------------------------------------------------ bounded stand-in for the TSD / nested storage (C05, C20)

from cxxvc.native import NativeCheck  # noqa: E402


class DeltaCoherenceEnumeration(NativeCheck):
    kid = "native:c05_deltas"
    property_ids = ("C05", "C20")
    source = "native/bounded/c05_deltas.cpp"
    title = "at every tick the observed value equals the previous value with the captured delta applied (TSS, TSD, TSD of TSS)"
    bound_text = ("bounded: histories of H cycles, each a sequence of at most L mutations through the public Out<> API of a real "
                  "producer node over a small universe (TSS: add/remove of 2 elements; TSD<Int,TS<Int>>: set of 2 values / erase "
                  "over 2 keys; TSD<Int,TSS<Int>>: erase, child add/remove over 2 keys x 2 elements); quick: TSS H=2 L=3 (7 225), "
                  "TSD H=1 L=3 (259) + H=2 L=2 (1 849), TSD-of-TSS H=1 L=4 (4 681) + 3 000 random H=3 L=3; TSS with WHOLE-VALUE assignment "
                  "(move_value_from of each of the 8 subsets of {1,2,3}) next to add/remove, the value at each tick also compared with an "
                  "explicit set model: H=3 L=1 (2 197), H=2 L=2 (24 649), 3 000 random H=4 L=2; thorough: TSD H=2 L=3 "
                  "(67 081), TSD-of-TSS H=2 L=3 (342 225, sharded), TSS H=3 L=3")
    functions = ("ts_data_slot_ops.cpp:TSDSlotStorage::insert_key/remove_key/record_child_modified",
                 "ts_data_slot_ops.cpp:TSSSlotStorage::*", "ts_delta.cpp:capture_delta / apply_delta (TSS, TSD)")

    def runs(self, tier):
        if tier == "thorough":
            jobs = [(["tss", "3", "3"], {"SHARD": "%d/4" % i}) for i in range(4)]
            jobs += [(["tsd", "2", "3"], {"SHARD": "%d/2" % i}) for i in range(2)]
            jobs += [(["tsd_tss", "2", "3"], {"SHARD": "%d/10" % i}) for i in range(10)]
            jobs += [(["tssassign", "3", "2"], {"SHARD": "%d/8" % i}) for i in range(8)]
            return jobs
        return [(["tss", "2", "3"], {}), (["tsd", "1", "3"], {}), (["tsd", "2", "2"], {}), (["tsd_tss", "1", "4"], {}),
                (["tsd_tss", "3", "3", "3000", "5"], {}), (["tssassign", "3", "1"], {}), (["tssassign", "2", "2"], {}),
                (["tssassign", "4", "2", "3000", "9"], {})]


NATIVE = [DeltaCoherenceEnumeration]


# ------------------------------------------------------------------ push: the two window policies as compositions of the core


class PushKernel(WindowKernel):
    """callee contracts of the core operations (each proved above), stated on the window view"""

    def havoc_window(self, ctx, size_new, keep_from, keep_n, extra=None):
        """new buffers/head/capacity with view'(i) = view(keep_from + i) for i < keep_n (and view'(keep_n) = extra)"""
        oldV = lambda i: self.view(ctx, "V", i)
        oldT = lambda i: self.view(ctx, "T", i)
        refs = [(oldV, oldT)]
        nv, nt = ctx.fresh("values_after", self.V0.sort()), ctx.fresh("times_after", self.T0.sort())
        cap, head = ctx.fresh("capacity_after"), ctx.fresh("head_after")
        old_vals = [(self.st(ctx, "buf:curV"), self.st(ctx, "buf:curT"), self.st(ctx, "capacity_"), self.st(ctx, "head_"))]
        V_, T_, c_, h_ = old_vals[0]
        ov = lambda i: V_[self.phys(c_, h_, i)]
        ot = lambda i: T_[self.phys(c_, h_, i)]
        ctx.assume(self.winv(cap, size_new, head))
        ctx.assume(z3.ForAll([qi], z3.Implies(z3.And(qi >= 0, qi < keep_n), z3.And(
            nv[self.phys(cap, head, qi)] == ov(keep_from + qi), nt[self.phys(cap, head, qi)] == ot(keep_from + qi)))))
        if extra is not None:
            ctx.assume(z3.And(nv[self.phys(cap, head, keep_n)] == extra[0], nt[self.phys(cap, head, keep_n)] == extra[1]))
        ctx.write(Loc((self.core.oid, "buf:curV")), nv)
        ctx.write(Loc((self.core.oid, "buf:curT")), nt)
        ctx.write(Loc((self.core.oid, "capacity_")), cap)
        ctx.write(Loc((self.core.oid, "head_")), head)
        ctx.write(Loc((self.core.oid, "size_")), size_new)
        return cap

    def w_size(self, I, a, n):
        return self.st(I.ctx, "size_")

    def w_append(self, I, a, n):
        ctx = I.ctx
        size, cap = self.st(ctx, "size_"), self.st(ctx, "capacity_")
        if ctx.choose(2, "append: source rejected") == 1:
            I.throw_new("invalid_argument", "validate_source")
        if ctx.decide(z3.Or(cap == 0, size >= cap), "append: no room"):
            I.throw_new("logic_error", "append")
        self.havoc_window(ctx, size + 1, z3.IntVal(0), size, extra=(src_value(ctx, self.src_ptr), ctx.rv(a[1])))
        return VOID

    def w_overwrite_oldest(self, I, a, n):
        ctx = I.ctx
        size, cap = self.st(ctx, "size_"), self.st(ctx, "capacity_")
        ctx.oblige("callee-pre.overwrite_oldest:the-window-is-full", z3.And(size == cap, cap > 0), kind="callee-pre")
        if ctx.choose(2, "overwrite: source rejected or storage not assignable") == 1:
            I.throw_new("invalid_argument", "validate_source")
        ctx.write(Loc((self.core.oid, "evicted_")), self.view(ctx, "V", z3.IntVal(0)))
        ctx.write(Loc((self.core.oid, "evicted_time_")), ctx.rv(a[1]))
        self.havoc_window(ctx, size, z3.IntVal(1), size - 1, extra=(src_value(ctx, self.src_ptr), ctx.rv(a[1])))
        return VOID

    def w_time_at(self, I, a, n):
        ctx = I.ctx
        i = ctx.rv(a[0])
        if ctx.decide(i >= self.st(ctx, "size_"), "time_at: index out of range"):
            I.throw_new("out_of_range", "time_at")
        return self.view(ctx, "T", i)

    def w_prune_before(self, I, a, n):
        ctx = I.ctx
        cut = ctx.rv(a[0])
        size = self.st(ctx, "size_")
        d = ctx.fresh("pruned")
        ctx.assume(z3.And(d >= 0, d <= size,
                          z3.ForAll([qi], z3.Implies(z3.And(qi >= 0, qi < d), self.view(ctx, "T", qi) < cut)),
                          z3.Implies(d < size, self.view(ctx, "T", d) >= cut)))
        self.havoc_window(ctx, size - d, d, size - d)
        self.pruned = d
        return VOID

    def w_ensure_capacity(self, I, a, n):
        ctx = I.ctx
        req = ctx.rv(a[0])
        size = self.st(ctx, "size_")
        cap = self.havoc_window(ctx, size, z3.IntVal(0), size)
        ctx.assume(cap >= req)
        return VOID


class SizeWindowPush(PushKernel):
    cls_name = "SizeTSWindowStorage"
    name = "ts_data_window_ops.cpp:SizeTSWindowStorage::push"
    fn_name = "push"
    filter = "SizeTSWindowStorage::push"
    title = "tick-count window push: the window holds exactly the most recent `period` pushed values, in order"

    def setup(self, I):
        th = self.base(I)
        ctx = I.ctx
        self.period = z3.Int("period")
        ctx.assume(z3.And(self.period >= 1, self.cap0 == self.period))        # the constructor reserves exactly `period` slots
        ctx.store[(th.oid, "period_")] = self.period
        self.pushed, self.t = z3.Int("pushed_value"), z3.Int("modified_time")
        self.src_ptr = SrcPtr(self.pushed)
        s = Obj("ValueView", "source")
        s.m_data = lambda I_, a, n_: self.src_ptr
        return th, {"source": s, "modified_time": self.t}

    def post(self, I, ret):
        ctx = I.ctx
        n = self.size0
        full = n >= self.period
        size = self.st(ctx, "size_")
        shift = z3.If(full, 1, 0)
        ctx.oblige("ensures.window'=the-most-recent-period-values-of-(window++[pushed]),in-order[C05 a tick-count window holds exactly "
                   "the most recent N pushed values in order]", z3.And(
                       size == z3.If(full, n, n + 1), self.winv_now(ctx),
                       self.view(ctx, "V", size - 1) == self.pushed, self.view(ctx, "T", size - 1) == self.t,
                       z3.ForAll([qi], z3.Implies(z3.And(qi >= 0, qi < size - 1), z3.And(
                           self.view(ctx, "V", qi) == self.view0("V", qi + shift), self.view(ctx, "T", qi) == self.view0("T", qi + shift)))),
                       z3.Implies(full, self.st(ctx, "evicted_") == self.view0("V", z3.IntVal(0)))), kind="post-normal")

    def post_exc(self, I, exc):
        I.ctx.oblige("raises.only-for-a-rejected-source", z3.BoolVal(exc.origin in ("validate_source",)), kind="post-exceptional")


class TimeWindowPush(PushKernel):
    cls_name = "TimeTSWindowStorage"
    name = "ts_data_window_ops.cpp:TimeTSWindowStorage::push"
    fn_name = "push"
    filter = "TimeTSWindowStorage::push"
    title = "duration window push: elements older than (now - range) leave oldest first, the pushed one becomes the newest"

    def setup(self, I):
        th = self.base(I)
        ctx = I.ctx
        self.range = z3.Int("time_range")
        ctx.assume(self.range >= 0)
        ctx.store[(th.oid, "time_range_")] = self.range
        self.pushed, self.t = z3.Int("pushed_value"), z3.Int("modified_time")
        self.src_ptr = SrcPtr(self.pushed)
        self.pruned = z3.IntVal(0)
        s = Obj("ValueView", "source")
        s.m_data = lambda I_, a, n_: self.src_ptr
        return th, {"source": s, "modified_time": self.t}

    def inv(self, I, ctx):
        d = self.local(I, "dropped")
        cut = self.t - self.range
        yield "dropped-prefix-is-older-than-the-cutoff", z3.And(d >= 0, d <= self.size0, z3.ForAll([qi], z3.Implies(
            z3.And(qi >= 0, qi < d), self.view0("T", qi) < cut)))
        yield "window-untouched", z3.And(self.st(ctx, "size_") == self.size0, self.st(ctx, "head_") == self.head0,
                                         self.st(ctx, "capacity_") == self.cap0, self.st(ctx, "buf:curV") == self.V0,
                                         self.st(ctx, "buf:curT") == self.T0)

    @property
    def loops(self):
        return {0: LoopSpec(self.inv, lambda I, ctx: [])}

    def post(self, I, ret):
        ctx = I.ctx
        cut = self.t - self.range
        size = self.st(ctx, "size_")
        d = self.size0 + 1 - size
        ctx.oblige("ensures.window'=(window-minus-the-maximal-prefix-older-than-now-range)++[pushed][C05 elements leave a duration "
                   "window oldest first and only when out of range]", z3.And(
                       d >= 0, d <= self.size0, self.winv_now(ctx),
                       z3.ForAll([qi], z3.Implies(z3.And(qi >= 0, qi < d), self.view0("T", qi) < cut)),
                       z3.Implies(d < self.size0, self.view0("T", d) >= cut),
                       self.view(ctx, "V", size - 1) == self.pushed, self.view(ctx, "T", size - 1) == self.t,
                       z3.ForAll([qi], z3.Implies(z3.And(qi >= 0, qi < size - 1), z3.And(
                           self.view(ctx, "V", qi) == self.view0("V", qi + d), self.view(ctx, "T", qi) == self.view0("T", qi + d))))),
                   kind="post-normal")
        ctx.oblige("ensures.removed_value=the-last-element-dropped", z3.Implies(d > 0, z3.And(
            self.st(ctx, "evicted_") == self.view0("V", d - 1), self.st(ctx, "evicted_time_") == self.t)), kind="post-normal")

    def post_exc(self, I, exc):
        I.ctx.oblige("raises.only-for-a-rejected-source", z3.BoolVal(exc.origin in ("validate_source",)), kind="post-exceptional")


KERNELS += [SizeWindowPush, TimeWindowPush]


class SizeAllValid(Kernel):
    tu = TU
    name = "ts_data_window_ops.cpp:SizeTSWContext::size_all_valid"
    fn_name = "size_all_valid"
    filter = "SizeTSWContext::size_all_valid"
    property_ids = ("C05",)
    scope = {"lo": 0, "hi": 4}
    title = "size_all_valid: a tick-count window is valid exactly when it holds at least its minimum count"

    def setup(self, I):
        self.size, self.min_period = z3.Int("window_size"), z3.Int("min_period")
        I.ctx.assume(z3.And(self.size >= 0, self.min_period >= 0))
        return None, {"context": Ptr(Obj("context", "context")), "memory": Ptr(Obj("memory", "memory"))}

    def function_handler(self, name, node, callee_node):
        if name == "window_size":
            return lambda I, a, n: self.size
        if name == "layout_for":
            lay = Obj("SizeTSWDataLayout", "layout")

            def h(I, a, n):
                I.ctx.store[(lay.oid, "min_period")] = self.min_period
                return lay
            return h
        return Kernel.function_handler(self, name, node, callee_node)

    def post(self, I, ret):
        I.ctx.oblige("ensures.valid<=>size>=min_period[C05 a tick-count window is valid only once its minimum count is reached]",
                     ret == (self.size >= self.min_period), kind="post-normal")


KERNELS += [SizeAllValid]


# ---------------------------------------------------------------- eviction stash / cleared marker (C05_r6_3)
class StashKernel(Kernel):
    """TSWindowStorageCore keeps ONE pair (evicted_, evicted_time_) that doubles as the window's delta marker: a stash that holds an
    element says 'this element was evicted at evicted_time_', an empty stash says 'the window was cleared at evicted_time_'
    (cleared_time()).  A tick's delta must say exactly one of the two."""
    tu = TU
    filter = "TSWindowStorageCore"
    cls = "TSWindowStorageCore"
    property_ids = ("C05",)
    scope = {"lo": 0, "hi": 3}

    def setup(self, I):
        ctx = I.ctx
        core = Obj("TSWindowStorageCore", "this_window")
        self.core = core
        self.ev_has0, self.ev_id0, self.evt0 = z3.Bool("evicted_has0"), z3.Int("evicted_id0"), z3.Int("evicted_time0")
        self.size0, self.head0 = z3.Int("size0"), z3.Int("head0")
        ctx.store[(core.oid, "evicted_")] = Opt(self.ev_has0, self.ev_id0)
        ctx.store[(core.oid, "evicted_time_")] = self.evt0
        ctx.store[(core.oid, "size_")] = self.size0
        ctx.store[(core.oid, "head_")] = self.head0
        ctx.store[(core.oid, "element_binding_")] = Ptr(Obj("ValueTypeRef", "element_binding_"), z3.BoolVal(False))
        ctx.assume(z3.And(self.size0 >= 0, self.head0 >= 0, self.evt0 >= 0))
        self.t = z3.Int("modified_time")
        ctx.assume(z3.And(self.t > 0, self.t <= MAX_DT))
        return core, self.params(I)

    def method_handler(self, obj, name, node):
        if obj is self.core and name == "clear":
            def clear(I, o, a, n):
                I.ctx.write(self.core.loc("size_"), z3.IntVal(0))
                I.ctx.write(self.core.loc("head_"), z3.IntVal(0))
                return VOID
            return clear
        return Kernel.method_handler(self, obj, name, node)

    def ctor_handler(self, qt, node):
        if qt.endswith("ValueView"):
            def mkview(I, args, n):
                a = [I.ctx.rv(x) for x in args]
                if len(a) == 1 and getattr(a[0], "cls", None) == "ValueView":
                    return a[0]
                o = Obj("ValueView", "element_view")
                o.mem = a[1] if len(a) > 1 else None
                return o
            return mkview
        if qt.endswith("Value"):
            def mkval(I, args, n):
                a = [I.ctx.rv(x) for x in args]
                if len(a) == 1 and isinstance(a[0], Opt):
                    return a[0]
                if len(a) == 1 and getattr(a[0], "cls", None) == "ValueView":
                    m = a[0].mem
                    return Opt(z3.BoolVal(True), m if isinstance(m, z3.ExprRef) else self.elem_id)
                raise Gap("Value constructed from %r" % (a,))
            return mkval
        return Kernel.ctor_handler(self, qt, node)

    def now(self, ctx):
        ev = ctx.store[(self.core.oid, "evicted_")]
        return ev, ctx.store[(self.core.oid, "evicted_time_")]

    @staticmethod
    def cleared_time_spec(ev, evt):
        return z3.If(ev.has, z3.IntVal(0), evt)


class ClearValues(StashKernel):
    name = "ts_data_window_ops.cpp:TSWindowStorageCore::clear_values"
    fn_name = "clear_values"
    title = "window clear_values: empty window, and the tick's delta says 'cleared at t' - not a stale eviction"

    def params(self, I):
        return {"modified_time": self.t}

    def post(self, I, ret):
        ctx = I.ctx
        ev, evt = self.now(ctx)
        ctx.oblige("ensures.window-empty", z3.And(ctx.store[(self.core.oid, "size_")] == 0, ctx.store[(self.core.oid, "head_")] == 0),
                   kind="post-normal")
        ctx.oblige("ensures.cleared-at-t,no-evicted-element[C05 the value at a tick equals the previous value with that tick's delta "
                   "applied: a cleared window reports the clear, not an element that left it earlier]",
                   z3.And(self.cleared_time_spec(ev, evt) == self.t, z3.Not(ev.has)), kind="post-normal")


class ClearedTime(StashKernel):
    name = "ts_data_window_ops.cpp:TSWindowStorageCore::cleared_time"
    fn_name = "cleared_time"
    title = "window cleared_time: the stash time when the stash is empty, never while it holds an evicted element"

    def params(self, I):
        return {}

    def post(self, I, ret):
        I.ctx.oblige("ensures.cleared_time=stash-empty?stash-time:never[C05]", ret == self.cleared_time_spec(
            Opt(self.ev_has0, self.ev_id0), self.evt0), kind="post-normal")


class RecordEvicted(StashKernel):
    name = "ts_data_window_ops.cpp:TSWindowStorageCore::record_evicted"
    fn_name = "record_evicted"
    title = "window record_evicted: the dropped element is stashed with the tick time (so the tick is an eviction, not a clear)"

    def params(self, I):
        self.elem_id = z3.Int("evicted_element")
        return {"element_memory": self.elem_id, "modified_time": self.t}

    def post(self, I, ret):
        ctx = I.ctx
        ev, evt = self.now(ctx)
        ctx.oblige("ensures.stash-holds-the-element-with-time-t[C05 the evicted element is the tick's removed value]",
                   z3.And(ev.has, ev.value == self.elem_id, evt == self.t, self.cleared_time_spec(ev, evt) == 0), kind="post-normal")


KERNELS += [ClearValues, ClearedTime, RecordEvicted]
