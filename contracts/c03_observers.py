"""C03 / C04 -- the notification layer: TSDataObserverSet (ts_data/types.cpp).  An output's tracking record notifies the observers
subscribed to it (record_modified, C04 kernel); a node is evaluated on a tick of an input exactly when that input's link is
subscribed (activate_input_slots / make_passive, C03 kernels).  This module proves that the set does what those kernels assume.

Abstract view  obs = { x != null : x is registered }.  Representation: a discriminated pointer that is empty, one observer, or an
ObserverList {entries, notify_depth, compact_pending}; while a notification pass is running (notify_depth > 0) removal leaves a null
tombstone and compaction is deferred.
RInv:  single => not null;  many => entries pairwise distinct apart from tombstones, notify_depth >= 0, and outside a pass with nothing
       pending (depth = 0, not compact_pending) no tombstones and at least two entries.
Observers are integer ids (0 = nullptr); asserts are executed as in a release build (the defensive code behind them is verified).

Quantifier discipline: membership is NOT stated as "exists an index"; the entries vector is instrumented with a ghost position
function  pos[x] = the index x was last written to, and RInv says every non-null entry sits at its recorded position
(data[i] != 0 => pos[data[i]] = i).  Then  x in obs  <=>  x != 0 and 0 <= pos[x] < len and data[pos[x]] = x, and every obligation is
alternation-free (the first version with existentials proved in 9 s or 33 s depending on the solver's mood: unusable)."""
import z3

from cxxvc.kernel import Kernel, LoopSpec
from cxxvc.interp import Obj, Ptr, Loc, ArrLoc, Gap, VOID, type_of
from cxxvc import extract, models
from cxxvc.models import Vec, VecIter

TU = "src/hgraph/types/time_series/ts_data/types.cpp"
I_ = z3.IntSort()
B_ = z3.BoolSort()
qi, qj, qx = z3.Ints("qi qj qx")


class ListObj(Obj):
    cls = "ObserverList"


class PosVec(Vec):
    """std::vector<Notifiable*> with the ghost position function maintained on every element write"""

    def __init__(self, ctx, k, name):
        Vec.__init__(self, ctx, name=name)
        self.k = k

    def note(self, ctx, idx, v):
        pos = ctx.store[(self.k.g.oid, "pos")]
        ctx.write(Loc((self.k.g.oid, "pos")), z3.If(v != 0, z3.Store(pos, v, idx), pos))

    def m_push_back(self, I, args, n):
        ctx = I.ctx
        v = ctx.rv(args[0])
        if isinstance(v, Ptr) and v.target is None:
            v = z3.IntVal(0)
        self.note(ctx, self.length(ctx), v)
        return Vec.m_push_back(self, I, [v], n)

    m_emplace_back = m_push_back

    def elem_loc(self, idx):
        return PosLoc(self, idx)


class PosLoc(ArrLoc):
    """element location whose writes also update the ghost position"""

    def __init__(self, vec, idx):
        ArrLoc.__init__(self, (vec.oid, "data"), idx)
        self.vec = vec

    def on_write(self, ctx, v):
        self.vec.note(ctx, self.index, v)


class DPtr(Obj):
    """discriminated_ptr<Notifiable, ObserverList>: tag 0 empty / 1 single / 2 many"""
    cls = "discriminated_ptr"

    def __init__(self, k):
        Obj.__init__(self, name="observers_")
        self.k = k

    def tag(self, ctx):
        return ctx.store[(self.oid, "tag")]

    def m_empty(self, I, args, n):
        return self.tag(I.ctx) == 0

    def truth(self, I=None):
        return self.tag(self.k.I.ctx) != 0

    def op(self, I, op, rest, n, a0):
        if op == "!" and not rest:
            return self.tag(I.ctx) == 0
        return NotImplemented

    def m_clear(self, I, args, n):
        I.ctx.write(self.loc("tag"), z3.IntVal(0))
        return VOID

    def m_get(self, I, args, n):
        ctx = I.ctx
        qt = type_of(n)
        if "ObserverList" in qt:
            return Ptr(self.k.lst, self.tag(ctx) != 2)
        return z3.If(self.tag(ctx) == 1, ctx.store[(self.oid, "single")], z3.IntVal(0))

    def m_set(self, I, args, n):
        ctx = I.ctx
        v = ctx.rv(args[0])
        if isinstance(v, Ptr):
            if v.target is not self.k.lst:
                raise Gap("observers_.set(%r)" % (v,))
            ctx.oblige("set_many: the list is not null", z3.Not(v.null), kind="callee-pre")
            ctx.write(self.loc("tag"), z3.IntVal(2))
            return VOID
        ctx.write(self.loc("tag"), z3.If(v == 0, z3.IntVal(0), z3.IntVal(1)))
        ctx.write(self.loc("single"), v)
        return VOID


class ObsKernel(Kernel):
    tu = TU
    filter = "TSDataObserverSet"
    cls = None
    property_ids = ("C03", "C04")
    scope = {"lo": 0, "hi": 3}
    int_pointers = True
    inline = ("single", "many", "set_single", "set_many")
    model_methods_first = True
    compact_contract = True

    def setup(self, I):
        ctx = I.ctx
        self.I = I
        th = Obj("TSDataObserverSet", "this_set")
        self.th = th
        self.dp = DPtr(self)
        self.lst = ListObj(name="entries_list")
        self.tag0, self.single0 = z3.Int("tag0"), z3.Int("single0")
        ctx.store[(self.dp.oid, "tag")] = self.tag0
        ctx.store[(self.dp.oid, "single")] = self.single0
        ctx.store[(th.oid, "observers_")] = self.dp
        g = Obj("ghost", "og")
        self.g = g
        self.pos0 = z3.Array("position0", I_, I_)
        ctx.store[(g.oid, "pos")] = self.pos0
        self.vec = PosVec(ctx, self, "entries")
        self.len0, self.data0 = self.vec.length(ctx), self.vec.data(ctx)
        self.depth0, self.pending0 = z3.Int("notify_depth0"), z3.Bool("compact_pending0")
        ctx.store[(self.lst.oid, "entries")] = self.vec
        ctx.store[(self.lst.oid, "notify_depth")] = self.depth0
        ctx.store[(self.lst.oid, "compact_pending")] = self.pending0
        ctx.store[(g.oid, "deleted")] = z3.BoolVal(False)
        ctx.store[(g.oid, "allocated")] = z3.BoolVal(False)
        ctx.store[(g.oid, "notified")] = z3.K(I_, z3.IntVal(0))
        ctx.store[(g.oid, "unsubscribed")] = z3.K(I_, z3.BoolVal(False))     # observers tombstoned by a re-entrant call during the pass
        ctx.assume(z3.And(self.tag0 >= 0, self.tag0 <= 2))
        ctx.assume(self.r_inv(self.tag0, self.single0, self.len0, self.data0, self.depth0, self.pending0, self.pos0))
        return th, self.params(I)

    @staticmethod
    def inlist(ln, data, pos, x):
        return z3.And(x != 0, pos[x] >= 0, pos[x] < ln, data[pos[x]] == x)

    @staticmethod
    def link(ln, data, pos):
        return z3.ForAll([qi], z3.Implies(z3.And(qi >= 0, qi < ln, data[qi] != 0), pos[data[qi]] == qi))

    @classmethod
    def r_inv(cls, tag, single, ln, data, depth, pending, pos):
        return z3.And(
            z3.Implies(tag == 1, single != 0),
            z3.Implies(tag == 2, z3.And(
                ln >= 0, depth >= 0, cls.link(ln, data, pos),
                z3.Implies(z3.And(depth == 0, z3.Not(pending)), ln >= 2),
                z3.ForAll([qi], z3.Implies(z3.And(qi >= 0, qi < ln, data[qi] == 0), pending)))))

    @classmethod
    def member(cls, tag, single, ln, data, pos, x):
        return z3.And(x != 0, z3.Or(z3.And(tag == 1, single == x), z3.And(tag == 2, cls.inlist(ln, data, pos, x))))

    def now(self, ctx):
        return (ctx.store[(self.dp.oid, "tag")], ctx.store[(self.dp.oid, "single")], self.vec.length(ctx), self.vec.data(ctx),
                ctx.store[(self.lst.oid, "notify_depth")], ctx.store[(self.lst.oid, "compact_pending")], ctx.store[(self.g.oid, "pos")])

    def member0(self, x):
        return self.member(self.tag0, self.single0, self.len0, self.data0, self.pos0, x)

    def member1(self, ctx, x):
        t, s, ln, d, _, _, pos = self.now(ctx)
        return self.member(t, s, ln, d, pos, x)

    # std::find over the entries: first position holding the value, end() when none
    def f_find(self, I, args, n):
        ctx = I.ctx
        b, e, x = ctx.rv(args[0]), ctx.rv(args[1]), ctx.rv(args[2])
        if not isinstance(b, VecIter) or not isinstance(e, VecIter):
            raise Gap("std::find over %r" % (b,))
        if isinstance(x, Ptr) and x.target is None:
            x = z3.IntVal(0)
        ln, d = self.vec.length(ctx), self.vec.data(ctx)
        pos = ctx.store[(self.g.oid, "pos")]
        if z3.is_int_value(x) and x.as_long() == 0:
            raise Gap("std::find of nullptr")
        # under RInv's link every non-null entry sits at its recorded position, so the first match is pos[x]
        r = z3.If(self.inlist(ln, d, pos, x), pos[x], ln)
        return VecIter(self.vec, r)

    def function_handler(self, name, node, callee_node):
        if name == "find":
            return self.f_find
        if name == "__assert_fail":
            return lambda I, a, n: VOID          # release build: the assertion is compiled out, execution continues
        return Kernel.function_handler(self, name, node, callee_node)

    def new_expr(self, I, n):
        """new ObserverList{}: the (single) list object of this kernel, fresh: no entries, depth 0, nothing pending"""
        ctx = I.ctx
        ctx.oblige("new-ObserverList-only-when-no-list-is-owned", ctx.store[(self.dp.oid, "tag")] != 2, kind="callee-pre")
        ctx.write(Loc((self.vec.oid, "len")), z3.IntVal(0))
        ctx.write(self.lst.loc("notify_depth"), z3.IntVal(0))
        ctx.write(self.lst.loc("compact_pending"), z3.BoolVal(False))
        ctx.write(Loc((self.g.oid, "allocated")), z3.BoolVal(True))
        return Ptr(self.lst, z3.BoolVal(False))

    def delete_expr(self, I, v, n):
        ctx = I.ctx
        ctx.write(Loc((self.g.oid, "deleted")), z3.BoolVal(True))
        return VOID

    def method_handler(self, obj, name, node):
        if name == "compact_many" and obj is self.th and self.compact_contract:
            return self.compact_contract_handler
        return Kernel.method_handler(self, obj, name, node)

    def compact_contract_handler(self, I, o, args, n):
        """contract proved by CompactMany: with depth > 0 only marks pending; otherwise removes the tombstones (the set of non-null
        entries is kept), clears pending, and collapses to empty / single when 0 / 1 entries remain"""
        ctx = I.ctx
        tag, single, ln, d, depth, pend, pos = self.now(ctx)
        if ctx.decide(depth > 0, "compact while notifying"):
            ctx.write(self.lst.loc("compact_pending"), z3.BoolVal(True))
            return VOID
        nl, nd = ctx.fresh("compacted_len"), ctx.fresh("compacted_data", d.sort())
        npos = ctx.fresh("compacted_pos", pos.sort())
        ctx.assume(z3.And(nl >= 0, nl <= ln,
                          z3.ForAll([qi], z3.Implies(z3.And(qi >= 0, qi < nl), z3.And(nd[qi] != 0, npos[nd[qi]] == qi))),
                          z3.ForAll([qx], self.inlist(nl, nd, npos, qx) == self.inlist(ln, d, pos, qx))))
        ctx.write(Loc((self.g.oid, "pos")), npos)
        ctx.write(Loc((self.vec.oid, "len")), nl)
        ctx.write(Loc((self.vec.oid, "data")), nd)
        ctx.write(self.lst.loc("compact_pending"), z3.BoolVal(False))
        k = ctx.choose(3, "entries left after compaction")
        if k == 0:
            ctx.assume(nl == 0)
            ctx.write(self.dp.loc("tag"), z3.IntVal(0))
            ctx.write(Loc((self.g.oid, "deleted")), z3.BoolVal(True))
        elif k == 1:
            ctx.assume(nl == 1)
            ctx.write(self.dp.loc("tag"), z3.IntVal(1))
            ctx.write(self.dp.loc("single"), nd[0])
            ctx.write(Loc((self.g.oid, "deleted")), z3.BoolVal(True))
        else:
            ctx.assume(nl >= 2)
        return VOID

    def inv_post(self, I, kind="post-normal"):
        ctx = I.ctx
        ctx.oblige("ensures.RInv[C03/C04 representation of the observer set stays consistent]", self.r_inv(*self.now(ctx)), kind=kind)

    def post_exc(self, I, exc):
        I.ctx.oblige("no-exception", False, kind="post-exceptional")


class Subscribe(ObsKernel):
    name = "ts_data/types.cpp:TSDataObserverSet::subscribe"
    fn_name = "subscribe"
    title = "observer set subscribe: obs' = obs + {observer}; null and duplicates change nothing"

    def params(self, I):
        self.o = z3.Int("observer")
        I.ctx.assume(self.o >= 0)
        return {"observer": self.o}

    def post(self, I, ret):
        ctx = I.ctx
        self.inv_post(I)
        ctx.oblige("ensures.obs'=obs+{observer}[C03 an activated input is notified of its output's ticks; C04 every consumer bound to an "
                   "output sees its ticks]",
                   z3.ForAll([qx], self.member1(ctx, qx) == z3.Or(self.member0(qx), z3.And(qx == self.o, self.o != 0))), kind="post-normal")

    def post_exc(self, I, exc):
        ctx = I.ctx
        ctx.oblige("raises.logic_error-only-for-a-corrupt-set", z3.BoolVal(False), kind="post-exceptional")


class Unsubscribe(ObsKernel):
    name = "ts_data/types.cpp:TSDataObserverSet::unsubscribe"
    fn_name = "unsubscribe"
    title = "observer set unsubscribe: obs' = obs - {observer}, also in the middle of a notification pass (tombstone)"

    def params(self, I):
        self.o = z3.Int("observer")
        I.ctx.assume(self.o >= 0)
        return {"observer": self.o}

    def post(self, I, ret):
        ctx = I.ctx
        self.inv_post(I)
        ctx.oblige("ensures.obs'=obs-{observer}[C03 ticks on passive inputs alone never run the node: a de-activated link is no longer "
                   "notified]",
                   z3.ForAll([qx], self.member1(ctx, qx) == z3.And(self.member0(qx), qx != self.o)), kind="post-normal")
        tag, single, ln, d, depth, pend, pos = self.now(ctx)
        ctx.oblige("ensures.during-a-pass-positions-are-kept[C03 the running pass still visits every other observer exactly once]",
                   z3.Implies(z3.And(self.tag0 == 2, self.depth0 > 0), z3.And(
                       tag == 2, ln == self.len0, depth == self.depth0,
                       z3.ForAll([qi], z3.Implies(z3.And(qi >= 0, qi < ln), d[qi] == z3.If(self.data0[qi] == self.o, 0, self.data0[qi]))))),
                   kind="post-normal")


class CompactMany(ObsKernel):
    name = "ts_data/types.cpp:TSDataObserverSet::compact_many"
    fn_name = "compact_many"
    compact_contract = False
    title = "observer set compact_many: tombstones removed, the registered observers kept; collapses to empty / single"

    def setup(self, I):
        th, params = ObsKernel.setup(self, I)
        I.ctx.assume(self.tag0 == 2)
        return th, params

    def params(self, I):
        return {"observers": self.lst}

    def _inv(self, I, ctx):
        idx = self.local(I, "index")
        tag, single, ln, d, depth, pend, pos = self.now(ctx)
        yield "index-range", z3.And(idx >= 0, idx <= ln, ln <= self.len0)
        yield "prefix-has-no-tombstones", z3.ForAll([qi], z3.Implies(z3.And(qi >= 0, qi < idx), d[qi] != 0))
        yield "every-entry-at-its-recorded-position", self.link(ln, d, pos)
        yield "registered-observers-kept", z3.ForAll([qx], self.inlist(ln, d, pos, qx) == self.inlist(self.len0, self.data0, self.pos0, qx))
        yield "still-many,depth-zero", z3.And(tag == 2, depth == 0, self.depth0 == 0)

    def _frame(self, I, ctx):
        return [Loc((self.vec.oid, "len")), Loc((self.vec.oid, "data")), Loc((self.g.oid, "pos"))]

    @property
    def loops(self):
        return {0: LoopSpec(inv=self._inv, frame=self._frame)}

    def post(self, I, ret):
        ctx = I.ctx
        tag, single, ln, d, depth, pend, pos = self.now(ctx)
        self.inv_post(I)
        ctx.oblige("ensures.deferred-while-notifying", z3.Implies(self.depth0 > 0, z3.And(
            pend, ln == self.len0, d == self.data0, tag == 2)), kind="post-normal")
        ctx.oblige("ensures.registered-observers-kept[C03/C04 compaction never drops or duplicates an observer]",
                   z3.ForAll([qx], self.member1(ctx, qx) == self.member0(qx)), kind="post-normal")
        ctx.oblige("ensures.not-notifying=>no-tombstones-left,nothing-pending", z3.Implies(self.depth0 == 0, z3.And(
            z3.Implies(tag == 2, z3.And(z3.Not(pend), ln >= 2, z3.ForAll([qi], z3.Implies(z3.And(qi >= 0, qi < ln), d[qi] != 0)))))),
            kind="post-normal")


class NotifyMany(ObsKernel):
    name = "ts_data/types.cpp:TSDataObserverSet::notify_many"
    fn_name = "notify_many"
    title = ("observer set notify_many: every observer registered at the start of the pass and not unsubscribed before its turn is "
             "notified exactly once with the tick time; observers subscribed during the pass are not notified by it")
    max_paths = 3000

    def params(self, I):
        self.t = z3.Int("modified_time")
        return {"modified_time": self.t}

    def deref_int(self, I, base, n):
        k = self

        class Target(Obj):
            def m_notify(self2, I2, args, n2):
                """Notifiable::notify(t): opaque and re-entrant -- it may unsubscribe any observer of this set (tombstone, pending)
                and subscribe new ones (appended); it cannot move or compact entries while the pass runs (depth > 0)"""
                ctx = I2.ctx
                t = ctx.rv(args[0])
                ctx.oblige("callee-pre.notified-with-the-tick-time", t == k.t, kind="callee-pre")
                ctx.oblige("callee-pre.never-a-tombstone", base != 0, kind="callee-pre")
                g = k.g
                cnt = ctx.store[(g.oid, "notified")]
                ctx.write(Loc((g.oid, "notified")), z3.Store(cnt, base, cnt[base] + 1))
                tag, single, ln, d, depth, pend, pos = k.now(ctx)
                nl, nd = ctx.fresh("len_after_notify"), ctx.fresh("data_after_notify", d.sort())
                np_ = ctx.fresh("pending_after_notify", "bool")
                npos = ctx.fresh("pos_after_notify", pos.sort())
                ctx.assume(z3.And(nl >= ln, z3.ForAll([qi], z3.Implies(z3.And(qi >= 0, qi < ln), z3.Or(nd[qi] == d[qi], nd[qi] == 0))),
                                  z3.ForAll([qi], z3.Implies(z3.And(qi >= 0, qi < ln, nd[qi] != d[qi]), np_)), z3.Implies(pend, np_),
                                  k.link(nl, nd, npos),
                                  z3.ForAll([qi], z3.Implies(z3.And(qi >= 0, qi < nl, nd[qi] == 0), np_))))
                ctx.write(Loc((g.oid, "pos")), npos)
                un = ctx.store[(g.oid, "unsubscribed")]
                un1 = ctx.fresh("unsubscribed_after_notify", un.sort())
                ctx.assume(z3.ForAll([qx], z3.Implies(un[qx], un1[qx])))
                ctx.assume(z3.ForAll([qi], z3.Implies(z3.And(qi >= 0, qi < ln, nd[qi] != d[qi]), un1[d[qi]])))
                ctx.write(Loc((g.oid, "unsubscribed")), un1)
                ctx.write(Loc((k.vec.oid, "len")), nl)
                ctx.write(Loc((k.vec.oid, "data")), nd)
                ctx.write(k.lst.loc("compact_pending"), np_)
                return VOID
        return Target(name="observer")

    def _inv(self, I, ctx):
        idx = self.local(I, "index")
        limit = self.local(I, "limit")
        tag, single, ln, d, depth, pend, pos = self.now(ctx)
        cnt = ctx.store[(self.g.oid, "notified")]
        yield "index-range", z3.And(idx >= 0, idx <= limit, limit == self.len0, ln >= self.len0)
        yield "pass-in-progress", z3.And(tag == 2, depth == self.depth0 + 1)
        yield "entries-only-tombstoned", z3.ForAll([qi], z3.Implies(z3.And(qi >= 0, qi < self.len0), z3.Or(d[qi] == self.data0[qi], d[qi] == 0)))
        yield "every-entry-at-its-recorded-position,tombstones-pending", z3.And(
            self.link(ln, d, pos), z3.ForAll([qi], z3.Implies(z3.And(qi >= 0, qi < ln, d[qi] == 0), pend)))
        yield "notified-at-most-once,only-original-entries-behind-the-index", z3.ForAll([qx], z3.And(
            cnt[qx] >= 0, cnt[qx] <= 1,
            z3.Implies(cnt[qx] == 1, z3.And(self.inlist(self.len0, self.data0, self.pos0, qx), self.pos0[qx] < idx))))
        yield "every-surviving-entry-behind-the-index-was-notified", z3.ForAll([qi], z3.Implies(
            z3.And(qi >= 0, qi < idx, d[qi] != 0), cnt[d[qi]] == 1))
        un = ctx.store[(self.g.oid, "unsubscribed")]
        yield "tombstoned-entries-are-recorded-as-unsubscribed", z3.ForAll([qi], z3.Implies(
            z3.And(qi >= 0, qi < self.len0, d[qi] != self.data0[qi]), un[self.data0[qi]]))
        yield "pending-only-grows", z3.Implies(self.pending0, pend)

    def _frame(self, I, ctx):
        return [Loc((self.vec.oid, "len")), Loc((self.vec.oid, "data")), self.lst.loc("compact_pending"), Loc((self.g.oid, "notified")),
                Loc((self.g.oid, "unsubscribed")), Loc((self.g.oid, "pos"))]

    @property
    def loops(self):
        return {0: LoopSpec(inv=self._inv, frame=self._frame)}

    def post(self, I, ret):
        ctx = I.ctx
        tag, single, ln, d, depth, pend, pos = self.now(ctx)
        cnt = ctx.store[(self.g.oid, "notified")]
        many = self.tag0 == 2
        ctx.oblige("ensures.not-many=>nothing-notified", z3.Implies(z3.Not(many), z3.ForAll([qx], cnt[qx] == 0)), kind="post-normal")
        ctx.oblige("ensures.each-observer-at-most-once,only-observers-registered-at-the-start[C04 notifies observers once; C03 only "
                   "subscribed (active) inputs are woken]",
                   z3.ForAll([qx], z3.And(cnt[qx] >= 0, cnt[qx] <= 1, z3.Implies(cnt[qx] == 1, self.member0(qx)))), kind="post-normal")
        un = ctx.store[(self.g.oid, "unsubscribed")]
        ctx.oblige("ensures.every-observer-registered-at-the-start-and-not-unsubscribed-during-the-pass-was-notified[C03 a node is "
                   "evaluated whenever an active input ticked]",
                   z3.Implies(many, z3.ForAll([qx], z3.Implies(z3.And(self.member0(qx), z3.Not(un[qx])), cnt[qx] == 1))),
                   kind="post-normal")
        ctx.oblige("ensures.depth-restored", z3.Implies(z3.And(many, tag == 2), depth == self.depth0), kind="post-normal")
        ctx.oblige("ensures.outermost-pass-leaves-the-representation-consistent", z3.Implies(z3.And(many, self.depth0 == 0),
                                                                                            self.r_inv(*self.now(ctx))), kind="post-normal")


for _k in (Subscribe, Unsubscribe, CompactMany, NotifyMany):
    models.install_guards(_k)

KERNELS = [Subscribe, Unsubscribe, CompactMany, NotifyMany]
