"""C10 / C14 / C15 fragments of map_node.cpp: the child evaluation loop of map_evaluate_impl (a stopped or missing child
never evaluates; a captured failure is written under that child's key; future child deadlines enter the schedule heap
and the node re-arms at its minimum) and remove_all_entries (every started child gets its stop)."""
import z3

from cxxvc.kernel import Kernel, LoopSpec, Lemma
from cxxvc.interp import Obj, Ptr, Loc, ArrLoc, Opt, Gap, MAX_DT, ExcVal, VOID, ThrowEx
from cxxvc import extract, models
from cxxvc.native import NativeCheck
from cxxvc.models import Vec
from contracts.c03_node import GraphGhost

TU = "src/hgraph/runtime/map_node.cpp"
I_ = z3.IntSort()
B_ = z3.BoolSort()
qs, qk, qw = z3.Ints("qs qk qw")


class Wild(Obj):
    cls = "wild"

    def member(self, ctx, name, node):
        return Wild(name=name)

    def m_clear(self, I, args, n):
        return VOID

    def m_reserve(self, I, args, n):
        return VOID


class EntryObj(Obj):
    cls = "MapKeyEntry"

    def __init__(self, k, slot):
        Obj.__init__(self, name="entry")
        self.k, self.slot = k, slot

    def member(self, ctx, name, node):
        k, s = self.k, self.slot
        if name == "graph":
            return ChildGraphValue(k, s)
        if name == "key":
            return KeyOf(k, s)
        if name == "key_source":
            return KeySource(k, s)
        if name == "schedule_context":
            return SchedCtx(k, s)
        raise Gap("entry member %s" % name)


class KeyOf(Obj):
    cls = "Value(key)"

    def __init__(self, k, slot):
        Obj.__init__(self, name="key")
        self.k, self.slot = k, slot

    def m_view(self, I, args, n):
        return self


class KeySource(Obj):
    cls = "MappedKeySource"

    def __init__(self, k, slot):
        Obj.__init__(self, name="key_source")
        self.k, self.slot = k, slot

    def m_bound(self, I, args, n):
        return I.ctx.fresh("key_source_bound", "bool")

    def m_view(self, I, args, n):
        return Wild(name="key_source_view")


class SchedCtx(Obj):
    cls = "MapChildScheduleContext"

    def __init__(self, k, slot):
        Obj.__init__(self, name="schedule_context")
        self.k, self.slot = k, slot

    def member(self, ctx, name, node):
        if name == "pulled_when":
            return ArrLoc((self.k.g.oid, "pulled_when"), self.slot)
        if name == "slot":
            return self.slot
        raise Gap("schedule context member %s" % name)


class ChildGraphValue(Obj):
    cls = "GraphValue(child)"

    def __init__(self, k, slot):
        Obj.__init__(self, name="child_graph")
        self.k, self.slot = k, slot

    def m_has_value(self, I, args, n):
        return self.k.has_graph[self.slot]

    def m_view(self, I, args, n):
        return ChildView(self.k, self.slot)


class ChildView(Obj):
    cls = "GraphView(child)"

    def __init__(self, k, slot):
        Obj.__init__(self, name="child")
        self.k, self.slot = k, slot

    def g(self, ctx, nm):
        return ctx.store[(self.k.g.oid, nm)]

    def m_started(self, I, args, n):
        return self.g(I.ctx, "started")[self.slot]

    def m_next_scheduled_time(self, I, args, n):
        return self.g(I.ctx, "cnst")[self.slot]

    def m_failed_node(self, I, args, n):
        o = Obj("NodeView", "failed_node")
        o.of_slot = self.slot
        return o

    def m_evaluate(self, I, args, n):
        ctx = I.ctx
        k, s = self.k, self.slot
        t = ctx.rv(args[0])
        ctx.oblige("child.evaluate:only-a-constructed-started-child-at-the-cycle-time[C10 a removed key's stopped child "
                   "never evaluates; C14 no evaluation after stop]",
                   z3.And(k.has_graph[s], self.g(ctx, "started")[s], t == k.T), kind="callee-pre")
        ctx.write(Loc((k.g.oid, "evals")), z3.Store(self.g(ctx, "evals"), s, self.g(ctx, "evals")[s] + 1))
        nst = ctx.fresh("child_nst_after_eval")
        ctx.assume(z3.And(nst <= MAX_DT, z3.Or(nst == MAX_DT, nst > t)))   # evaluate_impl<Nested> ensures
        ctx.write(Loc((k.g.oid, "cnst")), z3.Store(self.g(ctx, "cnst"), s, nst))
        if ctx.choose(2, "child.evaluate outcome") == 1:
            e = ExcVal("unknown", origin="child.evaluate")
            ctx.write(Loc((k.g.oid, "threw_slot")), s)
            ctx.write(Loc((k.g.oid, "thrown_msg")), e.what_term(ctx))
            ctx.write(Loc((k.g.oid, "throws")), self.g(ctx, "throws") + 1)
            ctx.uncaught += 1
            raise ThrowEx(e)
        return ctx.fresh("child_completed", "bool")

    def m_stop(self, I, args, n):
        ctx = I.ctx
        k, s = self.k, self.slot
        ctx.oblige("child.stop:only-a-started-child", self.g(ctx, "started")[s], kind="callee-pre")
        ctx.write(Loc((k.g.oid, "started")), z3.Store(self.g(ctx, "started"), s, False))
        ctx.write(Loc((k.g.oid, "stops")), z3.Store(self.g(ctx, "stops"), s, self.g(ctx, "stops")[s] + 1))
        if k.child_stop_may_throw and ctx.choose(2, "child.stop outcome") == 1:
            ctx.write(Loc((k.g.oid, "stop_throws")), self.g(ctx, "stop_throws") + 1)
            I.throw_from_callee("child.stop")
        return VOID


class HeapQ(Obj):
    """std::vector<MapChildSchedule> used as a min-heap: abstractly a finite bag of (when, slot) entries;
    present[id], when[id], slot[id], pulled[id] over entry ids"""
    cls = "child_schedule_queue"

    def __init__(self, k):
        Obj.__init__(self, name="child_schedule_queue")
        self.k = k
        self.popped = None

    def g(self, ctx, nm):
        return ctx.store[(self.k.g.oid, nm)]

    def nonempty_min(self, ctx):
        pres, when = self.g(ctx, "h_present"), self.g(ctx, "h_when")
        e = ctx.fresh("heap_empty", "bool")
        w, m = ctx.fresh("heap_wit"), ctx.fresh("heap_min")
        ctx.assume(z3.Implies(e, z3.ForAll([qk], z3.Not(pres[qk]))))
        ctx.assume(z3.Implies(z3.Not(e), z3.And(pres[m], z3.ForAll([qk], z3.Implies(pres[qk], when[m] <= when[qk])))))
        return e, m

    def m_empty(self, I, args, n):
        e, m = self.nonempty_min(I.ctx)
        return e

    def m_front(self, I, args, n):
        e, m = self.nonempty_min(I.ctx)
        I.ctx.oblige("heap.front-nonempty", z3.Not(e), kind="bounds")
        return HeapEntry(self, m)

    def m_begin(self, I, args, n):
        return ("heap_begin", self)

    def m_end(self, I, args, n):
        return ("heap_end", self)

    def m_back(self, I, args, n):
        if self.popped is None:
            raise Gap("heap back() without a preceding pop_heap")
        return HeapEntry(self, self.popped)

    def m_pop_back(self, I, args, n):
        ctx = I.ctx
        if self.popped is None:
            raise Gap("heap pop_back() without a preceding pop_heap")
        ctx.write(Loc((self.k.g.oid, "h_present")), z3.Store(self.g(ctx, "h_present"), self.popped, False))
        self.popped = None
        return VOID

    def m_clear(self, I, args, n):
        I.ctx.write(Loc((self.k.g.oid, "h_present")), z3.K(I_, z3.BoolVal(False)))
        return VOID


class HeapEntry(Obj):
    cls = "MapChildSchedule"

    def __init__(self, h, eid):
        Obj.__init__(self, name="schedule")
        self.h, self.eid = h, eid

    def member(self, ctx, name, node):
        return {"when": self.h.g(ctx, "h_when")[self.eid], "slot": self.h.g(ctx, "h_slot")[self.eid],
                "pulled": self.h.g(ctx, "h_pulled")[self.eid]}[name]


class MapKernel(Kernel):
    tu = TU
    scope = {"lo": 0, "hi": 3}
    child_stop_may_throw = True

    def base(self, I):
        ctx = I.ctx
        self.T = z3.Int("evaluation_time")
        ctx.assume(z3.And(self.T >= 1, self.T < MAX_DT))
        self.view = Obj("NodeView", "view")
        st = Obj("MapNodeStorage", "storage")
        self.st = st
        g = Obj("ghost", "mg")
        self.g = g
        self.has_graph = z3.Array("entry_has_graph", I_, B_)
        self.entry_null = z3.Array("entry_is_null", I_, B_)
        self.started0 = z3.Array("child_started0", I_, B_)
        self.cnst0 = z3.Array("child_nst0", I_, I_)
        ctx.store[(g.oid, "started")] = self.started0
        ctx.store[(g.oid, "cnst")] = self.cnst0
        for nm in ("evals", "stops"):
            ctx.store[(g.oid, nm)] = z3.K(I_, z3.IntVal(0))
        for nm in ("throws", "stop_throws", "err_writes", "pushes"):
            ctx.store[(g.oid, nm)] = z3.IntVal(0)
        ctx.store[(g.oid, "threw_slot")] = z3.IntVal(-1)
        ctx.store[(g.oid, "thrown_msg")] = z3.Int("thrown_msg0")
        ctx.store[(g.oid, "err_slot")] = z3.IntVal(-1)
        ctx.store[(g.oid, "err_msg")] = z3.Int("err_msg0")
        ctx.store[(g.oid, "err_t")] = z3.IntVal(-1)
        ctx.store[(g.oid, "pulled_when")] = z3.Array("pulled_when0", I_, I_)
        for nm, srt in (("h_present", B_), ("h_pulled", B_)):
            ctx.store[(g.oid, nm)] = z3.Array(nm + "0", I_, srt)
        for nm in ("h_when", "h_slot"):
            ctx.store[(g.oid, nm)] = z3.Array(nm + "0", I_, I_)
        ctx.store[(g.oid, "h_next_id")] = z3.Int("h_next_id0")
        ctx.assume(z3.ForAll([qk], z3.Implies(qk >= ctx.store[(g.oid, "h_next_id")], z3.Not(ctx.store[(g.oid, "h_present")][qk]))))
        ctx.assume(z3.ForAll([qs], z3.And(self.cnst0[qs] >= 0, self.cnst0[qs] <= MAX_DT)))
        # a started child is a constructed child
        ctx.assume(z3.ForAll([qs], z3.Implies(self.started0[qs], z3.And(self.has_graph[qs], z3.Not(self.entry_null[qs])))))
        self.heap = HeapQ(self)
        self.G = GraphGhost(ctx)
        self.node_index = z3.Int("node_index")
        ctx.assume(z3.And(self.node_index >= 0, self.node_index < self.G.get(ctx, "n"), self.G.get(ctx, "T") == self.T))

    def gg(self, ctx, nm):
        return ctx.store[(self.g.oid, nm)]

    def function_handler(self, name, node, callee_node):
        h = getattr(self, "f_" + name, None)
        if h is not None:
            return h
        return Kernel.function_handler(self, name, node, callee_node)

    def entry_ptr(self, slot):
        return Ptr(EntryObj(self, slot), self.entry_null[slot])


models.install_guards(MapKernel)


# ------------------------------------------------------------------ remove_all_entries (C14 children)


class EntriesStore(Obj):
    cls = "InPlaceGraphSlotStore"

    def __init__(self, k):
        Obj.__init__(self, name="entries")
        self.k = k

    def m_slot_capacity(self, I, args, n):
        return self.k.cap

    def m_entry_at(self, I, args, n):
        return self.k.entry_ptr(I.ctx.rv(args[0]))


class RemoveAllEntries(MapKernel):
    name = "map_node.cpp:remove_all_entries"
    fn_name = "remove_all_entries"
    filter = "remove_all_entries"
    property_ids = ("C14", "C10")
    title = "remove_all_entries (map_ node stop): every started child graph is given stop exactly once"
    inline = ("remove_entry_at_slot",)
    extra_dumps = ((TU, "remove_entry_at_slot"),)
    bounded_fallback = 3

    def bound_sizes(self, I, n):
        I.ctx.assume(self.cap <= n)

    def locate(self, dumps):
        fn = Kernel.locate(self, dumps)
        self.index(dumps[(TU, "remove_entry_at_slot")])
        return fn

    def setup(self, I):
        ctx = I.ctx
        self.base(I)
        self.cap = z3.Int("slot_capacity")
        ctx.assume(self.cap >= 0)
        ctx.store[(self.st.oid, "entries")] = EntriesStore(self)
        cx = Obj("MapNodeContext", "context")
        return None, {"view": self.view, "context": cx, "storage": self.st, "output_mutation": Ptr(None),
                      "error_mutation": Ptr(None), "evaluation_time": self.T}

    def f_clear_entry_output_binding(self, I, args, n):
        return VOID

    def inv(self, I, ctx):
        s = self.local(I, "slot")
        started, stops = self.gg(ctx, "started"), self.gg(ctx, "stops")
        yield "slot-range", z3.And(s >= 0, s <= self.cap)
        yield "children-below-the-cursor-stopped-once[C14]", z3.ForAll([qs], z3.And(
            z3.Implies(z3.And(qs >= 0, qs < s), z3.And(z3.Not(started[qs]), stops[qs] == z3.If(self.started0[qs], 1, 0))),
            z3.Implies(z3.Or(qs < 0, qs >= s), z3.And(started[qs] == self.started0[qs], stops[qs] == 0))))
        rec = self.recorder(I)
        if rec is not None:
            yield "a-failure-is-recorded-exactly-when-a-child-stop-threw", rec.has(ctx) == (self.gg(ctx, "stop_throws") >= 1)
        else:
            yield "no-child-stop-threw-so-far", self.gg(ctx, "stop_throws") == 0
        yield "stop-throws-count", self.gg(ctx, "stop_throws") >= 0

    def recorder(self, I):
        try:
            return self.local_obj(I, "removal_failures")
        except Exception:
            return None

    def frame(self, I, ctx):
        fr = [Loc((self.g.oid, nm)) for nm in ("started", "stops", "pulled_when", "stop_throws")]
        rec = self.recorder(I)
        if rec is not None:
            fr += [rec.loc("has"), rec.loc("first_ann")]
        return fr

    @property
    def loops(self):
        return {0: LoopSpec(self.inv, self.frame)}

    def all_stopped(self, ctx):
        started, stops = self.gg(ctx, "started"), self.gg(ctx, "stops")
        return z3.ForAll([qs], z3.Implies(z3.And(qs >= 0, qs < self.cap), z3.And(
            z3.Not(started[qs]), stops[qs] == z3.If(self.started0[qs], 1, 0))))

    def post(self, I, ret):
        I.ctx.oblige("ensures.every-started-child-stopped-exactly-once[C14 dynamically created children; C10 children stopped]",
                     self.all_stopped(I.ctx), kind="post-normal")
        I.ctx.oblige("ensures.a-child-stop-failure-is-not-swallowed[C14 the original error reaches the caller]",
                     self.gg(I.ctx, "stop_throws") == 0, kind="post-normal")

    def post_exc(self, I, exc):
        ctx = I.ctx
        ctx.oblige("raises.only-a-child-stop-failure", z3.BoolVal(exc.origin in ("child.stop", "FirstExceptionRecorder")),
                   kind="post-exceptional")
        ctx.oblige("raises.a-failing-child-stop-does-not-keep-the-other-children-from-stopping[C14 a failing stop does not "
                   "prevent the remaining nodes from stopping]", self.all_stopped(ctx), kind="post-exceptional")


KERNELS = [RemoveAllEntries]


# ------------------------------------------------------------------ reduce_node_stop (C14 combiner children)

RTU = "src/hgraph/runtime/reduce_node.cpp"


class CombinerGraph(ChildGraphValue):
    pass


class CombinerEntryObj(Obj):
    cls = "CombinerEntry"

    def __init__(self, k, slot):
        Obj.__init__(self, name="combiner")
        self.k, self.slot = k, slot

    def member(self, ctx, name, node):
        if name == "graph":
            return CombinerGraph(self.k, self.slot)
        raise Gap("combiner entry member %s" % name)


class CombinerStopView(ChildView):
    """GraphView::stop of a combiner child: stop_impl<Nested> is a no-op on a graph that is not started"""

    def m_stop(self, I, args, n):
        ctx = I.ctx
        if not ctx.decide(self.g(ctx, "started")[self.slot], "combiner started"):
            return VOID
        return ChildView.m_stop(self, I, args, n)


CombinerGraph.m_view = lambda self, I, args, n: CombinerStopView(self.k, self.slot)


class ReduceNodeStop(MapKernel):
    tu = RTU
    name = "reduce_node.cpp:reduce_node_stop"
    fn_name = "reduce_node_stop"
    filter = "reduce_node_stop"
    property_ids = ("C14",)
    title = "reduce_node_stop: every started combiner child graph is given stop exactly once"
    bounded_fallback = 3

    def bound_sizes(self, I, n):
        I.ctx.assume(self.cap <= n)

    def setup(self, I):
        ctx = I.ctx
        self.base(I)
        self.cap = z3.Int("n_combiners")
        ctx.assume(self.cap >= 0)
        st = self.st
        k = self
        ctx.store[(st.oid, "combiners")] = Vec(ctx, "combiners", length=self.cap,
                                               elem=lambda idx: Ptr(CombinerEntryObj(k, idx), k.entry_null[idx]))
        for nm in ("evaluation_positions", "modified_leaves", "structural_leaves", "structural_positions"):
            ctx.store[(st.oid, nm)] = Wild(name=nm)
        ctx.store[(st.oid, "resume_candidate_plus_one")] = z3.Int("resume_candidate0")
        ctx.store[(st.oid, "has_future_combiner_schedule")] = z3.Bool("has_future0")
        view = self.view
        view.m_as = lambda I_, a, n_: self.rv_obj
        self.rv_obj = Obj("ReduceNodeView", "reduce_view")
        self.rv_obj.m_internal_storage = lambda I_, a, n_: Ptr(st)
        return None, {"view": view, "": z3.Int("unused_time")}

    def f_cast(self, I, args, n):
        return I.ctx.rv(args[0])

    def pos(self, I):
        return self.range_pos(I)

    def inv(self, I, ctx):
        s = self.pos(I)
        started, stops = self.gg(ctx, "started"), self.gg(ctx, "stops")
        yield "position-range", z3.And(s >= 0, s <= self.cap)
        yield "combiners-below-the-cursor-stopped-once[C14]", z3.ForAll([qs], z3.And(
            z3.Implies(z3.And(qs >= 0, qs < s), z3.And(z3.Not(started[qs]), stops[qs] == z3.If(self.started0[qs], 1, 0))),
            z3.Implies(z3.Or(qs < 0, qs >= s), z3.And(started[qs] == self.started0[qs], stops[qs] == 0))))
        rec = self.recorder(I)
        if rec is not None:
            yield "a-failure-is-recorded-exactly-when-a-combiner-stop-threw", rec.has(ctx) == (self.gg(ctx, "stop_throws") >= 1)
        else:
            yield "no-combiner-stop-threw-so-far", self.gg(ctx, "stop_throws") == 0
        yield "stop-throws-count", self.gg(ctx, "stop_throws") >= 0

    def recorder(self, I):
        try:
            return self.local_obj(I, "stop_failures")
        except Exception:
            return None

    def frame(self, I, ctx):
        fr = [Loc((self.g.oid, nm)) for nm in ("started", "stops", "stop_throws")]
        rec = self.recorder(I)
        if rec is not None:
            fr += [rec.loc("has"), rec.loc("first_ann")]
        return fr

    @property
    def loops(self):
        return {0: LoopSpec(self.inv, self.frame)}

    all_stopped = RemoveAllEntries.all_stopped

    def post(self, I, ret):
        I.ctx.oblige("ensures.every-started-combiner-stopped-exactly-once[C14 dynamically created children]",
                     self.all_stopped(I.ctx), kind="post-normal")
        I.ctx.oblige("ensures.a-combiner-stop-failure-is-not-swallowed[C14 the original error reaches the caller]",
                     self.gg(I.ctx, "stop_throws") == 0, kind="post-normal")

    def post_exc(self, I, exc):
        ctx = I.ctx
        ctx.oblige("raises.only-a-combiner-stop-failure", z3.BoolVal(exc.origin in ("child.stop", "FirstExceptionRecorder")),
                   kind="post-exceptional")
        ctx.oblige("raises.a-failing-combiner-stop-does-not-keep-the-other-combiners-from-stopping[C14 a failing stop does "
                   "not prevent the remaining nodes from stopping]", self.all_stopped(ctx), kind="post-exceptional")


KERNELS.append(ReduceNodeStop)


# ------------------------------------------------------------------ write_map_error (C15 keyed attribution)


class ErrFields(Obj):
    cls = "NodeErrorFields"


class ErrValue(Obj):
    cls = "Value(NodeError)"

    def m_view(self, I, args, n):
        return self

    def m_equals(self, I, args, n):
        return I.ctx.fresh("same_error_value", "bool")


class ErrOutput(Obj):
    cls = "TSOutputView(error)"

    def __init__(self, k):
        Obj.__init__(self, name="error_output")
        self.k = k

    def m_as_dict(self, I, args, n):
        return self

    def m_begin_mutation(self, I, args, n):
        I.ctx.write(Loc((self.k.g.oid, "dict_mut_t")), I.ctx.rv(args[0]))
        return ErrDictMutation(self.k)


class ErrDictMutation(Obj):
    cls = "TSDMutation(errors)"

    def __init__(self, k):
        Obj.__init__(self, name="errors")
        self.k = k

    def op(self, I, op, rest, n, a0):
        if op == "[]":
            key = I.ctx.rv(rest[0])
            kid = getattr(key, "kid", None)
            if kid is None:
                raise Gap("error dictionary indexed with an untracked key")
            return ErrChild(self.k, kid)
        return NotImplemented


class ErrChild(Obj):
    cls = "TSOutputView(errors[key])"

    def __init__(self, k, kid):
        Obj.__init__(self, name="error_element")
        self.k, self.kid = k, kid

    def m_begin_mutation(self, I, args, n):
        return ErrChildMutation(self.k, self.kid, I.ctx.rv(args[0]))

    # observers of the element's current state: arbitrary
    def m_has_current_value(self, I, args, n):
        return I.ctx.fresh("has_current_value", "bool")

    def m_valid(self, I, args, n):
        return I.ctx.fresh("element_valid", "bool")

    def m_value(self, I, args, n):
        return ErrCurrent()


class ErrCurrent(Obj):
    cls = "ValueView(current error)"

    def m_equals(self, I, args, n):
        return I.ctx.fresh("same_error_value", "bool")


class ErrChildMutation(Obj):
    cls = "TSMutation(errors[key])"

    def __init__(self, k, kid, t):
        Obj.__init__(self, name="error_mutation")
        self.k, self.kid, self.t = k, kid, t

    def m_move_value_from(self, I, args, n):
        ctx = I.ctx
        g = self.k.g
        v = ctx.rv(args[0])
        ctx.write(Loc((g.oid, "w_count")), ctx.store[(g.oid, "w_count")] + 1)
        ctx.write(Loc((g.oid, "w_key")), self.kid)
        ctx.write(Loc((g.oid, "w_t")), self.t)
        ctx.write(Loc((g.oid, "w_msg")), getattr(v, "msg", z3.IntVal(-5)))
        ctx.write(Loc((g.oid, "w_node")), getattr(v, "node", z3.IntVal(-5)))
        return ctx.fresh("moved", "bool")


class KeyView(Obj):
    cls = "ValueView(key)"

    def __init__(self, kid):
        Obj.__init__(self, name="key")
        self.kid = kid


class NodeRef(Obj):
    cls = "NodeView"

    def __init__(self, nid, valid):
        Obj.__init__(self, name="node")
        self.nid, self.valid = nid, valid

    def m_valid(self, I, args, n):
        return self.valid


class WriteMapError(Kernel):
    tu = TU
    name = "map_node.cpp:write_map_error"
    fn_name = "write_map_error"
    filter = "write_map_error"
    property_ids = ("C15", "C10")
    title = "write_map_error: exactly one error tick, in this cycle, under the failing child's key, carrying the message"
    scope = {"lo": 0, "hi": 3}

    def setup(self, I):
        ctx = I.ctx
        self.T = z3.Int("evaluation_time")
        self.key = z3.Int("key_id")
        self.msg = z3.Int("error_msg")
        self.failed_id, self.view_id = z3.Int("failed_node_id"), z3.Int("map_node_id")
        self.failed_valid = z3.Bool("failed_node_valid")
        g = Obj("ghost", "wg")
        self.g = g
        ctx.store[(g.oid, "w_count")] = z3.IntVal(0)
        for nm in ("w_key", "w_t", "w_msg", "w_node", "dict_mut_t", "out_t"):
            ctx.store[(g.oid, nm)] = z3.IntVal(-9)
        k = self
        view = NodeRef(self.view_id, z3.BoolVal(True))
        view.m_schema = lambda I_, a, n_: Ptr(Wild(name="schema"), I_.ctx.fresh("schema_null", "bool"))

        def error_output(I_, a, n_):
            I_.ctx.write(Loc((g.oid, "out_t")), I_.ctx.rv(a[0]))
            return ErrOutput(k)
        view.m_error_output = error_output
        self.view = view
        return None, {"view": view, "failed_node": NodeRef(self.failed_id, self.failed_valid), "key": KeyView(self.key),
                      "evaluation_time": self.T, "error_msg": self.msg}

    def function_handler(self, name, node, callee_node):
        h = getattr(self, "f_" + name, None)
        if h is not None:
            return h
        return Kernel.function_handler(self, name, node, callee_node)

    def ctor_handler(self, cls, node):
        if cls.endswith("ErrorCaptureOptions"):
            return lambda I, args, n: Wild(name="options")
        return Kernel.ctor_handler(self, cls, node)

    def f_capture_node_error(self, I, args, n):
        """node_error.cpp capture_node_error (trusted): fields name the given node, time and message"""
        ctx = I.ctx
        f = ErrFields(name="fields")
        nv = ctx.rv(args[0])
        f.node = nv.nid if isinstance(nv, NodeRef) else z3.IntVal(-6)
        f.t = ctx.rv(args[1])
        f.msg = ctx.rv(args[2])
        return f

    def f_make_node_error_value(self, I, args, n):
        f = I.ctx.rv(args[0])
        v = ErrValue(name="error_value")
        v.msg, v.node, v.t = f.msg, f.node, f.t
        return v

    def f_move(self, I, args, n):
        return I.ctx.rv(args[0])

    def post(self, I, ret):
        ctx = I.ctx
        g = lambda nm: ctx.store[(self.g.oid, nm)]
        ctx.oblige("ensures.exactly-one-error-tick-in-this-cycle-under-the-given-key-with-the-message[C15 exactly one error tick "
                   "in that same cycle carrying the exception's message; C10 reported under that key only]",
                   z3.And(g("w_count") == 1, g("w_key") == self.key, g("w_t") == self.T, g("w_msg") == self.msg,
                          g("dict_mut_t") == self.T, g("out_t") == self.T), kind="post-normal")
        ctx.oblige("ensures.the-error-names-the-failing-node-when-known[C14/C15 naming the failing node]",
                   g("w_node") == z3.If(self.failed_valid, self.failed_id, self.view_id), kind="post-normal")


KERNELS.append(WriteMapError)



# ------------------------------------------------------------------ map_evaluate_impl (C10 / C14 / C15)
#
# Abstract state after key reconciliation (map_reconcile_keys / prepare_map_evaluation_slots are trusted to preserve
# EntryInv and PW, listed in the evidence):
#   per slot s: entry_null[s], has_graph[s], started[s], cnst[s] (the child's cached next scheduled time), key(s) = s,
#               pw[s] = entry->schedule_context.pulled_when
#   heap: entries id -> (present, when, slot, pulled); ids are never reused; the code's vector-as-heap is a bag with a
#         minimum (std::push_heap / pop_heap / front with std::greater<>: library model)
#   EntryInv: schedule_context.storage == this, schedule_context.slot == s (set when the entry is created)
#   PW:  pw[s] != MAX_DT  =>  the heap holds (when = pw[s], slot = s, pulled = true)      [witness wit[s]]

qe = z3.Int("qe")


class EvalHeap(Obj):
    cls = "child_schedule_queue"

    def __init__(self, k):
        Obj.__init__(self, name="child_schedule_queue")
        self.k = k

    def g(self, ctx, nm):
        return ctx.store[(self.k.g.oid, nm)]

    def minimum(self, ctx):
        pres, when = self.g(ctx, "h_present"), self.g(ctx, "h_when")
        e = ctx.fresh("heap_empty", "bool")
        m = ctx.fresh("heap_min")
        ctx.assume(z3.Implies(e, z3.ForAll([qe], z3.Not(pres[qe]))))
        ctx.assume(z3.Implies(z3.Not(e), z3.And(pres[m], z3.ForAll([qe], z3.Implies(pres[qe], when[m] <= when[qe])))))
        return e, m

    def m_empty(self, I, args, n):
        return self.minimum(I.ctx)[0]

    def m_front(self, I, args, n):
        e, m = self.minimum(I.ctx)
        I.ctx.oblige("callee-pre.front:heap-non-empty", z3.Not(e), kind="bounds")
        return HeapEntryRef(self, m)

    def m_begin(self, I, args, n):
        return ("heap_begin", self)

    def m_end(self, I, args, n):
        return ("heap_end", self)

    def m_back(self, I, args, n):
        ctx = I.ctx
        ctx.oblige("callee-pre.back:after-pop_heap", self.g(ctx, "h_popped") >= 0, kind="callee-pre")
        return HeapEntryRef(self, self.g(ctx, "h_popped"))

    def m_pop_back(self, I, args, n):
        ctx = I.ctx
        pid = self.g(ctx, "h_popped")
        ctx.oblige("callee-pre.pop_back:after-pop_heap", pid >= 0, kind="callee-pre")
        ctx.write(Loc((self.k.g.oid, "h_present")), z3.Store(self.g(ctx, "h_present"), pid, False))
        ctx.write(Loc((self.k.g.oid, "h_popped")), z3.IntVal(-1))
        return VOID


class HeapEntryRef(Obj):
    cls = "MapChildSchedule"

    def __init__(self, h, eid):
        Obj.__init__(self, name="schedule")
        self.h, self.eid = h, eid

    def member(self, ctx, name, node):
        return {"when": self.h.g(ctx, "h_when")[self.eid], "slot": self.h.g(ctx, "h_slot")[self.eid],
                "pulled": self.h.g(ctx, "h_pulled")[self.eid]}[name]


class EvalSchedCtx(Obj):
    cls = "MapChildScheduleContext"

    def __init__(self, k, slot):
        Obj.__init__(self, name="schedule_context")
        self.k, self.slot = k, slot

    def member(self, ctx, name, node):
        if name == "pulled_when":
            return ArrLoc((self.k.g.oid, "pw"), self.slot)
        if name == "slot":
            return self.slot
        raise Gap("schedule context member %s" % name)


class EvalEntry(EntryObj):
    def member(self, ctx, name, node):
        if name == "schedule_context":
            return EvalSchedCtx(self.k, self.slot)
        if name == "graph":
            return EvalChildGraph(self.k, self.slot)
        return EntryObj.member(self, ctx, name, node)


class EvalChildGraph(ChildGraphValue):
    def m_view(self, I, args, n):
        return EvalChildView(self.k, self.slot)


class EvalChildView(ChildView):
    def m_evaluate(self, I, args, n):
        ctx = I.ctx
        k = self.k
        # out-of-band observer pushes during the child's evaluation: the heap only grows, existing entries keep their fields
        pres_old = ctx.store[(k.g.oid, "h_present")]
        nid_old = ctx.store[(k.g.oid, "h_next_id")]
        nid = ctx.fresh("h_next_id_after_child")
        ctx.assume(nid >= nid_old)
        news = {}
        for nm in ("h_present", "h_when", "h_slot", "h_pulled"):
            old = ctx.store[(k.g.oid, nm)]
            new = ctx.fresh(nm + "_after_child", old.sort())
            ctx.assume(z3.ForAll([qe], z3.Implies(pres_old[qe], new[qe] == old[qe])))
            news[nm] = new
        ctx.assume(z3.ForAll([qe], z3.Implies(news["h_present"][qe], z3.And(qe >= 0, qe < nid))))
        for nm, new in news.items():
            ctx.write(Loc((k.g.oid, nm)), new)
        ctx.write(Loc((k.g.oid, "h_next_id")), nid)
        return ChildView.m_evaluate(self, I, args, n)


class MapEvaluateImpl(MapKernel):
    name = "map_node.cpp:map_evaluate_impl"
    fn_name = "map_evaluate_impl"
    filter = "map_evaluate_impl"
    property_ids = ("C10", "C14", "C15", "C02")
    title = "map_evaluate_impl: only constructed started children evaluate; a captured failure is written under that child's " \
            "key; every visited child's future deadline is in the schedule heap and the node re-arms at the heap minimum"
    max_paths = 40000

    def h_present_before(self, ctx):
        return ctx.store[(self.g.oid, "h_present")]

    def entry_ptr(self, slot):
        return Ptr(EvalEntry(self, slot), self.entry_null[slot])

    def setup(self, I):
        ctx = I.ctx
        self.base(I)
        g = self.g
        self.view_started = z3.Bool("view_started")
        self.captures = z3.Bool("captures_errors")
        self.has_err_out = z3.Bool("has_error_output")
        self.schema_null = z3.Bool("schema_null")
        self.r0 = z3.Int("resume_position_plus_one0")
        self.nslots = z3.Int("n_evaluation_slots")
        self.slots = z3.Array("evaluation_slots", I_, I_)
        ctx.assume(z3.And(self.r0 >= 0, self.r0 <= self.nslots, self.nslots >= 0))
        ctx.store[(g.oid, "pw")] = z3.Array("pulled_when0", I_, I_)
        ctx.store[(g.oid, "wit")] = z3.Array("pw_witness0", I_, I_)
        ctx.store[(g.oid, "h_popped")] = z3.IntVal(-1)
        ctx.store[(g.oid, "err_calls")] = z3.IntVal(0)
        ctx.assume(self.PW(ctx))
        ctx.assume(self.ids_ok(ctx))
        st = self.st
        k = self
        ctx.store[(st.oid, "resume_position_plus_one")] = self.r0
        for nm in ("primed", "refresh_all_bindings", "selective_repoint_bindings"):
            ctx.store[(st.oid, nm)] = z3.Bool(nm + "0")
        ctx.store[(st.oid, "evaluation_slots")] = Vec(ctx, "evaluation_slots", length=self.nslots, data=self.slots)
        for nm in ("membership_changed_keys", "repoint_modified_keys"):
            ctx.store[(st.oid, nm)] = Wild(name=nm)
        self.heap = EvalHeap(self)
        ctx.store[(st.oid, "child_schedule_queue")] = self.heap
        st.m_entry_at = lambda I_, a, n_: k.entry_ptr(I_.ctx.rv(a[0]))
        st.m_push_pulled_child_schedule = self.push_pulled
        cx = Obj("MapNodeContext", "context")
        spec = Obj("MapNodeSpec", "spec")
        child = Obj("spec.child", "child_spec")
        ctx.store[(cx.oid, "spec")] = spec
        ctx.store[(cx.oid, "access")] = Wild(name="access")
        ctx.store[(spec.oid, "child")] = child
        ctx.store[(spec.oid, "output_binding_mode")] = z3.Int("output_binding_mode")
        ctx.store[(child.oid, "output_binding")] = Wild(name="output_binding")
        mv = Obj("MapNodeView", "map_view")
        mv.m_internal_context = lambda I_, a, n_: Ptr(cx)
        mv.m_internal_storage = lambda I_, a, n_: Ptr(st)
        view = self.view
        view.m_started = lambda I_, a, n_: k.view_started
        view.m_as = lambda I_, a, n_: mv
        view.m_has_error_output = lambda I_, a, n_: k.has_err_out
        sch = Obj("NodeTypeMetaData", "schema")
        ctx.store[(sch.oid, "captures_errors")] = self.captures
        view.m_schema = lambda I_, a, n_: Ptr(sch, k.schema_null)
        view.m_graph = lambda I_, a, n_: k.G
        view.m_node_index = lambda I_, a, n_: k.node_index
        return None, {"": Ptr(None), "view": view, "evaluation_time": self.T}

    # PW with its witness
    def PW(self, ctx):
        pw, wit = self.gg(ctx, "pw"), self.gg(ctx, "wit")
        pres, when, slot, pulled = (self.gg(ctx, n) for n in ("h_present", "h_when", "h_slot", "h_pulled"))
        return z3.ForAll([qs], z3.Implies(z3.And(z3.Not(self.entry_null[qs]), pw[qs] != MAX_DT),
                                          z3.And(pres[wit[qs]], when[wit[qs]] == pw[qs], slot[wit[qs]] == qs, pulled[wit[qs]])))

    def push_pulled(self, I, args, n):
        """MapNodeStorage::push_pulled_child_schedule under EntryInv (contract proved by PushPulledChildSchedule)"""
        ctx = I.ctx
        when, sc = ctx.rv(args[0]), ctx.rv(args[1])
        if not isinstance(sc, EvalSchedCtx):
            raise Gap("push_pulled_child_schedule on an untracked context")
        s = sc.slot
        pw = self.gg(ctx, "pw")
        if ctx.decide(pw[s] == when, "already pulled at this time"):
            return VOID
        nid = self.gg(ctx, "h_next_id")
        for nm, v in (("h_present", z3.BoolVal(True)), ("h_when", when), ("h_slot", s), ("h_pulled", z3.BoolVal(True))):
            ctx.write(Loc((self.g.oid, nm)), z3.Store(self.gg(ctx, nm), nid, v))
        ctx.write(Loc((self.g.oid, "h_next_id")), nid + 1)
        ctx.write(Loc((self.g.oid, "pw")), z3.Store(pw, s, when))
        ctx.write(Loc((self.g.oid, "wit")), z3.Store(self.gg(ctx, "wit"), s, nid))
        return VOID

    # callees
    def f_map_reconcile_keys(self, I, args, n):
        return I.ctx.fresh("refresh_all_bindings", "bool")

    def f_prepare_map_evaluation_slots(self, I, args, n):
        return VOID

    def f_map_entry_membership_changed(self, I, args, n):
        return I.ctx.fresh("membership_changed", "bool")

    def f_map_entry_repoint_modified(self, I, args, n):
        return I.ctx.fresh("repoint_modified", "bool")

    def f_bind_mapped_child_inputs(self, I, args, n):
        return VOID

    f_bind_mapped_child_output = f_bind_mapped_child_inputs
    f_finalize_mapped_child_output = f_bind_mapped_child_inputs

    def f_cast(self, I, args, n):
        return I.ctx.rv(args[0])

    def f_pop_heap(self, I, args, n):
        ctx = I.ctx
        e, m = self.heap.minimum(ctx)
        ctx.oblige("callee-pre.pop_heap:non-empty", z3.Not(e), kind="callee-pre")
        ctx.write(Loc((self.g.oid, "h_popped")), m)
        return VOID

    def f_write_map_error(self, I, args, n):
        ctx = I.ctx
        failed, key, t, msg = ctx.rv(args[1]), ctx.rv(args[2]), ctx.rv(args[3]), ctx.rv(args[4])
        ts = self.gg(ctx, "threw_slot")
        ctx.oblige("write_map_error:under-the-failing-child's-key,this-cycle,its-message,its-failed-node[C15 in a keyed map an "
                   "error in one key's child is reported under that key only; C10 failures of one key never influence another]",
                   z3.And(z3.BoolVal(isinstance(key, KeyOf)), (key.slot if isinstance(key, KeyOf) else z3.IntVal(-3)) == ts,
                          t == self.T, msg == self.gg(ctx, "thrown_msg"),
                          (getattr(failed, "of_slot", z3.IntVal(-4))) == ts), kind="callee-pre")
        ctx.write(Loc((self.g.oid, "err_calls")), self.gg(ctx, "err_calls") + 1)
        return VOID

    def ctor_handler(self, qt, node):
        if "greater<" in qt:
            return lambda I, args, n: Wild(name="greater")
        if qt.endswith("TSOutputView") or qt.endswith("NodeView") or qt.endswith("MapChildSchedule"):
            return lambda I, args, n: (I.ctx.rv(args[0]) if args else Wild(name="empty_view"))
        return Kernel.ctor_handler(self, qt, node)

    def global_var(self, I, ref, node):
        if ref.get("name") == "nullopt":
            return Wild(name="nullopt")
        return None

    # ---- invariants
    def visited_ok(self, ctx, lo, hi):
        """every slot listed at positions [lo, hi) whose child is constructed and started has its future deadline pulled"""
        started, cnst, pw = self.gg(ctx, "started"), self.gg(ctx, "cnst"), self.gg(ctx, "pw")
        s = self.slots[qk]
        return z3.ForAll([qk], z3.Implies(z3.And(qk >= lo, qk < hi, z3.Not(self.entry_null[s]), self.has_graph[s], started[s],
                                                 cnst[s] != MAX_DT, cnst[s] > self.T), pw[s] == cnst[s]))

    def start_pos(self):
        return z3.If(self.r0 != 0, self.r0 - 1, z3.IntVal(0))

    def inv_main(self, I, ctx):
        p = self.local(I, "position")
        yield "position-range", z3.And(p >= self.start_pos(), p <= z3.If(self.nslots > self.start_pos(), self.nslots, self.start_pos()))
        yield "PW:a-pulled-deadline-is-in-the-heap", self.PW(ctx)
        yield "visited-children's-future-deadlines-are-pulled[C10]", self.visited_ok(ctx, self.start_pos(), p)
        yield "errors-written=captured-failures[C15]", self.gg(ctx, "err_calls") == self.gg(ctx, "throws")
        yield "children-only-stopped-by-reconciliation", self.gg(ctx, "started") == self.started0
        yield "ids-fresh", self.ids_ok(ctx)
        yield "nothing-popped", self.gg(ctx, "h_popped") == -1
        yield "not-rescheduled-yet", self.G.get(ctx, "calls") == 0
        yield "cursor-untouched-while-running", ctx.store[(self.st.oid, "resume_position_plus_one")] == self.r0

    def ids_ok(self, ctx):
        return z3.And(self.gg(ctx, "h_next_id") >= 0,
                      z3.ForAll([qe], z3.Implies(self.gg(ctx, "h_present")[qe], z3.And(qe >= 0, qe < self.gg(ctx, "h_next_id")))))

    def frame_main(self, I, ctx):
        fr = [Loc((self.g.oid, nm)) for nm in ("cnst", "evals", "throws", "threw_slot", "thrown_msg", "pw", "wit", "h_present",
                                               "h_when", "h_slot", "h_pulled", "h_next_id", "err_calls")]
        fr.append(Loc((self.st.oid, "resume_position_plus_one")))
        return fr

    def inv_drain(self, I, ctx):
        yield "PW:a-pulled-deadline-is-in-the-heap", self.PW(ctx)
        yield "visited-children's-future-deadlines-are-pulled[C10]", self.visited_ok(ctx, self.start_pos(), self.nslots)
        yield "nothing-popped", self.gg(ctx, "h_popped") == -1
        yield "ids-fresh", self.ids_ok(ctx)
        yield "not-rescheduled-yet", self.G.get(ctx, "calls") == 0
        yield "cursor-reset", ctx.store[(self.st.oid, "resume_position_plus_one")] == 0

    def frame_drain(self, I, ctx):
        return [Loc((self.g.oid, nm)) for nm in ("pw", "h_present", "h_popped")]

    @property
    def loops(self):
        return {0: LoopSpec(self.inv_main, self.frame_main, match="evaluation_slots.size()"),
                1: LoopSpec(self.inv_drain, self.frame_drain, match="child_schedule_queue")}

    def post(self, I, ret):
        ctx = I.ctx
        started, cnst = self.gg(ctx, "started"), self.gg(ctx, "cnst")
        ctx.oblige("ensures.not-started:nothing-happens", z3.Implies(z3.Not(self.view_started), z3.And(
            ret, self.gg(ctx, "evals") == z3.K(I_, z3.IntVal(0)), self.G.get(ctx, "calls") == 0)), kind="post-normal")
        ctx.oblige("ensures.one-error-write-per-captured-failure[C15 exactly one error tick]",
                   self.gg(ctx, "err_calls") == self.gg(ctx, "throws"), kind="post-normal")
        s = self.slots[qk]
        ctx.oblige("ensures.completed=>every-visited-child's-future-deadline-re-arms-this-node-no-later[C10 self-scheduling children: "
                   "no wake-up of a key's child is lost; C02]",
                   z3.Implies(z3.And(self.view_started, ret), z3.ForAll([qk], z3.Implies(z3.And(
                       qk >= self.start_pos(), qk < self.nslots, z3.Not(self.entry_null[s]), self.has_graph[s], started[s],
                       cnst[s] != MAX_DT, cnst[s] > self.T),
                       z3.And(self.G.get(ctx, "calls") == 1, self.G.get(ctx, "last_i") == self.node_index,
                              self.G.get(ctx, "last_t") <= cnst[s], self.G.get(ctx, "last_t") > self.T)))), kind="post-normal")
        ctx.oblige("ensures.completed=>cursor-reset;paused=>cursor-on-the-paused-child", z3.Implies(self.view_started, z3.If(
            ret, ctx.store[(self.st.oid, "resume_position_plus_one")] == 0,
            z3.And(ctx.store[(self.st.oid, "resume_position_plus_one")] >= 1,
                   ctx.store[(self.st.oid, "resume_position_plus_one")] <= self.nslots))), kind="post-normal")

    def post_exc(self, I, exc):
        ctx = I.ctx
        ctx.oblige("raises.only-a-child-failure-when-errors-are-not-captured[C15 capture => the run continues]",
                   z3.Or(z3.And(z3.BoolVal(exc.origin == "child.evaluate"),
                                z3.Not(z3.And(self.has_err_out, z3.Not(self.schema_null), self.captures))),
                         z3.BoolVal(exc.origin == "GraphValue::schedule_node")), kind="post-exceptional")


KERNELS.append(MapEvaluateImpl)


class PushSchedCtx(Obj):
    cls = "MapChildScheduleContext"

    def __init__(self, k):
        Obj.__init__(self, name="schedule")
        self.k = k

    def member(self, ctx, name, node):
        if name == "storage":
            return Ptr(self.k.this_st)
        if name == "slot":
            return self.k.slot
        if name == "pulled_when":
            return Loc((self.k.g.oid, "pw_s"))
        raise Gap("schedule context member %s" % name)


class PushQueue(Obj):
    cls = "std::vector<MapChildSchedule>"

    def __init__(self, k):
        Obj.__init__(self, name="child_schedule_queue")
        self.k = k

    def m_push_back(self, I, args, n):
        ctx = I.ctx
        e = ctx.rv(args[0])
        g = self.k.g
        ctx.write(Loc((g.oid, "pushed")), ctx.store[(g.oid, "pushed")] + 1)
        for nm in ("when", "slot", "pulled"):
            ctx.write(Loc((g.oid, "p_" + nm)), getattr(e, nm))
        return VOID

    def m_begin(self, I, args, n):
        return ("begin", self)

    def m_end(self, I, args, n):
        return ("end", self)

    # observers of the heap's current content: arbitrary
    def m_empty(self, I, args, n):
        return I.ctx.fresh("queue_empty", "bool")

    def m_size(self, I, args, n):
        v = I.ctx.fresh("queue_size")
        I.ctx.assume(v >= 0)
        return v

    def m_front(self, I, args, n):
        ctx = I.ctx
        w, s = ctx.fresh("front_when"), ctx.fresh("front_slot")
        return SchedVal(w, s, ctx.fresh("front_pulled", "bool"))


class SchedVal(Obj):
    cls = "MapChildSchedule"

    def __init__(self, when, slot, pulled):
        Obj.__init__(self, name="schedule_value")
        self.when, self.slot, self.pulled = when, slot, pulled

    def member(self, ctx, name, node):
        return getattr(self, name)


class PushPulledChildSchedule(Kernel):
    tu = TU
    name = "map_node.cpp:MapNodeStorage::push_pulled_child_schedule"
    fn_name = "push_pulled_child_schedule"
    filter = "MapNodeStorage::push_pulled_child_schedule"
    property_ids = ("C10",)
    inline = ("push_child_schedule",)
    extra_dumps = ((TU, "MapNodeStorage::push_child_schedule"),)
    title = "push_pulled_child_schedule: a new pulled deadline of an entry of this map enters the heap and is remembered; a " \
            "repeated one is coalesced"
    scope = {"lo": 0, "hi": 3}

    def locate(self, dumps):
        fn = Kernel.locate(self, dumps)
        self.index(dumps[(TU, "MapNodeStorage::push_child_schedule")])
        return fn

    def setup(self, I):
        ctx = I.ctx
        th = Obj("MapNodeStorage", "this_storage")
        self.this_st = th
        g = Obj("ghost", "pp")
        self.g = g
        self.when, self.slot, self.pw0 = z3.Int("when"), z3.Int("slot"), z3.Int("pulled_when0")
        self.ctx_is_ours = z3.BoolVal(True)     # EntryInv (requires): the context belongs to an entry of this storage
        ctx.store[(g.oid, "pw_s")] = self.pw0
        ctx.store[(g.oid, "pushed")] = z3.IntVal(0)
        for nm in ("when", "slot"):
            ctx.store[(g.oid, "p_" + nm)] = z3.IntVal(-9)
        ctx.store[(g.oid, "p_pulled")] = z3.BoolVal(False)
        ctx.store[(g.oid, "heapified")] = z3.IntVal(0)
        ctx.store[(th.oid, "child_schedule_queue")] = PushQueue(self)
        return th, {"when": self.when, "schedule": PushSchedCtx(self)}

    def function_handler(self, name, node, callee_node):
        if name == "push_heap":
            def ph(I, a, n):
                I.ctx.write(Loc((self.g.oid, "heapified")), I.ctx.store[(self.g.oid, "heapified")] + 1)
                return VOID
            return ph
        return Kernel.function_handler(self, name, node, callee_node)

    def ctor_handler(self, qt, node):
        if qt.endswith("MapChildSchedule"):
            def mk(I, args, n):
                a = [I.ctx.rv(x) for x in args]
                if len(a) == 1 and isinstance(a[0], SchedVal):
                    return a[0]
                return SchedVal(a[0], a[1], a[2])
            return mk
        if "greater<" in qt:
            return lambda I, args, n: Wild(name="greater")
        return Kernel.ctor_handler(self, qt, node)

    def post(self, I, ret):
        ctx = I.ctx
        g = lambda nm: ctx.store[(self.g.oid, nm)]
        new = z3.And(self.ctx_is_ours, self.pw0 != self.when)
        ctx.oblige("ensures.new-deadline-of-our-entry=>one-heap-entry(when,slot,pulled)-and-remembered[C10 PW established]",
                   z3.Implies(new, z3.And(g("pushed") == 1, g("heapified") == 1, g("p_when") == self.when, g("p_slot") == self.slot,
                                          g("p_pulled"), g("pw_s") == self.when)), kind="post-normal")
        ctx.oblige("ensures.repeated-or-foreign=>nothing-changes", z3.Implies(z3.Not(new), z3.And(
            g("pushed") == 0, g("pw_s") == self.pw0)), kind="post-normal")


KERNELS.append(PushPulledChildSchedule)


# ------------------------------------------------------------------ prepare_map_evaluation_slots and its helpers (C10)
#
# EntryStoreInv: an entry exists only in a slot below slot_capacity (InPlaceGraphSlotStore).
# BitInv: the candidate bitmap has one bit per slot of the entry store (size >= slot_capacity) -- SlotBitmap::set silently
# ignores a bit beyond the bitmap's size, so a smaller bitmap drops live children from the evaluation.

NPOS = z3.Int("NPOS")


class CandBitmap(Obj):
    """SlotBitmap (slot_bitmap.h): size bit_count, set(bit) is a no-op for bit >= bit_count"""
    cls = "SlotBitmap"

    def __init__(self, k):
        Obj.__init__(self, name="evaluation_candidates")
        self.k = k

    def g(self, ctx, nm):
        return ctx.store[(self.k.g.oid, nm)]

    def m_resize(self, I, args, n):
        I.ctx.write(Loc((self.k.g.oid, "bm_size")), I.ctx.rv(args[0]))
        return VOID

    def m_reset(self, I, args, n):
        if args:
            raise Gap("SlotBitmap::reset(bit)")
        I.ctx.write(Loc((self.k.g.oid, "cand")), z3.K(I_, z3.BoolVal(False)))
        return VOID

    def m_set(self, I, args, n):
        ctx = I.ctx
        b = ctx.rv(args[0])
        cand = self.g(ctx, "cand")
        ctx.write(Loc((self.k.g.oid, "cand")), z3.If(z3.And(b >= 0, b < self.g(ctx, "bm_size")), z3.Store(cand, b, True), cand))
        return VOID

    def m_size(self, I, args, n):
        return self.g(I.ctx, "bm_size")


class SlotKernel(MapKernel):
    """shared state for the helpers: entries per slot, candidate bitmap"""
    property_ids = ("C10",)

    def slot_base(self, I):
        ctx = I.ctx
        self.base(I)
        g = self.g
        self.cap = z3.Int("slot_capacity")
        self.bm0 = z3.Int("bitmap_size0")
        ctx.assume(z3.And(self.cap >= 0, self.bm0 >= 0, NPOS > self.cap, NPOS > self.bm0))
        ctx.assume(z3.ForAll([qs], z3.Implies(z3.Not(self.entry_null[qs]), z3.And(qs >= 0, qs < self.cap))))      # EntryStoreInv
        ctx.store[(g.oid, "bm_size")] = self.bm0
        self.cand0 = z3.Array("candidates0", I_, B_)
        ctx.store[(g.oid, "cand")] = self.cand0
        st = self.st
        k = self
        ctx.store[(st.oid, "evaluation_candidates")] = CandBitmap(self)
        ents = Obj("InPlaceGraphSlotStore", "entries")
        ents.m_slot_capacity = lambda I_2, a, n: k.cap
        ents.m_entry_count = lambda I_2, a, n: k.entry_count(I_2)
        ctx.store[(st.oid, "entries")] = ents
        st.m_entry_at = lambda I_2, a, n: k.entry_ptr(I_2.ctx.rv(a[0]))

    def entry_count(self, I):
        c = I.ctx.fresh("entry_count")
        I.ctx.assume(z3.And(c >= 0, c <= self.cap))
        return c

    def global_var(self, I, ref, node):
        if ref.get("name") in ("TS_DATA_NO_CHILD_ID", "npos"):
            return NPOS
        if ref.get("name") == "nullopt":
            return Wild(name="nullopt")
        return None


class AddMapEvaluationSlot(SlotKernel):
    name = "map_node.cpp:add_map_evaluation_slot"
    fn_name = "add_map_evaluation_slot"
    filter = "add_map_evaluation_slot"
    title = "add_map_evaluation_slot: under BitInv a slot that holds an entry becomes an evaluation candidate"

    def setup(self, I):
        self.slot_base(I)
        self.slot = z3.Int("slot")
        I.ctx.assume(z3.And(self.slot >= 0, self.bm0 >= self.cap))            # requires BitInv
        return None, {"storage": self.st, "slot": self.slot}

    def post(self, I, ret):
        ctx = I.ctx
        cand = self.gg(ctx, "cand")
        ctx.oblige("ensures.an-entry's-slot-becomes-a-candidate;nothing-else-changes[C10 a live key's child is never dropped from the "
                   "evaluation]", z3.And(
                       z3.Implies(z3.And(self.slot != NPOS, z3.Not(self.entry_null[self.slot])), cand[self.slot]),
                       z3.ForAll([qs], z3.Implies(qs != self.slot, cand[qs] == self.cand0[qs])),
                       z3.Implies(self.cand0[self.slot], cand[self.slot])), kind="post-normal")


class CollectAllMapEvaluationSlots(SlotKernel):
    name = "map_node.cpp:collect_all_map_evaluation_slots"
    fn_name = "collect_all_map_evaluation_slots"
    filter = "collect_all_map_evaluation_slots"
    title = "collect_all_map_evaluation_slots: under BitInv every slot that holds an entry becomes a candidate"
    inline = ("add_map_evaluation_slot",)
    extra_dumps = ((TU, "add_map_evaluation_slot"),)

    def locate(self, dumps):
        fn = Kernel.locate(self, dumps)
        self.index(dumps[(TU, "add_map_evaluation_slot")])
        return fn

    def setup(self, I):
        self.slot_base(I)
        I.ctx.assume(self.bm0 >= self.cap)
        I.ctx.store[(self.st.oid, "evaluation_slots")] = Wild(name="evaluation_slots")
        return None, {"storage": self.st}

    def inv(self, I, ctx):
        s = self.local(I, "slot")
        cand = self.gg(ctx, "cand")
        yield "slot-range", z3.And(s >= 0, s <= self.cap)
        yield "entries-below-the-cursor-are-candidates", z3.ForAll([qs], z3.And(
            z3.Implies(z3.And(qs >= 0, qs < s, z3.Not(self.entry_null[qs])), cand[qs]), z3.Implies(self.cand0[qs], cand[qs])))
        yield "bitmap-size-unchanged", self.gg(ctx, "bm_size") == self.bm0

    def frame(self, I, ctx):
        return [Loc((self.g.oid, "cand"))]

    @property
    def loops(self):
        return {0: LoopSpec(self.inv, self.frame)}

    def post(self, I, ret):
        ctx = I.ctx
        cand = self.gg(ctx, "cand")
        ctx.oblige("ensures.every-entry's-slot-is-a-candidate[C10 the full scan visits every live key's child]",
                   z3.ForAll([qs], z3.And(z3.Implies(z3.Not(self.entry_null[qs]), cand[qs]), z3.Implies(self.cand0[qs], cand[qs]))),
                   kind="post-normal")


class InputW(Obj):
    """a TSInputView of the map node: observers are arbitrary"""
    cls = "TSInputView"

    def __init__(self, k, what):
        Obj.__init__(self, name=what)
        self.k, self.what = k, what

    def m_indexed_child_at(self, I, a, n):
        idx = I.ctx.rv(a[0])
        if z3.is_expr(idx) and z3.eq(idx, z3.Int("keys_input_index")) and hasattr(self.k, "keys_valid"):
            return InputW(self.k, "keys_input")
        return InputW(self.k, "child_input")

    def m_modified(self, I, a, n):
        if self.what == "keys_input":
            return self.k.keys_modified
        return I.ctx.fresh("input_modified", "bool")

    def m_valid(self, I, a, n):
        if self.what == "keys_input":
            return self.k.keys_valid
        return I.ctx.fresh("input_valid", "bool")

    def m_data_view(self, I, a, n):
        return DataW(self.k)


class DataW(Obj):
    cls = "TSDataView"

    def __init__(self, k):
        Obj.__init__(self, name="data_view")
        self.k = k

    def m_as_set(self, I, a, n):
        return SetW(self.k)


class StorageRef(Obj):
    cls = "storage_ref"

    def __init__(self, pid):
        Obj.__init__(self, name="storage_ref")
        self.pid = pid

    def m_base(self, I, a, n):
        return self

    def m_storage_ref(self, I, a, n):
        return self

    def m_data(self, I, a, n):
        return self.pid


class SetW(Obj):
    cls = "TSSDataView"

    def __init__(self, k):
        Obj.__init__(self, name="keys")
        self.k = k

    def m_base(self, I, a, n):
        return StorageRef(I.ctx.fresh("keys_storage"))

    def m_next_added_slot(self, I, a, n):
        return I.ctx.fresh("next_added_slot")

    def m_find_slot(self, I, a, n):
        key = I.ctx.rv(a[0])
        if isinstance(key, KeyOf) and hasattr(self.k, "chg_slot"):
            return self.k.chg_slot[key.slot]          # the slot (or npos) of the j-th membership-changed key
        return I.ctx.fresh("found_slot")


class DictW(Obj):
    cls = "TSDDataView"

    def __init__(self, k):
        Obj.__init__(self, name="dict")
        self.k = k

    def m_modified(self, I, a, n):
        return I.ctx.fresh("dict_modified", "bool")

    def m_key_set(self, I, a, n):
        return SetW(self.k)

    def m_next_modified_slot(self, I, a, n):
        return I.ctx.fresh("next_modified_slot")

    def m_key_at_slot(self, I, a, n):
        return Wild(name="key")


class SourceW(Obj):
    cls = "TSOutputHandle"

    def m_bound(self, I, a, n):
        return I.ctx.fresh("source_bound", "bool")

    def m_data_view(self, I, a, n):
        return Wild(name="source_data")


class ArgW(Obj):
    cls = "MappedArg"

    def __init__(self, k):
        Obj.__init__(self, name="arg")
        self.k = k

    def member(self, ctx, name, node):
        if name == "source":
            o = Obj("MapArgSource", "source")
            ctx.store[(o.oid, "kind")] = ctx.fresh("arg_source_kind")
            ctx.store[(o.oid, "outer_index")] = ctx.fresh("outer_index")
            return o
        if name == "refreshes_projected_children":
            return ctx.fresh("refreshes_projected_children", "bool")
        raise Gap("arg member %s" % name)


class PrepareMapEvaluationSlots(SlotKernel):
    name = "map_node.cpp:prepare_map_evaluation_slots"
    fn_name = "prepare_map_evaluation_slots"
    filter = "prepare_map_evaluation_slots"
    property_ids = ("C10", "C02")
    title = "prepare_map_evaluation_slots: the candidate bitmap covers every slot, due schedule entries become candidates and " \
            "leave the heap, PW is preserved, and without an outer input event every child is a candidate"
    max_paths = 60000

    def entry_ptr(self, slot):
        return Ptr(EvalEntry(self, slot), self.entry_null[slot])

    def setup(self, I):
        ctx = I.ctx
        self.slot_base(I)
        g = self.g
        ctx.store[(g.oid, "pw")] = z3.Array("pulled_when0", I_, I_)
        ctx.store[(g.oid, "wit")] = z3.Array("pw_witness0", I_, I_)
        ctx.store[(g.oid, "h_popped")] = z3.IntVal(-1)
        ctx.store[(g.oid, "collected")] = z3.BoolVal(False)
        ctx.store[(g.oid, "materialized")] = z3.IntVal(0)
        self.pw0 = ctx.store[(g.oid, "pw")]
        self.present0 = ctx.store[(g.oid, "h_present")]
        ctx.assume(MapEvaluateImpl.PW(self, ctx))
        ctx.assume(MapEvaluateImpl.ids_ok(self, ctx))
        st = self.st
        k = self
        ctx.store[(st.oid, "evaluation_slots")] = Wild(name="evaluation_slots")
        ctx.store[(st.oid, "resume_position_plus_one")] = z3.Int("resume0")
        self.refresh0 = z3.Bool("refresh_all_bindings0")
        ctx.store[(st.oid, "refresh_all_bindings")] = self.refresh0
        self.heap = EvalHeap(self)
        ctx.store[(st.oid, "child_schedule_queue")] = self.heap
        nmux, nargs, nchg = z3.Int("n_multiplexed"), z3.Int("n_args"), z3.Int("n_membership_changed")
        self.nmux, self.nargs, self.nchg = nmux, nargs, nchg
        self.keys_valid, self.keys_modified = z3.Bool("keys_input_valid"), z3.Bool("keys_input_modified")
        self.chg_slot = z3.Array("slot_of_membership_changed_key", I_, I_)
        nouter = z3.Int("n_outer_sources")
        mux_data = z3.Array("multiplexed_inputs_data", I_, I_)
        ctx.assume(z3.And(nmux >= 0, nargs >= 0, nchg >= 0))
        # validated when the node is built (validate_map_node_spec): every multiplexed input index names an outer source
        ctx.assume(z3.ForAll([qk], z3.And(mux_data[qk] >= 0, mux_data[qk] < nouter)))
        ctx.store[(st.oid, "outer_sources")] = Vec(ctx, "outer_sources", length=nouter, elem=lambda j: SourceW(name="source"))
        ctx.store[(st.oid, "membership_changed_keys")] = Vec(ctx, "membership_changed_keys", length=nchg, elem=lambda j: KeyOf(k, j))
        cx = Obj("MapNodeContext", "context")
        spec = Obj("MapNodeSpec", "spec")
        acc = Obj("access", "access")
        ctx.store[(cx.oid, "spec")] = spec
        ctx.store[(cx.oid, "access")] = acc
        ctx.store[(spec.oid, "keys_input_index")] = Opt(z3.BoolVal(True), z3.Int("keys_input_index"))
        ctx.store[(spec.oid, "multiplexed_inputs")] = Vec(ctx, "multiplexed_inputs", length=nmux, data=mux_data)
        ctx.store[(acc.oid, "args")] = Vec(ctx, "args", length=nargs, elem=lambda j: ArgW(k))
        view = self.view
        view.m_input = lambda I_2, a, n: InputW(k, "root_input")
        self.was_primed = z3.Bool("was_primed")
        return None, {"view": view, "context": cx, "storage": st, "evaluation_time": self.T, "was_primed": self.was_primed}

    PW = MapEvaluateImpl.PW
    ids_ok = MapEvaluateImpl.ids_ok
    f_pop_heap = MapEvaluateImpl.f_pop_heap

    def enum_const(self, I, ref):
        if ref.get("name") == "OuterInput":
            return z3.IntVal(1)
        raise Gap("enum constant %s" % ref.get("name"))

    def ctor_handler(self, qt, node):
        if "greater<" in qt:
            return lambda I, args, n: Wild(name="greater")
        if qt.endswith("MapChildSchedule") or qt.endswith("TSDataView") or qt.endswith("TSOutputHandle"):
            return lambda I, args, n: (I.ctx.rv(args[0]) if args else Wild(name="empty"))
        return Kernel.ctor_handler(self, qt, node)

    def f_checked_dict_view(self, I, args, n):
        return DictW(self)

    def f_move(self, I, args, n):
        return I.ctx.rv(args[0])

    def covers(self, ctx):
        return self.gg(ctx, "bm_size") >= self.cap

    def f_add_map_evaluation_slot(self, I, args, n):
        """contract proved by AddMapEvaluationSlot; its precondition BitInv is the caller's obligation"""
        ctx = I.ctx
        s = ctx.rv(args[1])
        ctx.oblige("callee-pre.add_map_evaluation_slot:the-candidate-bitmap-has-a-bit-for-every-slot-of-the-entry-store[C10 a live "
                   "key's child is never dropped from the evaluation]", self.covers(ctx), kind="callee-pre")
        cand = self.gg(ctx, "cand")
        ctx.write(Loc((self.g.oid, "cand")), z3.If(z3.And(s != NPOS, z3.Not(self.entry_null[s])), z3.Store(cand, s, True), cand))
        return VOID

    def f_collect_all_map_evaluation_slots(self, I, args, n):
        ctx = I.ctx
        ctx.oblige("callee-pre.collect_all:the-candidate-bitmap-has-a-bit-for-every-slot-of-the-entry-store[C10]", self.covers(ctx),
                   kind="callee-pre")
        old = self.gg(ctx, "cand")
        new = ctx.fresh("candidates_after_full_scan", old.sort())
        ctx.assume(z3.ForAll([qs], z3.And(z3.Implies(z3.Not(self.entry_null[qs]), new[qs]), z3.Implies(old[qs], new[qs]))))
        ctx.write(Loc((self.g.oid, "cand")), new)
        ctx.write(Loc((self.g.oid, "collected")), z3.BoolVal(True))
        return VOID

    def f_materialize_map_evaluation_slots(self, I, args, n):
        ctx = I.ctx
        ctx.write(Loc((self.g.oid, "materialized")), self.gg(ctx, "materialized") + 1)
        return VOID

    # invariants
    def common(self, ctx):
        yield "bitmap-sized-to-the-slot-capacity", self.gg(ctx, "bm_size") == self.cap
        yield "candidates-only-entries'-slots", z3.ForAll([qs], z3.Implies(self.gg(ctx, "cand")[qs], z3.Not(self.entry_null[qs])))
        yield "heap-untouched", z3.And(self.gg(ctx, "h_present") == self.present0, self.gg(ctx, "pw") == self.pw0,
                                       self.gg(ctx, "h_popped") == -1)
        yield "not-collected-yet", z3.And(z3.Not(self.gg(ctx, "collected")), self.gg(ctx, "materialized") == 0)

    def changed_keys_are_candidates(self, ctx, upto):
        """the child of every membership-changed key below `upto` that has one is an evaluation candidate"""
        cand = self.gg(ctx, "cand")
        s = self.chg_slot[qk]
        return z3.ForAll([qk], z3.Implies(z3.And(qk >= 0, qk < upto, s != NPOS, z3.Not(self.entry_null[s])), cand[s]))

    def inv_changed(self, I, ctx):
        out = self.inv_range(self.nchg)(I, ctx)
        out.append(("membership-changed-keys-visited-so-far-are-candidates[C10 a key that joined or left one of the keyed inputs is "
                    "re-bound and evaluated in that cycle]", self.changed_keys_are_candidates(ctx, self.range_pos(I))))
        return out

    def inv_simple(self, I, ctx):
        out = list(self.common(ctx))
        out.append(("a-full-scan-once-requested-stays-requested", z3.Implies(z3.Or(self.refresh0, z3.Not(self.was_primed)),
                                                                              self.local(I, "full_scan"))))
        return out

    def inv_range(self, length):
        def inv(I, ctx):
            out = self.inv_simple(I, ctx)
            pos = self.range_pos(I)
            out.append(("iterator-in-range", z3.And(pos >= 0, pos <= length)))
            return out
        return inv

    def popped_ok(self, ctx):
        """every schedule entry that left the heap was due; unless stale it made its slot a candidate"""
        pres, when, slot, pulled = (self.gg(ctx, nm) for nm in ("h_present", "h_when", "h_slot", "h_pulled"))
        cand = self.gg(ctx, "cand")
        gone = z3.And(self.present0[qe], z3.Not(pres[qe]))
        return z3.ForAll([qe], z3.Implies(gone, z3.And(
            when[qe] <= self.T,
            z3.Implies(z3.And(z3.Not(self.entry_null[slot[qe]]), z3.Or(z3.Not(pulled[qe]), self.pw0[slot[qe]] == when[qe])),
                       cand[slot[qe]]))))

    def inv_drain(self, I, ctx):
        pres = self.gg(ctx, "h_present")
        yield "bitmap-sized-to-the-slot-capacity", self.gg(ctx, "bm_size") == self.cap
        yield "PW:a-pulled-deadline-is-in-the-heap", self.PW(ctx)
        yield "heap-only-shrinks", z3.ForAll([qe], z3.Implies(pres[qe], self.present0[qe]))
        yield "popped-entries-were-due-and-became-candidates[C10]", self.popped_ok(ctx)
        yield "pulled-deadlines-only-cleared,and-then-the-slot-is-a-candidate", z3.ForAll([qs], z3.Or(
            self.gg(ctx, "pw")[qs] == self.pw0[qs], z3.And(self.gg(ctx, "pw")[qs] == MAX_DT, self.gg(ctx, "cand")[qs])))
        yield "a-full-scan-once-requested-stays-requested", z3.Implies(z3.Or(self.refresh0, z3.Not(self.was_primed)),
                                                                        self.local(I, "full_scan"))
        yield "nothing-popped", self.gg(ctx, "h_popped") == -1
        yield "not-collected-yet", z3.And(z3.Not(self.gg(ctx, "collected")), self.gg(ctx, "materialized") == 0)
        yield ("membership-changed-keys-are-candidates-whether-or-not-the-key-set-itself-ticked[C10 a key that joined or left one of "
               "the keyed inputs is re-bound and evaluated in that cycle]"), z3.Implies(
                   self.keys_valid, self.changed_keys_are_candidates(ctx, self.nchg))

    def frame_simple(self, I, ctx):
        return [Loc((self.g.oid, "cand")), Loc((self.st.oid, "refresh_all_bindings"))]

    def local_loc(self, I, nm):
        f = I.ctx.frame
        while f is not None:
            for did, b in reversed(list(f.vars.items())):
                if isinstance(b, Loc) and getattr(b, "decl_name", None) == nm:
                    return b
            f = f.parent
        raise Gap("no local %s" % nm)

    def frame_drain(self, I, ctx):
        return [Loc((self.g.oid, nm)) for nm in ("cand", "pw", "h_present", "h_popped")]

    @property
    def loops(self):
        simple = lambda m: LoopSpec(self.inv_simple, self.frame_simple, match=m)
        rng = lambda n, m: LoopSpec(self.inv_range(n), self.frame_simple, match=m)
        return {0: rng(self.nargs, "access.args"), 1: simple("next_added_slot"), 2: rng(self.nmux, "multiplexed_inputs"),
                3: simple("next_modified_slot"), 4: LoopSpec(self.inv_changed, self.frame_simple, match="membership_changed_keys"),
                5: LoopSpec(self.inv_drain, self.frame_drain, match="child_schedule_queue")}

    def post(self, I, ret):
        ctx = I.ctx
        pres, when = self.gg(ctx, "h_present"), self.gg(ctx, "h_when")
        ctx.oblige("ensures.PW-preserved", self.PW(ctx), kind="post-normal")
        ctx.oblige("ensures.no-due-entry-left-in-the-heap;every-due-non-stale-entry's-slot-is-a-candidate[C10 a child due by its own "
                   "schedule is not starved; C02 work inside a nested child is honoured at exactly its time]", z3.And(z3.ForAll([qe], z3.Implies(pres[qe], when[qe] > self.T)), self.popped_ok(ctx)),
                   kind="post-normal")
        ctx.oblige("ensures.membership-changed-keys-are-candidates-whether-or-not-the-key-set-itself-ticked[C10 a key that joined or "
                   "left one of the keyed inputs is re-bound and evaluated in that cycle]",
                   z3.Implies(self.keys_valid, self.changed_keys_are_candidates(ctx, self.nchg)), kind="post-normal")
        ctx.oblige("ensures.materialized-once,cursor-reset", z3.And(self.gg(ctx, "materialized") == 1,
                   ctx.store[(self.st.oid, "resume_position_plus_one")] == 0), kind="post-normal")
        ctx.oblige("ensures.first-evaluation-or-refresh=>every-child-is-a-candidate[C10]",
                   z3.Implies(z3.Or(self.refresh0, z3.Not(self.was_primed)),
                              z3.ForAll([qs], z3.Implies(z3.Not(self.entry_null[qs]), self.gg(ctx, "cand")[qs]))), kind="post-normal")


KERNELS += [AddMapEvaluationSlot, CollectAllMapEvaluationSlots, PrepareMapEvaluationSlots]


class MapNodeStop(MapKernel):
    name = "map_node.cpp:map_node_stop"
    fn_name = "map_node_stop"
    filter = "map_node_stop"
    property_ids = ("C14", "C10")
    title = "map_node_stop: stopping the map node stops every started child, whatever state the map is in"

    def setup(self, I):
        ctx = I.ctx
        self.base(I)
        g = self.g
        ctx.store[(g.oid, "removed_all")] = z3.IntVal(0)
        st = self.st
        for nm in ("primed", "refresh_all_bindings", "selective_repoint_bindings"):
            ctx.store[(st.oid, nm)] = z3.Bool(nm + "0")
        ctx.store[(st.oid, "resume_position_plus_one")] = z3.Int("resume0")
        for nm in ("membership_changed_keys", "repoint_modified_keys", "evaluation_slots", "child_schedule_queue"):
            ctx.store[(st.oid, nm)] = Wild(name=nm)
        st.m_unsubscribe_keys_noexcept = lambda I_2, a, n: VOID
        cx = Obj("MapNodeContext", "context")
        mv = Obj("MapNodeView", "map_view")
        mv.m_internal_context = lambda I_2, a, n: Ptr(cx)
        mv.m_internal_storage = lambda I_2, a, n: Ptr(st)
        self.view.m_as = lambda I_2, a, n: mv
        return None, {"view": self.view, "evaluation_time": self.T}

    def f_cast(self, I, args, n):
        return I.ctx.rv(args[0])

    def f_remove_all_entries(self, I, args, n):
        """contract proved by RemoveAllEntries: every started child is stopped exactly once (the first failure is rethrown
        after all of them had their attempt)"""
        ctx = I.ctx
        a = [ctx.rv(x) for x in args]
        ctx.oblige("callee-pre.remove_all_entries:on-this-node's-storage,without-publishing-erases",
                   z3.BoolVal(a[2] is self.st and isinstance(a[3], Ptr) and a[3].target is None), kind="callee-pre")
        ctx.write(Loc((self.g.oid, "removed_all")), self.gg(ctx, "removed_all") + 1)
        ctx.write(Loc((self.g.oid, "started")), z3.K(I_, z3.BoolVal(False)))
        if ctx.choose(2, "remove_all_entries outcome") == 1:
            I.throw_from_callee("child.stop")
        return VOID

    def post(self, I, ret):
        ctx = I.ctx
        ctx.oblige("ensures.every-started-child-stopped[C14 dynamically created children are stopped no later than the return of the "
                   "run, whatever state the map is in]", z3.And(self.gg(ctx, "removed_all") == 1,
                                                                 z3.ForAll([qs], z3.Not(self.gg(ctx, "started")[qs]))), kind="post-normal")
        ctx.oblige("ensures.evaluation-state-reset", z3.And(z3.Not(ctx.store[(self.st.oid, "primed")]),
                                                            ctx.store[(self.st.oid, "resume_position_plus_one")] == 0), kind="post-normal")

    def post_exc(self, I, exc):
        ctx = I.ctx
        ctx.oblige("raises.only-a-child-stop-failure,after-every-child-had-its-attempt[C14]", z3.And(
            z3.BoolVal(exc.origin == "child.stop"), self.gg(ctx, "removed_all") == 1), kind="post-exceptional")


KERNELS.append(MapNodeStop)


# ------------------------------------------------------------------ try_except_node.cpp write_try_except_error (C15)


class TryErrTarget(Obj):
    cls = "TSOutputView(exception)"

    def __init__(self, k, where):
        Obj.__init__(self, name="exception_output")
        self.k, self.where = k, where

    def m_begin_mutation(self, I, args, n):
        return ErrChildMutation(self.k, z3.IntVal(self.where), I.ctx.rv(args[0]))

    def m_valid(self, I, args, n):
        return I.ctx.fresh("exception_output_valid", "bool")

    def m_value(self, I, args, n):
        return ErrCurrent()

    def m_as_bundle(self, I, args, n):
        k = self.k
        b = Obj("bundle", "bundle")
        b.m_field = lambda I_, a, n_: TryErrTarget(k, 1)
        return b


class WriteTryExceptError(WriteMapError):
    tu = "src/hgraph/runtime/try_except_node.cpp"
    name = "try_except_node.cpp:write_try_except_error"
    fn_name = "write_try_except_error"
    filter = "write_try_except_error"
    property_ids = ("C15",)
    title = "write_try_except_error: exactly one error tick in this cycle on the exception output, carrying the message"

    def setup(self, I):
        ctx = I.ctx
        self.T = z3.Int("evaluation_time")
        self.msg = z3.Int("error_msg")
        self.key = z3.IntVal(0)
        self.failed_id, self.view_id = z3.Int("failed_node_id"), z3.Int("try_except_node_id")
        self.failed_valid = z3.Bool("failed_node_valid")
        self.is_tsb, self.out_schema_null = z3.Bool("output_is_a_bundle"), z3.Bool("output_schema_null")
        g = Obj("ghost", "tg")
        self.g = g
        ctx.store[(g.oid, "w_count")] = z3.IntVal(0)
        for nm in ("w_key", "w_t", "w_msg", "w_node", "dict_mut_t", "out_t"):
            ctx.store[(g.oid, nm)] = z3.IntVal(-9)
        k = self
        view = NodeRef(self.view_id, z3.BoolVal(True))
        sch = Obj("NodeTypeMetaData", "schema")
        osch = Obj("TSValueTypeMetaData", "output_schema")
        ctx.store[(osch.oid, "kind")] = z3.If(self.is_tsb, z3.IntVal(6), z3.IntVal(1))
        ctx.store[(sch.oid, "output_schema")] = Ptr(osch, self.out_schema_null)
        ctx.store[(sch.oid, "error_capture")] = Wild(name="options")
        self.schema_null = z3.Bool("schema_null")
        view.m_schema = lambda I_, a, n_: Ptr(sch, k.schema_null)

        def output(I_, a, n_):
            I_.ctx.write(Loc((g.oid, "out_t")), I_.ctx.rv(a[0]))
            return TryErrTarget(k, 0)
        view.m_output = output
        self.view = view
        return None, {"view": view, "failed_node": NodeRef(self.failed_id, self.failed_valid), "evaluation_time": self.T,
                      "error_msg": self.msg}

    def enum_const(self, I, ref):
        if ref.get("name") == "TSB":
            return z3.IntVal(6)
        raise Gap("enum constant %s" % ref.get("name"))

    def post(self, I, ret):
        ctx = I.ctx
        g = lambda nm: ctx.store[(self.g.oid, nm)]
        bundle = z3.And(z3.Not(self.schema_null), z3.Not(self.out_schema_null), self.is_tsb)
        ctx.oblige("ensures.exactly-one-error-tick-in-this-cycle-on-the-exception-output-with-the-message[C15 exactly one error tick in "
                   "that same cycle carrying the exception's message, also when the same error repeats]",
                   z3.And(g("w_count") == 1, g("w_t") == self.T, g("w_msg") == self.msg, g("out_t") == self.T,
                          g("w_key") == z3.If(bundle, 1, 0)), kind="post-normal")
        ctx.oblige("ensures.the-error-names-the-failing-node-when-known[C14/C15 naming the failing node]",
                   g("w_node") == z3.If(self.failed_valid, self.failed_id, self.view_id), kind="post-normal")


KERNELS.append(WriteTryExceptError)


# ------------------------------------------------------------------ key-set reconciliation (C10: children mirror the live keys)
#
# keys_set: per slot live(s) / occupied(s); the entry store: per slot entry_null(s), has_graph(s), started(s).
# Mirror: after reconciliation a child is started in slot s  <=>  s is a live key slot.


class KeysSet(Obj):
    cls = "TSSDataView(keys)"

    def __init__(self, k):
        Obj.__init__(self, name="keys_set")
        self.k = k

    def m_slot_capacity(self, I, a, n):
        return self.k.kcap

    def m_slot_live(self, I, a, n):
        return self.k.key_live[I.ctx.rv(a[0])]

    def m_at_slot(self, I, a, n):
        return KeyOf(self.k, I.ctx.rv(a[0]))


class ReconEntries(Obj):
    cls = "InPlaceGraphSlotStore"

    def __init__(self, k):
        Obj.__init__(self, name="entries")
        self.k = k

    def m_slot_capacity(self, I, a, n):
        return self.k.gg(I.ctx, "ecap")

    def m_reserve_to(self, I, a, n):
        ctx = I.ctx
        v = ctx.rv(a[0])
        old = self.k.gg(ctx, "ecap")
        ctx.write(Loc((self.k.g.oid, "ecap")), z3.If(v > old, v, old))
        return VOID

    def m_entry_at(self, I, a, n):
        s = I.ctx.rv(a[0])
        return Ptr(ReconEntry(self.k, s), self.k.gg(I.ctx, "enull")[s])


class ReconEntry(Obj):
    cls = "MapKeyEntry"

    def __init__(self, k, slot):
        Obj.__init__(self, name="entry")
        self.k, self.slot = k, slot

    def member(self, ctx, name, node):
        if name == "graph":
            return ReconGraph(self.k, self.slot)
        raise Gap("entry member %s" % name)


class ReconGraph(Obj):
    cls = "GraphValue(child)"

    def __init__(self, k, slot):
        Obj.__init__(self, name="child_graph")
        self.k, self.slot = k, slot

    def m_has_value(self, I, a, n):
        return self.k.gg(I.ctx, "hasg")[self.slot]

    def m_view(self, I, a, n):
        o = Obj("GraphView", "child")
        o.m_started = lambda I_, a_, n_: self.k.gg(I_.ctx, "started")[self.slot]
        return o


class ReconcileCompatibleKeySource(MapKernel):
    name = "map_node.cpp:reconcile_compatible_key_source"
    fn_name = "reconcile_compatible_key_source"
    filter = "reconcile_compatible_key_source"
    property_ids = ("C10",)
    title = "reconcile_compatible_key_source: afterwards a child is started in a slot exactly when the slot holds a live key"

    def setup(self, I):
        ctx = I.ctx
        self.base(I)
        g = self.g
        self.kcap = z3.Int("keys_slot_capacity")
        self.key_live = z3.Array("key_slot_live", I_, B_)
        self.ecap0 = z3.Int("entries_slot_capacity0")
        ctx.assume(z3.And(self.kcap >= 0, self.ecap0 >= 0))
        ctx.assume(z3.ForAll([qs], z3.Implies(self.key_live[qs], z3.And(qs >= 0, qs < self.kcap))))
        self.enull0, self.hasg0 = z3.Array("entry_null0", I_, B_), z3.Array("entry_has_graph0", I_, B_)
        ctx.assume(z3.ForAll([qs], z3.And(z3.Implies(z3.Not(self.enull0[qs]), z3.And(qs >= 0, qs < self.ecap0)),
                                          z3.Implies(self.started0[qs], z3.And(z3.Not(self.enull0[qs]), self.hasg0[qs])))))
        ctx.store[(g.oid, "ecap")] = self.ecap0
        ctx.store[(g.oid, "enull")] = self.enull0
        ctx.store[(g.oid, "hasg")] = self.hasg0
        ctx.store[(g.oid, "creates")] = z3.K(I_, z3.IntVal(0))
        ctx.store[(g.oid, "removes")] = z3.K(I_, z3.IntVal(0))
        ctx.store[(self.st.oid, "entries")] = ReconEntries(self)
        cx = Obj("MapNodeContext", "context")
        return None, {"view": self.view, "context": cx, "storage": self.st, "keys_set": KeysSet(self), "evaluation_time": self.T}

    # callees
    def f_begin_map_output_mutation(self, I, a, n):
        return Opt(I.ctx.fresh("has_output_mutation", "bool"), Obj("TSDDataMutationView", "output_mutation"))

    f_begin_map_error_mutation = f_begin_map_output_mutation

    def f_remove_entry_at_slot(self, I, a, n):
        """contract (RemoveAllEntries executes the real body in place): the slot's child is stopped if it was started; a child
        stop failure propagates"""
        ctx = I.ctx
        s = ctx.rv(a[5])
        ctx.write(Loc((self.g.oid, "removes")), z3.Store(self.gg(ctx, "removes"), s, self.gg(ctx, "removes")[s] + 1))
        ctx.write(Loc((self.g.oid, "started")), z3.Store(self.gg(ctx, "started"), s, False))
        if ctx.choose(2, "remove_entry_at_slot outcome") == 1:
            I.throw_from_callee("child.stop")
        return VOID

    def f_create_entry_at_slot(self, I, a, n):
        """contract proved by CreateEntryAtSlot: on success the slot holds a constructed, started child; on failure nothing is
        left started in that slot"""
        ctx = I.ctx
        s = ctx.rv(a[5])
        ctx.oblige("callee-pre.create_entry_at_slot:only-for-a-live-key-slot", self.key_live[s], kind="callee-pre")
        ctx.write(Loc((self.g.oid, "creates")), z3.Store(self.gg(ctx, "creates"), s, self.gg(ctx, "creates")[s] + 1))
        if ctx.choose(2, "create_entry_at_slot outcome") == 1:
            ctx.write(Loc((self.g.oid, "started")), z3.Store(self.gg(ctx, "started"), s, False))
            I.throw_from_callee("create_entry_at_slot")
        for nm, val in (("enull", False), ("hasg", True), ("started", True)):
            ctx.write(Loc((self.g.oid, nm)), z3.Store(self.gg(ctx, nm), s, val))
        old = self.gg(ctx, "ecap")
        ctx.write(Loc((self.g.oid, "ecap")), z3.If(s + 1 > old, s + 1, old))
        return VOID

    def common_inv(self, ctx):
        enull, hasg, started = self.gg(ctx, "enull"), self.gg(ctx, "hasg"), self.gg(ctx, "started")
        yield "entries-inside-the-store;started=>constructed", z3.ForAll([qs], z3.And(
            z3.Implies(z3.Not(enull[qs]), z3.And(qs >= 0, qs < self.gg(ctx, "ecap"))),
            z3.Implies(started[qs], z3.And(z3.Not(enull[qs]), hasg[qs]))))

    def inv_remove(self, I, ctx):
        s = self.local(I, "slot")
        started = self.gg(ctx, "started")
        yield from self.common_inv(ctx)
        yield "slot-range", z3.And(s >= 0, s <= self.gg(ctx, "ecap"), self.gg(ctx, "ecap") == self.ecap0,
                                   self.gg(ctx, "enull") == self.enull0)
        yield "no-child-left-started-in-a-dead-slot-below-the-cursor[C10]", z3.ForAll([qs], z3.And(
            z3.Implies(z3.And(qs >= 0, qs < s, z3.Not(self.key_live[qs])), z3.Not(started[qs])),
            z3.Implies(z3.Or(qs >= s, self.key_live[qs]), started[qs] == self.started0[qs])))

    def inv_create(self, I, ctx):
        s = self.local(I, "slot")
        started = self.gg(ctx, "started")
        yield from self.common_inv(ctx)
        yield "slot-range", z3.And(s >= 0, s <= self.kcap)
        yield "dead-slots-have-no-started-child[C10]", z3.ForAll([qs], z3.Implies(z3.Not(self.key_live[qs]), z3.Not(started[qs])))
        yield "live-slots-below-the-cursor-have-a-started-child[C10]", z3.ForAll([qs], z3.Implies(
            z3.And(qs >= 0, qs < s, self.key_live[qs]), started[qs]))

    def frame(self, I, ctx):
        return [Loc((self.g.oid, nm)) for nm in ("started", "enull", "hasg", "ecap", "creates", "removes")]

    @property
    def loops(self):
        return {0: LoopSpec(self.inv_remove, self.frame), 1: LoopSpec(self.inv_create, self.frame)}

    def post(self, I, ret):
        ctx = I.ctx
        started = self.gg(ctx, "started")
        ctx.oblige("ensures.a-child-is-started-in-a-slot<=>the-slot-holds-a-live-key[C10 the set of children follows the key set: "
                   "removed keys' children are stopped, new keys get a child]",
                   z3.ForAll([qs], started[qs] == self.key_live[qs]), kind="post-normal")

    def post_exc(self, I, exc):
        I.ctx.oblige("raises.only-a-child-lifecycle-failure", z3.BoolVal(exc.origin in ("child.stop", "create_entry_at_slot")),
                     kind="post-exceptional")


KERNELS.append(ReconcileCompatibleKeySource)


class CreateEntries(ReconEntries):
    def m_construct_at(self, I, a, n):
        ctx = I.ctx
        s = ctx.rv(a[0])
        k = self.k
        ctx.oblige("callee-pre.construct_at:slot-free-and-inside-the-store", z3.And(k.gg(ctx, "enull")[s], s < k.gg(ctx, "ecap")),
                   kind="callee-pre")
        ctx.write(Loc((k.g.oid, "enull")), z3.Store(k.gg(ctx, "enull"), s, False))
        ctx.write(Loc((k.g.oid, "hasg")), z3.Store(k.gg(ctx, "hasg"), s, False))
        ctx.write(Loc((k.g.oid, "constructed_key")), getattr(ctx.rv(a[1]), "slot", z3.IntVal(-3)))
        return CreateEntry(k, s)

    def m_destroy_at(self, I, a, n):
        ctx = I.ctx
        s = ctx.rv(a[0])
        ctx.write(Loc((self.k.g.oid, "enull")), z3.Store(self.k.gg(ctx, "enull"), s, True))
        ctx.write(Loc((self.k.g.oid, "destroyed")), self.k.gg(ctx, "destroyed") + 1)
        return VOID

    def m_graph_memory(self, I, a, n):
        return Obj("memory", "graph_memory")

    def m_entry_at(self, I, a, n):
        s = I.ctx.rv(a[0])
        return Ptr(CreateEntry(self.k, s), self.k.gg(I.ctx, "enull")[s])


class CreateEntry(Obj):
    cls = "MapKeyEntry"

    def __init__(self, k, slot):
        Obj.__init__(self, name="entry")
        self.k, self.slot = k, slot

    def member(self, ctx, name, node):
        k, s = self.k, self.slot
        if name == "graph":
            return CreateGraph(k, s)
        if name == "key":
            return KeyOf(k, s)
        if name == "key_source":
            ks = Obj("MappedKeySource", "key_source")
            ks.m_bind = lambda I_, a, n: VOID
            ks.m_bound = lambda I_, a, n: I_.ctx.fresh("key_source_bound", "bool")
            ks.m_view = lambda I_, a, n: Wild(name="key_source_view")
            return ks
        if name == "schedule_context":
            return Loc((k.g.oid, "sched_ctx"))
        raise Gap("entry member %s" % name)


class CreateGraph(Obj):
    cls = "GraphValue(child)"

    def __init__(self, k, slot):
        Obj.__init__(self, name="child_graph")
        self.k, self.slot = k, slot

    def m_has_value(self, I, a, n):
        return self.k.gg(I.ctx, "hasg")[self.slot]

    def op(self, I, op, rest, n, a0):
        if op == "=":       # entry.graph = make_nested_graph(...)
            ctx = I.ctx
            ctx.write(Loc((self.k.g.oid, "hasg")), z3.Store(self.k.gg(ctx, "hasg"), self.slot, True))
            ctx.write(Loc((self.k.g.oid, "made")), self.k.gg(ctx, "made") + 1)
            return self
        return NotImplemented

    def m_view(self, I, a, n):
        k, s = self.k, self.slot
        o = Obj("GraphView", "child")
        o.m_started = lambda I_, a_, n_: k.gg(I_.ctx, "started")[s]

        def start(I_, a_, n_):
            c = I_.ctx
            c.oblige("callee-pre.child.start:constructed,not-started,at-the-cycle-time", z3.And(
                k.gg(c, "hasg")[s], z3.Not(k.gg(c, "started")[s]), c.rv(a_[0]) == k.T), kind="callee-pre")
            c.write(Loc((k.g.oid, "starts")), k.gg(c, "starts") + 1)
            if c.choose(2, "child.start outcome") == 1:
                I_.throw_from_callee("child.start")
            c.write(Loc((k.g.oid, "started")), z3.Store(k.gg(c, "started"), s, True))
            return VOID
        o.m_start = start

        def stop(I_, a_, n_):
            c = I_.ctx
            c.write(Loc((k.g.oid, "started")), z3.Store(k.gg(c, "started"), s, False))
            c.write(Loc((k.g.oid, "rollback_stops")), k.gg(c, "rollback_stops") + 1)
            return VOID
        o.m_stop = stop

        def observer(I_, a_, n_):
            c = I_.ctx
            tgt = c.rv(a_[1])
            c.write(Loc((k.g.oid, "observer_on_this_entry")), z3.BoolVal(isinstance(tgt, Ptr) and isinstance(tgt.target, Loc)
                                                                       and tgt.target.key == (k.g.oid, "sched_ctx")))
            return VOID
        o.m_set_child_schedule_observer = observer
        return o


class SchedCtxVal(Obj):
    cls = "MapChildScheduleContext"

    def __init__(self, storage_ok, slot):
        Obj.__init__(self, name="schedule_context_value")
        self.storage_ok, self.slot = storage_ok, slot


class CreateEntryAtSlot(MapKernel):
    name = "map_node.cpp:create_entry_at_slot"
    fn_name = "create_entry_at_slot"
    filter = "create_entry_at_slot"
    property_ids = ("C10", "C14")
    title = "create_entry_at_slot: a live key's slot gets a constructed, started child wired to this map's schedule heap; a " \
            "failure leaves nothing started"

    def setup(self, I):
        ctx = I.ctx
        self.base(I)
        g = self.g
        self.slot = z3.Int("slot")
        self.ecap0 = z3.Int("entries_slot_capacity0")
        self.enull0, self.hasg0 = z3.Array("entry_null0", I_, B_), z3.Array("entry_has_graph0", I_, B_)
        ctx.assume(z3.And(self.slot >= 0, self.ecap0 >= 0))
        ctx.assume(z3.ForAll([qs], z3.And(z3.Implies(z3.Not(self.enull0[qs]), z3.And(qs >= 0, qs < self.ecap0)),
                                          z3.Implies(self.started0[qs], z3.And(z3.Not(self.enull0[qs]), self.hasg0[qs])))))
        for nm, v in (("ecap", self.ecap0), ("enull", self.enull0), ("hasg", self.hasg0), ("made", z3.IntVal(0)),
                      ("starts", z3.IntVal(0)), ("rollback_stops", z3.IntVal(0)), ("destroyed", z3.IntVal(0)),
                      ("constructed_key", z3.IntVal(-9)), ("observer_on_this_entry", z3.BoolVal(False)),
                      ("sampled", z3.IntVal(0)), ("sched_ctx", SchedCtxVal(z3.BoolVal(False), z3.IntVal(-9)))):
            ctx.store[(g.oid, nm)] = v
        ctx.store[(self.st.oid, "entries")] = CreateEntries(self)
        cx = Obj("MapNodeContext", "context")
        spec = Obj("MapNodeSpec", "spec")
        child = Obj("child_spec", "child_spec")
        gbuild = Obj("GraphBuilder", "graph_builder")
        gbuild.m_make_nested_graph = lambda I_, a, n: Obj("GraphValue", "new_child_graph")
        ctx.store[(child.oid, "graph_builder")] = gbuild
        ctx.store[(child.oid, "output_binding")] = Wild(name="output_binding")
        ctx.store[(child.oid, "input_bindings")] = Wild(name="input_bindings")
        ctx.store[(spec.oid, "child")] = child
        ctx.store[(spec.oid, "key_output_schema")] = Ptr(Obj("schema", "key_output_schema"), z3.Bool("key_output_schema_null"))
        ctx.store[(spec.oid, "output_binding_mode")] = z3.Int("output_binding_mode")
        ctx.store[(cx.oid, "spec")] = spec
        ctx.store[(cx.oid, "access")] = Wild(name="access")
        ctx.store[(cx.oid, "graph_layout")] = Wild(name="graph_layout")
        self.kcap = z3.Int("keys_slot_capacity")
        self.key_live = z3.Array("key_slot_live", I_, B_)
        self.view.m_pointer = lambda I_, a, n: Ptr(Obj("node", "node_pointer"))
        self.out_null = z3.Bool("output_mutation_null")
        om = Obj("TSDDataMutationView", "output_mutation")
        ctx.store[(g.oid, "out_created_key")] = z3.IntVal(-9)
        ctx.store[(g.oid, "out_erased_key")] = z3.IntVal(-9)

        def om_erase(I_, a, n):
            kv = I_.ctx.rv(a[0])
            I_.ctx.write(Loc((g.oid, "out_erased_key")), getattr(kv, "slot", z3.IntVal(-3)))
            return I_.ctx.fresh("erased", "bool")

        def om_index(I_, op, rest, n, a0):
            kv = I_.ctx.rv(rest[0])
            I_.ctx.write(Loc((g.oid, "out_created_key")), getattr(kv, "slot", z3.IntVal(-3)))
            return Wild(name="output_element")
        om.m_erase = om_erase
        om.op = om_index
        return None, {"view": self.view, "context": cx, "storage": self.st, "output_mutation": Ptr(om, self.out_null),
                      "keys_set": KeysSet(self), "slot": self.slot, "evaluation_time": self.T}

    def f_graph_local_value(self, I, a, n):
        return I.ctx.rv(a[0])

    def f_max(self, I, a, n):
        x, y = I.ctx.rv(a[0]), I.ctx.rv(a[1])
        return z3.If(x > y, x, y)

    def f_clear_entry_output_binding(self, I, a, n):
        return VOID

    def f_bind_mapped_child_inputs(self, I, a, n):
        if I.ctx.choose(2, "bind_mapped_child_inputs outcome") == 1:
            I.throw_from_callee("bind_mapped_child_inputs")
        return VOID

    def f_bind_mapped_child_output(self, I, a, n):
        return VOID

    def f_schedule_sampled_input_consumers(self, I, a, n):
        I.ctx.write(Loc((self.g.oid, "sampled")), self.gg(I.ctx, "sampled") + 1)
        if I.ctx.choose(2, "schedule_sampled_input_consumers outcome") == 1:
            I.throw_from_callee("schedule_sampled_input_consumers")      # scheduling may be refused (graph.cpp)
        return VOID

    def ctor_handler(self, qt, node):
        if qt.endswith("MapChildScheduleContext"):
            def mk(I, args, n):
                a = [I.ctx.rv(x) for x in args]
                if len(a) == 1 and isinstance(a[0], SchedCtxVal):
                    return a[0]
                ok = z3.BoolVal(len(a) >= 2 and isinstance(a[0], Ptr) and a[0].target is self.st)
                return SchedCtxVal(ok, a[1] if len(a) >= 2 else z3.IntVal(-9))
            return mk
        if qt.endswith("TSOutputView") or qt.endswith("Value") or qt.endswith("ValueView"):
            return lambda I, args, n: (I.ctx.rv(args[0]) if args else Wild(name="empty_view"))
        return Kernel.ctor_handler(self, qt, node)

    def global_var(self, I, ref, node):
        if ref.get("name") == "nullopt":
            return Wild(name="nullopt")
        return None

    def post(self, I, ret):
        ctx = I.ctx
        s = self.slot
        started, enull, hasg = self.gg(ctx, "started"), self.gg(ctx, "enull"), self.gg(ctx, "hasg")
        sc = self.gg(ctx, "sched_ctx")
        already = z3.And(z3.Not(self.enull0[s]), self.hasg0[s], self.started0[s])
        ctx.oblige("ensures.the-slot-holds-a-constructed,started-child[C10 a new key gets its own child, started at the cycle time]",
                   z3.And(z3.Not(enull[s]), hasg[s], started[s], s < self.gg(ctx, "ecap")), kind="post-normal")
        ctx.oblige("ensures.an-already-running-child-is-left-alone;otherwise-started-once,sampled-once,and-wired-to-this-map's-heap"
                   "[C10 EntryInv: schedule_context = (this storage, this slot)]", z3.If(already,
                       z3.And(self.gg(ctx, "starts") == 0, self.gg(ctx, "made") == 0),
                       z3.And(self.gg(ctx, "starts") == 1, self.gg(ctx, "sampled") == 1, self.gg(ctx, "made") == z3.If(
                           z3.And(z3.Not(self.enull0[s]), self.hasg0[s]), 0, 1),
                           z3.BoolVal(isinstance(sc, SchedCtxVal)), (sc.storage_ok if isinstance(sc, SchedCtxVal) else z3.BoolVal(False)),
                           (sc.slot if isinstance(sc, SchedCtxVal) else z3.IntVal(-9)) == s, self.gg(ctx, "observer_on_this_entry"))),
                   kind="post-normal")
        ctx.oblige("ensures.a-map-with-an-output-instantiates-the-output-element-of-exactly-this-key[C10 the output key set follows the "
                   "key set]", z3.Implies(z3.And(z3.Not(already), z3.Not(self.out_null)), self.gg(ctx, "out_created_key") == s),
                   kind="post-normal")
        ctx.oblige("ensures.a-new-entry-is-keyed-by-the-key-in-that-slot;other-slots-untouched[C10 isolation]", z3.And(
            z3.Implies(self.enull0[s], self.gg(ctx, "constructed_key") == s),
            z3.ForAll([qs], z3.Implies(qs != s, z3.And(started[qs] == self.started0[qs], enull[qs] == self.enull0[qs],
                                                       hasg[qs] == self.hasg0[qs])))), kind="post-normal")

    def post_exc(self, I, exc):
        ctx = I.ctx
        s = self.slot
        ctx.oblige("raises.a-failed-creation-leaves-no-started-child-in-the-slot,and-a-new-entry-is-destroyed[C14 a failed start "
                   "stops what was started; C10 failures of one key do not leak]", z3.And(
                       z3.Not(self.gg(ctx, "started")[s]), z3.Implies(self.enull0[s], self.gg(ctx, "enull")[s]),
                       z3.ForAll([qs], z3.Implies(qs != s, self.gg(ctx, "started")[qs] == self.started0[qs]))), kind="post-exceptional")


KERNELS.append(CreateEntryAtSlot)



class RemoveEntryAtSlot(MapKernel):
    name = "map_node.cpp:remove_entry_at_slot"
    fn_name = "remove_entry_at_slot"
    filter = "remove_entry_at_slot"
    property_ids = ("C10",)
    title = "remove_entry_at_slot: the removed key's child is stopped, its pulled deadline forgotten, its output and error elements erased"

    def setup(self, I):
        ctx = I.ctx
        self.base(I)
        g = self.g
        self.slot = z3.Int("slot")
        ctx.assume(self.slot >= 0)
        self.out_null, self.err_null, self.err_has = z3.Bool("output_mutation_null"), z3.Bool("error_mutation_null"), z3.Bool("error_dict_has_key")
        for nm in ("out_erased_key", "err_erased_key", "cleared_binding"):
            ctx.store[(g.oid, nm)] = z3.IntVal(-9)
        ctx.store[(g.oid, "pulled_when")] = z3.Array("pulled_when0", I_, I_)
        ents = Obj("InPlaceGraphSlotStore", "entries")
        k = self
        ents.m_entry_at = lambda I_, a, n: k.entry_ptr(I_.ctx.rv(a[0]))
        ctx.store[(self.st.oid, "entries")] = ents

        def mut(nm, has):
            o = Obj("TSDDataMutationView", nm)

            def erase(I_, a, n):
                kv = I_.ctx.rv(a[0])
                I_.ctx.write(Loc((g.oid, nm + "_erased_key")), getattr(kv, "slot", z3.IntVal(-3)))
                return I_.ctx.fresh("erased", "bool")
            o.m_erase = erase
            o.m_contains = lambda I_, a, n: has
            return o
        cx = Obj("MapNodeContext", "context")
        return None, {"view": self.view, "context": cx, "storage": self.st, "output_mutation": Ptr(mut("out", z3.BoolVal(True)), self.out_null),
                      "error_mutation": Ptr(mut("err", self.err_has), self.err_null), "slot": self.slot, "evaluation_time": self.T}

    def f_clear_entry_output_binding(self, I, a, n):
        e = I.ctx.rv(a[2])
        I.ctx.write(Loc((self.g.oid, "cleared_binding")), getattr(e, "slot", z3.IntVal(-3)))
        return VOID

    def post(self, I, ret):
        ctx = I.ctx
        s = self.slot
        live = z3.Not(self.entry_null[s])
        started, stops = self.gg(ctx, "started"), self.gg(ctx, "stops")
        ctx.oblige("ensures.the-key's-child-is-stopped-once-if-it-ran,its-pulled-deadline-forgotten[C10 a removed key's child stops]",
                   z3.Implies(live, z3.And(z3.Not(started[s]), stops[s] == z3.If(self.started0[s], 1, 0),
                                           self.gg(ctx, "pulled_when")[s] == MAX_DT)), kind="post-normal")
        ctx.oblige("ensures.the-key's-output-element-is-erased(or-its-binding-cleared),and-its-error-element-if-present[C10 the output "
                   "key set follows the key set]", z3.Implies(live, z3.And(
                       z3.If(self.out_null, self.gg(ctx, "cleared_binding") == s, self.gg(ctx, "out_erased_key") == s),
                       z3.Implies(z3.And(z3.Not(self.err_null), self.err_has), self.gg(ctx, "err_erased_key") == s))), kind="post-normal")
        ctx.oblige("ensures.no-entry=>nothing-happens;other-children-untouched[C10 isolation]", z3.And(
            z3.Implies(z3.Not(live), z3.And(self.gg(ctx, "out_erased_key") == -9, stops == z3.K(I_, z3.IntVal(0)))),
            z3.ForAll([qs], z3.Implies(qs != s, z3.And(started[qs] == self.started0[qs], stops[qs] == 0)))), kind="post-normal")

    def post_exc(self, I, exc):
        I.ctx.oblige("raises.only-a-child-stop-failure", z3.BoolVal(exc.origin == "child.stop"), kind="post-exceptional")


KERNELS.append(RemoveEntryAtSlot)



# ------------------------------------------------------------------ bounded stand-in: map_ equals the function run per key
#
# The kernels above cover reconciliation, slot selection, scheduling and teardown function by function.  The pieces between
# them that are bit-twiddling or ops-table code (materialize_map_evaluation_slots' word scan, input binding, output
# publication) are exercised by running the real map_ over enumerated key histories against the per-key oracle.


class MapEnumeration(NativeCheck):
    kid = "native:c10_map"
    property_ids = ("C10",)
    source = "native/bounded/c10_map.cpp"
    title = "the tick stream of map_(f, dict) equals running f independently per key (f counts its own evaluations)"
    bound_text = ("bounded: eval_node<map_>(KeyCounter, TSD<Int,TS<Int>>) with f(key, ts) = key*10^6 + ts*100 + evaluations of this "
                  "instance, compared per cycle (Value::equals on the output delta) with the per-key oracle.  quick: every history "
                  "of 3 cycles over 3 keys (per key and cycle nothing / set / remove-if-live: 19 683), the sparse-slot family for "
                  "N = 70 and 130 keys (all but a subset of {0, 63, 64, N-1} removed, every subset of the survivors ticking, then "
                  "new keys: 2 x 80), 2 000 random histories of 4 cycles over 6 keys; explicit __keys__ next to one multiplexed dictionary "
                  "over 2 keys (per key and cycle: key-set op x dictionary op): every history of 2 cycles (6 561) and 3 000 random ones of "
                  "4 cycles, empty ticks not compared; thorough: 4 cycles over 3 keys (531 441, "
                  "16 shards), 50 000 random histories of 6 cycles, explicit keys: every history of 3 cycles (531 441) and 30 000 of 5")
    functions = ("map_node.cpp: map_evaluate_impl / map_reconcile_keys / prepare_map_evaluation_slots / "
                 "materialize_map_evaluation_slots / create_entry_at_slot / remove_entry_at_slot (whole node)",
                 "higher_order_impl.h: map_ wiring", "nested graph child evaluation and output forwarding")

    def runs(self, tier):
        if tier == "thorough":
            return [(["small", "4"], {"SHARD": "%d/16" % i}) for i in range(16)] + [(["random", "6", "50000", "9"], {}),
                                                                                    (["sparse", "70"], {}), (["sparse", "130"], {}),
                                                                                    (["sparse", "200"], {})] + \
                [(["keys", "3"], {"SHARD": "%d/16" % i}) for i in range(16)] + [(["keys", "5", "30000", "5"], {})]
        return [(["small", "3"], {"SHARD": "%d/4" % i}) for i in range(4)] + [(["sparse", "70"], {}), (["sparse", "130"], {}),
                                                                             (["random", "4", "2000", "3"], {})] + \
            [(["keys", "2"], {"SHARD": "%d/2" % i}) for i in range(2)] + [(["keys", "4", "3000", "11"], {})]


NATIVE = globals().get("NATIVE", []) + [MapEnumeration]
