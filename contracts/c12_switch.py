"""C12 -- switch_node.cpp as a two-slot state machine.

SW = (gstate[2] in {0 empty, 1 constructed, 2 started, 3 stopped}, gen[2], active_slot?, previous_slot?, active_key?,
      active_spec?), ghost generation counter next_gen.
SWInv:  slots are 0/1;  active_slot = a  =>  gstate[a] = 2 and the other slot is empty or stopped;
        no active slot => no started graph;  previous_slot = p  =>  gstate[p] = 3 and p != active.
"""
import z3

from cxxvc.kernel import Kernel, LoopSpec, Lemma
from cxxvc.interp import Obj, Ptr, Loc, ArrLoc, Opt, Gap, MAX_DT, ExcVal, VOID, ThrowEx
from cxxvc import extract, models
from cxxvc.models import Vec

TU = "src/hgraph/runtime/switch_node.cpp"
I_ = z3.IntSort()
qk, qs = z3.Ints("qk qs")


class KeyVal(Obj):
    """hgraph::Value used as a switch key: (has, id)"""
    cls = "Value"
    is_value = True

    def __init__(self, has, kid):
        Obj.__init__(self, name="key")
        self.has, self.kid = has, kid

    def havoc(self, ctx, name):
        return KeyVal(ctx.fresh(name + "_has", "bool"), ctx.fresh(name + "_id"))

    def m_has_value(self, I, args, n):
        return self.has

    def m_equals(self, I, args, n):
        o = I.ctx.rv(args[0])
        return z3.And(self.has, o.has, self.kid == o.kid)

    def m_to_string(self, I, args, n):
        return I.ctx.fresh("key_str")


class SpecObj(Obj):
    cls = "SingleNestedGraphNodeSpec"

    def __init__(self, k, sid):
        Obj.__init__(self, name="spec")
        self.k, self.sid = k, sid

    def same_as(self, other):
        return self.sid == other.sid

    def member(self, ctx, name, node):
        if name == "graph_builder":
            return GraphBuilderObj(self.k, self.sid)
        if name == "input_bindings":
            return Obj("bindings", "input_bindings")
        raise Gap("spec member %s" % name)


class GraphBuilderObj(Obj):
    cls = "GraphBuilder"

    def __init__(self, k, sid):
        Obj.__init__(self, name="graph_builder")
        self.k, self.sid = k, sid

    def m_make_nested_graph(self, I, args, n):
        ctx = I.ctx
        k = self.k
        g = ctx.store[(k.g.oid, "next_gen")]
        ctx.write(Loc((k.g.oid, "next_gen")), g + 1)
        return NewGraph(g, self.sid)


class NewGraph(Obj):
    """a freshly made GraphValue (not yet stored in a slot)"""
    cls = "GraphValue(new)"

    def __init__(self, gen, sid):
        Obj.__init__(self, name="new_graph")
        self.gen, self.sid = gen, sid


class EmptyGraph(Obj):
    cls = "GraphValue(empty)"


class BranchObj(Obj):
    cls = "SwitchBranch"

    def __init__(self, k, idx):
        Obj.__init__(self, name="branch")
        self.k, self.idx = k, idx

    def member(self, ctx, name, node):
        if name == "key":
            return KeyVal(z3.BoolVal(True), self.k.bkey[self.idx])
        if name == "spec":
            return SpecObj(self.k, self.idx)
        raise Gap("branch member %s" % name)


class SlotRef:
    """storage.graphs[slot]: assignable GraphValue slot"""

    def __init__(self, k, slot):
        self.k, self.slot = k, slot

    def op(self, I, op, rest, n, a0):
        if op == "=":
            return self.assign(I, I.ctx.rv(rest[0]))
        return NotImplemented

    def assign(self, I, v):
        ctx = I.ctx
        k = self.k
        gs = ctx.store[(k.g.oid, "gstate")]
        ctx.oblige("slot-overwrite:never-destroys-a-started-graph[C12 the previous branch is stopped before its slot is reused]",
                   gs[self.slot] != 2, kind="callee-pre")
        if isinstance(v, EmptyGraph):
            ctx.write(Loc((k.g.oid, "gstate")), z3.Store(gs, self.slot, 0))
        elif isinstance(v, NewGraph):
            ctx.write(Loc((k.g.oid, "gstate")), z3.Store(gs, self.slot, 1))
            ctx.write(Loc((k.g.oid, "gen")), z3.Store(ctx.store[(k.g.oid, "gen")], self.slot, v.gen))
            ctx.write(Loc((k.g.oid, "gspec")), z3.Store(ctx.store[(k.g.oid, "gspec")], self.slot, v.sid))
        else:
            raise Gap("assignment of %r to a graph slot" % (v,))
        return self

    def m_view(self, I, args, n):
        return SlotGraphView(self.k, self.slot)

    def m_has_value(self, I, args, n):
        return I.ctx.store[(self.k.g.oid, "gstate")][self.slot] != 0


class SlotGraphView(Obj):
    cls = "GraphView(child)"

    def __init__(self, k, slot):
        Obj.__init__(self, name="child_view")
        self.k, self.slot = k, slot

    def gs(self, ctx):
        return ctx.store[(self.k.g.oid, "gstate")]

    def m_start(self, I, args, n):
        ctx = I.ctx
        k = self.k
        ctx.oblige("child.start:on-a-freshly-constructed-graph-at-the-cycle-time[C12 the new branch starts with fresh state]",
                   z3.And(self.gs(ctx)[self.slot] == 1, ctx.rv(args[0]) == k.T), kind="callee-pre")
        ctx.oblige("child.start:no-other-graph-is-started[C12 only the selected branch]",
                   z3.ForAll([qs], z3.Implies(z3.And(qs >= 0, qs <= 1, qs != self.slot), self.gs(ctx)[qs] != 2)),
                   kind="callee-pre")
        ctx.write(Loc((k.g.oid, "gstate")), z3.Store(self.gs(ctx), self.slot, 2))
        ctx.write(Loc((k.g.oid, "starts")), ctx.store[(k.g.oid, "starts")] + 1)
        ctx.write(Loc((k.g.oid, "started_gen")), ctx.store[(k.g.oid, "gen")][self.slot])
        return VOID

    def m_stop(self, I, args, n):
        ctx = I.ctx
        k = self.k
        ctx.oblige("child.stop:on-the-started-graph", self.gs(ctx)[self.slot] == 2, kind="callee-pre")
        ctx.write(Loc((k.g.oid, "gstate")), z3.Store(self.gs(ctx), self.slot, 3))
        ctx.write(Loc((k.g.oid, "stops")), ctx.store[(k.g.oid, "stops")] + 1)
        return VOID

    def m_next_scheduled_time(self, I, args, n):
        """the branch graph's wake-up cache: any time at all (reading it evaluates nothing and hands nothing to this node)"""
        t = I.ctx.fresh("child_next_scheduled_time")
        I.ctx.assume(t >= 0)
        return t

    def m_evaluate(self, I, args, n):
        ctx = I.ctx
        k = self.k
        ctx.oblige("child.evaluate:only-the-active-started-graph-at-the-cycle-time[C12 the previous branch receives no "
                   "further evaluations]",
                   z3.And(self.gs(ctx)[self.slot] == 2, ctx.rv(args[0]) == k.T,
                          k.opt(ctx, "active_slot").has, k.opt(ctx, "active_slot").value == self.slot), kind="callee-pre")
        ctx.write(Loc((k.g.oid, "evals")), ctx.store[(k.g.oid, "evals")] + 1)
        return ctx.fresh("child_completed", "bool")


class GraphsArr(Obj):
    cls = "std::array<GraphValue,2>"

    def __init__(self, k):
        Obj.__init__(self, name="graphs")
        self.k = k

    def op(self, I, op, rest, n, a0):
        if op == "[]":
            return self.index(I, I.ctx.rv(rest[0]), n)
        return NotImplemented

    def index(self, I, idx, n):
        I.ctx.oblige("bounds.graphs[slot]@%s" % extract.line_of(n), z3.And(idx >= 0, idx <= 1), kind="bounds")
        return SlotRef(self.k, idx)


class SwitchKernel(Kernel):
    tu = TU
    property_ids = ("C12",)
    scope = {"lo": 0, "hi": 3}

    def base(self, I):
        ctx = I.ctx
        self.T = z3.Int("evaluation_time")
        ctx.assume(z3.And(self.T >= 1, self.T < MAX_DT))
        self.view = Obj("NodeView", "view")
        st = Obj("SwitchNodeStorage", "storage")
        self.st = st
        g = Obj("ghost", "sg")
        self.g = g
        self.gstate0 = z3.Array("gstate0", I_, I_)
        self.gen0 = z3.Array("gen0", I_, I_)
        ctx.store[(g.oid, "gstate")] = self.gstate0
        ctx.store[(g.oid, "gen")] = self.gen0
        ctx.store[(g.oid, "gspec")] = z3.Array("gspec0", I_, I_)
        self.next_gen0 = z3.Int("next_gen0")
        ctx.store[(g.oid, "next_gen")] = self.next_gen0
        for nm in ("starts", "stops", "evals", "sampled", "binds_in", "binds_out", "clears", "resets"):
            ctx.store[(g.oid, nm)] = z3.IntVal(0)
        ctx.store[(g.oid, "started_gen")] = z3.IntVal(-1)
        ctx.store[(st.oid, "graphs")] = GraphsArr(self)
        self.act_has, self.act = z3.Bool("active_has"), z3.Int("active_slot")
        self.prev_has, self.prev = z3.Bool("previous_has"), z3.Int("previous_slot")
        ctx.store[(st.oid, "active_slot")] = Opt(self.act_has, self.act)
        ctx.store[(st.oid, "previous_slot")] = Opt(self.prev_has, self.prev)
        self.akey_has, self.akey = z3.Bool("active_key_has"), z3.Int("active_key")
        ctx.store[(st.oid, "active_key")] = KeyVal(self.akey_has, self.akey)
        self.aspec_null, self.aspec = z3.Bool("active_spec_null"), z3.Int("active_spec")
        ctx.store[(st.oid, "active_spec")] = Ptr(SpecObj(self, self.aspec), self.aspec_null)
        # context
        cx = Obj("SwitchNodeContext", "context")
        self.cx = cx
        sp = Obj("SwitchNodeSpec", "switch_spec")
        self.sp = sp
        ctx.store[(cx.oid, "spec")] = sp
        ctx.store[(cx.oid, "graph_slot_layout")] = Obj("layout", "graph_slot_layout")
        self.reload = z3.Bool("reload_on_ticked")
        self.fwd = z3.Bool("output_forwards_to_child_terminal")
        ctx.store[(sp.oid, "reload_on_ticked")] = self.reload
        ctx.store[(sp.oid, "output_forwards_to_child_terminal")] = self.fwd
        self.bkey = z3.Array("branch_key", I_, I_)
        self.nb = z3.Int("n_branches")
        ctx.assume(self.nb >= 0)
        self.branches = Vec(ctx, "branches", length=self.nb, elem=lambda idx: BranchObj(self, idx))
        ctx.store[(sp.oid, "branches")] = self.branches
        self.has_default = z3.Bool("has_default_branch")
        ctx.store[(sp.oid, "default_branch")] = Opt(self.has_default, SpecObj(self, z3.IntVal(-1)))
        # generations handed out so far are below the counter
        ctx.assume(z3.ForAll([qs], self.gen0[qs] < self.next_gen0))
        ctx.assume(self.sw_inv(self.gstate0, self.act_has, self.act, self.prev_has, self.prev))
        ctx.assume(z3.Implies(self.act_has, z3.Not(self.aspec_null)))

    def sw_inv(self, gs, ah, a, ph, p):
        return z3.And(
            z3.ForAll([qs], z3.And(gs[qs] >= 0, gs[qs] <= 3)),
            z3.Implies(ah, z3.And(a >= 0, a <= 1, gs[a] == 2, gs[1 - a] != 2, gs[1 - a] != 1)),
            z3.Implies(z3.Not(ah), z3.And(gs[0] != 2, gs[1] != 2, gs[0] != 1, gs[1] != 1)),
            z3.Implies(ph, z3.And(p >= 0, p <= 1, gs[p] == 3, z3.Implies(ah, p != a))))

    def opt(self, ctx, nm):
        return ctx.store[(self.st.oid, nm)]

    def gg(self, ctx, nm):
        return ctx.store[(self.g.oid, nm)]

    def cur_inv(self, ctx):
        a, p = self.opt(ctx, "active_slot"), self.opt(ctx, "previous_slot")
        return self.sw_inv(self.gg(ctx, "gstate"), a.has, a.value if a.value is not None else z3.IntVal(0), p.has,
                           p.value if p.value is not None else z3.IntVal(0))

    def count(self, I, nm):
        I.ctx.write(Loc((self.g.oid, nm)), self.gg(I.ctx, nm) + 1)

    def function_handler(self, name, node, callee_node):
        h = getattr(self, "f_" + name, None)
        if h is not None:
            return h
        return Kernel.function_handler(self, name, node, callee_node)

    def f_switch_graph_memory(self, I, args, n):
        return Ptr(Obj("mem", "slot_memory"), z3.BoolVal(False))

    def f_bind_branch_inputs(self, I, args, n):
        self.count(I, "binds_in")
        if self.bind_may_throw and I.ctx.choose(2, "bind_branch_inputs outcome") == 1:
            I.throw_from_callee("bind_branch_inputs")
        return VOID

    bind_may_throw = False

    def f_bind_branch_output(self, I, args, n):
        self.count(I, "binds_out")
        return VOID

    def f_clear_branch_output(self, I, args, n):
        self.count(I, "clears")
        return VOID

    def f_reset_switch_output(self, I, args, n):
        self.count(I, "resets")
        return VOID

    def f_schedule_sampled_input_consumers(self, I, args, n):
        ctx = I.ctx
        v = ctx.rv(args[0])
        ctx.oblige("sampled-consumers-scheduled-on-the-just-started-graph-at-the-cycle-time[C12 immediately sees the held inputs]",
                   z3.And(self.gg(ctx, "gstate")[v.slot] == 2, ctx.rv(args[1]) == self.T), kind="callee-pre")
        self.count(I, "sampled")
        return VOID

    def method_handler(self, obj, name, node):
        k = self
        if obj is self.st and name == "active_graph":
            def ag(I, o, a, n):
                act = k.opt(I.ctx, "active_slot")
                return Ptr(SlotRef(k, act.value if act.value is not None else z3.IntVal(0)), z3.Not(act.has))
            return ag
        if obj is self.view and name == "pointer":
            return lambda I, o, a, n: Ptr(Obj("node", "node_ptr"), z3.BoolVal(False))
        return Kernel.method_handler(self, obj, name, node)

    def ctor_handler(self, qt, node):
        if qt in ("GraphValue", "hgraph::GraphValue"):
            def mk(I, args, n):
                if args:
                    return I.ctx.rv(args[0])
                return EmptyGraph(name="empty_graph")
            return mk
        if qt in ("Value", "hgraph::Value"):
            def mkv(I, args, n):
                if args:
                    v = I.ctx.rv(args[0])
                    if isinstance(v, KeyVal):
                        return v
                return KeyVal(z3.BoolVal(False), z3.IntVal(-1))
            return mkv
        return Kernel.ctor_handler(self, qt, node)


models.install_guards(SwitchKernel)


class SelectBranch(SwitchKernel):
    name = "switch_node.cpp:select_branch"
    fn_name = "select_branch"
    filter = "select_branch"
    title = "select_branch: first branch whose key equals, else the default, else null"

    def setup(self, I):
        self.base(I)
        self.key = z3.Int("key")
        return None, {"context": self.cx, "key": KeyVal(z3.BoolVal(True), self.key)}

    def inv(self, I, ctx):
        k = self.range_pos(I)
        yield "pos-range", z3.And(k >= 0, k <= self.nb)
        yield "no-earlier-branch-matches", z3.ForAll([qk], z3.Implies(z3.And(qk >= 0, qk < k), self.bkey[qk] != self.key))

    loops = property(lambda self: {0: LoopSpec(self.inv)})

    def post(self, I, ret):
        ctx = I.ctx
        if not isinstance(ret, Ptr):
            raise Gap("select_branch returned %r" % (ret,))
        matches = z3.Exists([qk], z3.And(qk >= 0, qk < self.nb, self.bkey[qk] == self.key))
        sid = ret.target.sid if ret.target is not None else z3.IntVal(-2)
        ctx.oblige("ensures.first-matching-branch[C12 follows the branch selected by the key]",
                   z3.Implies(matches, z3.And(z3.Not(ret.null), sid >= 0, sid < self.nb, self.bkey[sid] == self.key,
                                              z3.ForAll([qk], z3.Implies(z3.And(qk >= 0, qk < sid), self.bkey[qk] != self.key)))),
                   kind="post-normal")
        ctx.oblige("ensures.else-the-default-else-null[C12 an unmatched key with no default is an error upstream]",
                   z3.Implies(z3.Not(matches), z3.If(self.has_default, z3.And(z3.Not(ret.null), sid == -1), ret.null)),
                   kind="post-normal")


class SwitchTeardown(SwitchKernel):
    name = "switch_node.cpp:switch_teardown"
    fn_name = "switch_teardown"
    filter = "switch_teardown"
    title = "switch_teardown: the active graph is stopped once and becomes the previous one"

    def setup(self, I):
        self.base(I)
        self.reset_output = z3.Bool("reset_output")
        return None, {"view": self.view, "context": self.cx, "storage": self.st, "evaluation_time": self.T,
                      "reset_output": self.reset_output}

    def post(self, I, ret):
        ctx = I.ctx
        act, prev = self.opt(ctx, "active_slot"), self.opt(ctx, "previous_slot")
        gs = self.gg(ctx, "gstate")
        ctx.oblige("ensures.nothing-active=>no-op", z3.Implies(z3.Not(self.act_has), z3.And(
            gs == self.gstate0, self.gg(ctx, "stops") == 0, z3.Not(act.has))), kind="post-normal")
        ctx.oblige("ensures.active-graph-stopped-exactly-once-and-retired[C12 previous branch no longer runs; C14 children stopped]",
                   z3.Implies(self.act_has, z3.And(self.gg(ctx, "stops") == 1, gs[self.act] == 3, z3.Not(act.has),
                                                   prev.has, prev.value == self.act, z3.Not(self.opt(ctx, "active_key").has),
                                                   self.opt(ctx, "active_spec").null)), kind="post-normal")
        ctx.oblige("ensures.SWInv", self.cur_inv(ctx), kind="post-normal")
        ctx.oblige("ensures.output-reset-iff-asked", z3.Implies(self.act_has, self.gg(ctx, "resets") == z3.If(self.reset_output, 1, 0)),
                   kind="post-normal")


class ActivateBranch(SwitchKernel):
    name = "switch_node.cpp:activate_branch"
    fn_name = "activate_branch"
    filter = "activate_branch"
    title = "activate_branch: fresh instance in the other slot, old one stopped first, new one started and sampled"
    bind_may_throw = True
    inline = ("switch_teardown",)
    extra_dumps = ((TU, "switch_teardown"),)

    def locate(self, dumps):
        fn = Kernel.locate(self, dumps)
        self.index(dumps[(TU, "switch_teardown")])
        return fn

    def setup(self, I):
        self.base(I)
        self.key = z3.Int("key")
        self.sid = z3.Int("spec_id")
        return None, {"view": self.view, "context": self.cx, "storage": self.st, "spec": SpecObj(self, self.sid),
                      "key": KeyVal(z3.BoolVal(True), self.key), "evaluation_time": self.T}

    def post(self, I, ret):
        ctx = I.ctx
        act, prev = self.opt(ctx, "active_slot"), self.opt(ctx, "previous_slot")
        gs, gen = self.gg(ctx, "gstate"), self.gg(ctx, "gen")
        nxt = z3.If(self.act_has, 1 - self.act, 0)
        ctx.oblige("ensures.new-branch-in-the-other-slot,started[C12]", z3.And(
            act.has, act.value == nxt, gs[nxt] == 2, z3.Implies(self.act_has, nxt != self.act)), kind="post-normal")
        ctx.oblige("ensures.fresh-instance[C12 selecting an earlier key again creates a new instance]",
                   z3.And(gen[nxt] == self.next_gen0, gen[nxt] > self.gen0[0], gen[nxt] > self.gen0[1],
                          self.gg(ctx, "started_gen") == self.next_gen0, self.gg(ctx, "gspec")[nxt] == self.sid), kind="post-normal")
        ctx.oblige("ensures.old-branch-stopped-exactly-once,new-started-exactly-once[C12 previous branch receives no further "
                   "evaluations; C14]",
                   z3.And(self.gg(ctx, "stops") == z3.If(self.act_has, 1, 0), self.gg(ctx, "starts") == 1,
                          z3.Implies(self.act_has, z3.And(gs[self.act] == 3, prev.has, prev.value == self.act))), kind="post-normal")
        ctx.oblige("ensures.held-inputs-sampled-once-after-start[C12 immediately sees the current values of the held inputs]",
                   self.gg(ctx, "sampled") == 1, kind="post-normal")
        k = self.opt(ctx, "active_key")
        ctx.oblige("ensures.active-key-and-spec-recorded", z3.And(k.has, k.kid == self.key, z3.Not(self.opt(ctx, "active_spec").null),
                                                                 self.opt(ctx, "active_spec").target.sid == self.sid), kind="post-normal")
        ctx.oblige("ensures.SWInv[C12 exactly one started graph, the active one]", self.cur_inv(ctx), kind="post-normal")
        ctx.oblige("ensures.switch-owned-output-cleared-when-a-branch-is-retired[C12 the previous branch no longer influences the output]",
                   z3.Implies(z3.And(z3.Not(self.fwd), self.act_has), self.gg(ctx, "resets") == 1), kind="post-normal")

    def post_exc(self, I, exc):
        ctx = I.ctx
        gs = self.gg(ctx, "gstate")
        nxt = z3.If(self.act_has, 1 - self.act, 0)
        bad_prev = z3.And(self.prev_has, self.prev != nxt)
        ctx.oblige("raises.logic_error-for-a-misplaced-previous-graph-else-a-binding-failure",
                   z3.Or(z3.And(z3.BoolVal(exc.cls == "std::logic_error"), bad_prev),
                         z3.BoolVal(exc.origin == "bind_branch_inputs")), kind="post-exceptional")
        ctx.oblige("raises.binding-failure:new-slot-left-empty,old-branch-untouched[C12/C14 no half-built child]",
                   z3.Implies(z3.BoolVal(exc.origin == "bind_branch_inputs"), z3.And(
                       gs[nxt] == 0, self.gg(ctx, "starts") == 0, self.gg(ctx, "stops") == 0,
                       z3.Implies(self.act_has, gs[self.act] == 2))), kind="post-exceptional")


class SwitchEvaluate(SwitchKernel):
    name = "switch_node.cpp:switch_evaluate"
    property_ids = ("C12", "C02")
    fn_name = "switch_evaluate"
    filter = "switch_evaluate"
    sig = "bool (const hgraph::NodeView &, hgraph::DateTime)"
    title = "switch_evaluate: change branch exactly when the key demands it; evaluate only the active graph"

    def setup(self, I):
        ctx = I.ctx
        self.base(I)
        self.started = z3.Bool("view_started")
        self.key_valid, self.key_modified = z3.Bool("key_valid"), z3.Bool("key_modified")
        self.key = z3.Int("key")
        self.sel_null = z3.Bool("select_returns_null")
        self.sel_sid = z3.Int("selected_spec")
        ctx.store[(self.g.oid, "activations")] = z3.IntVal(0)
        ctx.store[(self.g.oid, "act_sid")] = z3.IntVal(-9)
        ctx.store[(self.g.oid, "act_key")] = z3.IntVal(-9)
        return None, {"view": self.view, "evaluation_time": self.T}

    def method_handler(self, obj, name, node):
        k = self
        if obj is self.view:
            if name == "started":
                return lambda I, o, a, n: k.started
            if name == "as":
                return lambda I, o, a, n: SwitchViewObj(k)
            if name == "input":
                return lambda I, o, a, n: KeyRoot(k)
        return SwitchKernel.method_handler(self, obj, name, node)

    def f_cast(self, I, args, n):
        return Ptr(self.st, z3.BoolVal(False))

    def f_select_branch(self, I, args, n):
        return Ptr(SpecObj(self, self.sel_sid), self.sel_null)

    def f_activate_branch(self, I, args, n):
        """contract proved on ActivateBranch"""
        ctx = I.ctx
        sp, key = ctx.rv(args[3]), ctx.rv(args[4])
        old = self.opt(ctx, "active_slot")
        nxt = z3.If(old.has, 1 - (old.value if old.value is not None else z3.IntVal(0)), 0)
        gs = self.gg(ctx, "gstate")
        oldv = old.value if old.value is not None else z3.IntVal(0)
        gs1 = z3.If(old.has, z3.Store(z3.Store(gs, oldv, 3), nxt, 2), z3.Store(gs, nxt, 2))
        ctx.write(Loc((self.g.oid, "gstate")), gs1)
        ctx.write(Loc((self.st.oid, "previous_slot")), Opt(old.has, oldv))
        ctx.write(Loc((self.st.oid, "active_slot")), Opt(z3.BoolVal(True), nxt))
        ctx.write(Loc((self.st.oid, "active_key")), KeyVal(z3.BoolVal(True), key.kid))
        ctx.write(Loc((self.st.oid, "active_spec")), Ptr(SpecObj(self, sp.sid), z3.BoolVal(False)))
        self.count(I, "activations")
        ctx.write(Loc((self.g.oid, "act_sid")), sp.sid)
        ctx.write(Loc((self.g.oid, "act_key")), key.kid)
        return VOID

    def post(self, I, ret):
        ctx = I.ctx
        same = z3.And(self.act_has, self.akey_has, self.key == self.akey)
        change = z3.And(self.started, self.key_valid, z3.Or(self.key_modified, z3.Not(self.act_has)),
                        z3.Or(z3.Not(self.act_has), self.reload, z3.Not(same)))
        ctx.oblige("ensures.branch-change-iff-the-key-demands-it[C12 follows only the branch selected by the current key]",
                   self.gg(ctx, "activations") == z3.If(change, 1, 0), kind="post-normal")
        ctx.oblige("ensures.activated-with-the-selected-spec-and-key", z3.Implies(change, z3.And(
            z3.Not(self.sel_null), self.gg(ctx, "act_sid") == self.sel_sid, self.gg(ctx, "act_key") == self.key)), kind="post-normal")
        act = self.opt(ctx, "active_slot")
        ctx.oblige("ensures.active-graph-evaluated-once,nothing-else[C12; C02 the branch's evaluate is what hands its next wake-up to "
                   "the switch node: whenever the node runs, the active branch runs]",
                   self.gg(ctx, "evals") == z3.If(z3.And(self.started, act.has), 1, 0), kind="post-normal")
        ctx.oblige("ensures.not-started=>nothing", z3.Implies(z3.Not(self.started), z3.And(
            self.gg(ctx, "activations") == 0, self.gg(ctx, "evals") == 0, ret)), kind="post-normal")

    def post_exc(self, I, exc):
        ctx = I.ctx
        same = z3.And(self.act_has, self.akey_has, self.key == self.akey)
        change = z3.And(self.started, self.key_valid, z3.Or(self.key_modified, z3.Not(self.act_has)),
                        z3.Or(z3.Not(self.act_has), self.reload, z3.Not(same)))
        ctx.oblige("raises.runtime_error-iff-a-demanded-change-has-no-branch[C12 unmatched key with no default is an error]",
                   z3.And(z3.BoolVal(exc.cls == "std::runtime_error"), change, self.sel_null, self.gg(ctx, "activations") == 0),
                   kind="post-exceptional")


class SwitchViewObj(Obj):
    cls = "SwitchNodeView"

    def __init__(self, k):
        Obj.__init__(self, name="switch_view")
        self.k = k

    def m_internal_context(self, I, args, n):
        return Ptr(self.k.cx, z3.BoolVal(False))

    def m_internal_storage(self, I, args, n):
        return Ptr(Obj("mem", "storage_memory"), z3.BoolVal(False))


class KeyRoot(Obj):
    cls = "TSInputView(root)"

    def __init__(self, k):
        Obj.__init__(self, name="root_input")
        self.k = k

    def m_as_bundle(self, I, args, n):
        return self

    def op(self, I, op, rest, n, a0):
        if op == "[]":
            return KeyInput(self.k)
        return NotImplemented


class KeyInput(Obj):
    cls = "TSInputView(key)"

    def __init__(self, k):
        Obj.__init__(self, name="key_input")
        self.k = k

    def m_valid(self, I, args, n):
        return self.k.key_valid

    def m_modified(self, I, args, n):
        return self.k.key_modified

    def m_value(self, I, args, n):
        return KeyVal(z3.BoolVal(True), self.k.key)


class SwitchNodeStop(SwitchKernel):
    name = "switch_node.cpp:switch_node_stop"
    fn_name = "switch_node_stop"
    filter = "switch_node_stop"
    property_ids = ("C12", "C14")
    title = "switch_node_stop: the active child graph is stopped once when the node stops"
    inline = ("switch_teardown",)
    extra_dumps = ((TU, "switch_teardown"),)

    def locate(self, dumps):
        fn = Kernel.locate(self, dumps)
        self.index(dumps[(TU, "switch_teardown")])
        return fn

    def setup(self, I):
        self.base(I)
        return None, {"view": self.view, "evaluation_time": self.T}

    def method_handler(self, obj, name, node):
        if obj is self.view and name == "as":
            return lambda I, o, a, n: SwitchViewObj(self)
        return SwitchKernel.method_handler(self, obj, name, node)

    def f_cast(self, I, args, n):
        return Ptr(self.st, z3.BoolVal(False))

    def post(self, I, ret):
        ctx = I.ctx
        gs = self.gg(ctx, "gstate")
        ctx.oblige("ensures.active-child-stopped-once,no-started-child-left[C14 every started child is stopped]",
                   z3.And(self.gg(ctx, "stops") == z3.If(self.act_has, 1, 0), gs[0] != 2, gs[1] != 2), kind="post-normal")
        ctx.oblige("ensures.output-not-reset-on-node-stop", self.gg(ctx, "resets") == 0, kind="post-normal")


KERNELS = [SelectBranch, SwitchTeardown, ActivateBranch, SwitchEvaluate, SwitchNodeStop]


# ------------------------------------------------------------------ reset_switch_output


class ResetSwitchOutput(Kernel):
    tu = TU
    name = "switch_node.cpp:reset_switch_output"
    fn_name = "reset_switch_output"
    filter = "reset_switch_output"
    property_ids = ("C12",)
    scope = {"lo": 0, "hi": 3}
    title = "reset_switch_output: whatever its shape, the owned switch output forgets what the retired branch wrote"

    def setup(self, I):
        ctx = I.ctx
        self.T = z3.Int("evaluation_time")
        self.has_output, self.bound, self.schema_null = z3.Bool("has_output"), z3.Bool("output_bound"), z3.Bool("schema_null")
        self.kind = z3.Int("output_kind")
        g = Obj("ghost", "rg")
        self.g = g
        ctx.store[(g.oid, "cleared")] = z3.IntVal(0)
        ctx.store[(g.oid, "cleared_t")] = z3.IntVal(-9)
        ctx.store[(g.oid, "emptied")] = z3.IntVal(0)
        ctx.store[(g.oid, "emptied_t")] = z3.IntVal(-9)
        k = self
        sch = Obj("TSValueTypeMetaData", "schema")
        ctx.store[(sch.oid, "kind")] = self.kind
        dv = Obj("TSDataMutationView", "data_view")

        def clear(I_, a, n):
            I_.ctx.write(Loc((g.oid, "cleared")), I_.ctx.store[(g.oid, "cleared")] + 1)
            I_.ctx.write(Loc((g.oid, "cleared_t")), I_.ctx.rv(a[0]))
            return I_.ctx.fresh("changed", "bool")
        dv.m_clear_collection = clear
        mut = Obj("TSMutation", "mutation")

        def move(I_, a, n):
            I_.ctx.write(Loc((g.oid, "emptied")), I_.ctx.store[(g.oid, "emptied")] + 1)
            return I_.ctx.fresh("moved", "bool")
        mut.m_move_value_from = move
        out = Obj("TSOutputView", "output")
        out.m_bound = lambda I_, a, n: k.bound
        out.m_schema = lambda I_, a, n: Ptr(sch, k.schema_null)
        out.m_data_view = lambda I_, a, n: dv

        def begin(I_, a, n):
            I_.ctx.write(Loc((g.oid, "emptied_t")), I_.ctx.rv(a[0]))
            return mut
        out.m_begin_mutation = begin
        view = Obj("NodeView", "view")
        view.m_has_output = lambda I_, a, n: k.has_output
        view.m_output = lambda I_, a, n: out
        return None, {"view": view, "evaluation_time": self.T}

    def enum_const(self, I, ref):
        tbl = {"REF": 9, "TSD": 4, "TSS": 3, "TSB": 6, "TSL": 5, "TS": 1}
        if ref.get("name") in tbl:
            return z3.IntVal(tbl[ref["name"]])
        raise Gap("enum constant %s" % ref.get("name"))

    def ctor_handler(self, qt, node):
        if qt.endswith("Value") or qt.endswith("TimeSeriesReference"):
            return lambda I, args, n: (I.ctx.rv(args[0]) if args else Obj("value", "empty_reference"))
        return Kernel.ctor_handler(self, qt, node)

    def function_handler(self, name, node, callee_node):
        if name == "move":
            return lambda I, a, n: I.ctx.rv(a[0])
        return Kernel.function_handler(self, name, node, callee_node)

    def post(self, I, ret):
        ctx = I.ctx
        g = lambda nm: ctx.store[(self.g.oid, nm)]
        live = z3.And(self.has_output, self.bound)
        is_ref = z3.And(z3.Not(self.schema_null), self.kind == 9)
        ctx.oblige("ensures.a-reference-output-is-emptied,every-other-shape-is-cleared,at-the-cycle-time[C12 the previous branch no "
                   "longer influences the output]", z3.Implies(live, z3.If(
                       is_ref, z3.And(g("emptied") == 1, g("emptied_t") == self.T, g("cleared") == 0),
                       z3.And(g("cleared") == 1, g("cleared_t") == self.T, g("emptied") == 0))), kind="post-normal")
        ctx.oblige("ensures.no-output=>nothing-touched", z3.Implies(z3.Not(live), z3.And(g("cleared") == 0, g("emptied") == 0)),
                   kind="post-normal")


KERNELS += [ResetSwitchOutput]


# ------------------------------------------------------------------ nested_bindings.h bind_sampled_input_to_source


class BindSampledInputToSource(Kernel):
    tu = TU
    name = "nested_bindings.h:bind_sampled_input_to_source"
    fn_name = "bind_sampled_input_to_source"
    filter = "bind_sampled_input_to_source"
    property_ids = ("C12", "C13")
    scope = {"lo": 0, "hi": 3}
    title = "bind_sampled_input_to_source: a freshly bound child input always samples the source's whole current value"

    def setup(self, I):
        ctx = I.ctx
        self.T = z3.Int("evaluation_time")
        self.bindable, self.src_bound, self.tgt_bound = z3.Bool("target_bindable"), z3.Bool("source_bound"), z3.Bool("target_bound")
        g = Obj("ghost", "bg")
        self.g = g
        for nm in ("sampled", "plain", "unbound"):
            ctx.store[(g.oid, nm)] = z3.IntVal(0)
        ctx.store[(g.oid, "sampled_t")] = z3.IntVal(-9)
        k = self
        src = Obj("TSOutputView", "source")
        src.m_bound = lambda I_, a, n: k.src_bound
        src.m_modified = lambda I_, a, n: I_.ctx.fresh("source_modified", "bool")
        src.m_valid = lambda I_, a, n: I_.ctx.fresh("source_valid", "bool")
        self.source_view = src
        tgt = Obj("TSInputView", "target")
        tgt.m_is_bindable = lambda I_, a, n: k.bindable
        tgt.m_bound = lambda I_, a, n: k.tgt_bound

        def cnt(nm):
            def h(I_, a, n):
                I_.ctx.write(Loc((g.oid, nm)), I_.ctx.store[(g.oid, nm)] + 1)
                if nm == "sampled":
                    I_.ctx.write(Loc((g.oid, "sampled_t")), I_.ctx.rv(a[1]))
                return VOID
            return h
        tgt.m_bind_output_sampled = cnt("sampled")
        tgt.m_bind_output = cnt("plain")
        tgt.m_unbind_output = cnt("unbound")
        return None, {"target": tgt, "source": src, "evaluation_time": self.T}

    def post(self, I, ret):
        ctx = I.ctx
        g = lambda nm: ctx.store[(self.g.oid, nm)]
        ctx.oblige("ensures.bound-source=>exactly-one-sampled-bind-at-the-cycle-time,never-a-plain-bind[C12 the selected branch starts "
                   "from the whole current value of its inputs; C13 a freshly bound valid target reads as modified with its current "
                   "value]", z3.Implies(self.src_bound, z3.And(g("sampled") == 1, g("sampled_t") == self.T, g("plain") == 0,
                                                                g("unbound") == 0)), kind="post-normal")
        ctx.oblige("ensures.unbound-source=>the-target-ends-unbound", z3.Implies(z3.Not(self.src_bound), z3.And(
            g("sampled") == 0, g("plain") == 0, g("unbound") == z3.If(self.tgt_bound, 1, 0))), kind="post-normal")

    def post_exc(self, I, exc):
        I.ctx.oblige("raises.logic_error-iff-the-target-is-not-bindable", z3.And(z3.BoolVal(exc.cls == "std::logic_error"),
                                                                                 z3.Not(self.bindable)), kind="post-exceptional")


KERNELS += [BindSampledInputToSource]
