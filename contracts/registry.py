"""property id -> contract modules, claimed level, trusted base, parts not decided"""

PROPS = {
    "C18": {
        "modules": ["contracts.c18_node_scheduler"],
        "level": "proof",
        "design_ref": "DESIGN.md section 8, C18",
        "trusted_base": [
            "contract of GraphValue::schedule_node (eff'[i] = min(eff[i], w); throws for i >= n or w < T) -- "
            "proved on graph.cpp:schedule_node_impl under C02, dispatch through the graph ops table assumed",
            "a NodeScheduler is constructed with now_ == the owning graph's evaluation time and node_index_ < node_count "
            "(call sites in node.cpp / static_node.h, not verified)",
            "strings are opaque tags with \"\" the least; std::set<pair<DateTime,string>> orders lexicographically",
        ],
        "assumptions": [
            "events at exactly MAX_DT (the engine's 'never' sentinel) are outside the Armed guarantee: the code does not arm them",
        ],
        "not_decided": [],
    },
}
