"""property id -> contract modules, claimed level, trusted base, parts not decided"""

PROPS = {
    "C18": {
        "modules": ["contracts.c18_node_scheduler", "contracts.c03_node", "contracts.c02_graph_sched"],
        "level": "proof",
        "design_ref": "DESIGN.md section 8, C18",
        "trusted_base": [
            "contract of GraphValue::schedule_node (eff'[i] = min(eff[i], w); throws for i >= n or w < T) -- "
            "proved on graph.cpp:schedule_node_impl under C02, dispatch through the graph ops table assumed",
            "a NodeScheduler is constructed with now_ == the owning graph's evaluation time and node_index_ < node_count "
            "(call sites in node.cpp / static_node.h, not verified)",
            "strings are opaque tags with \"\" the least; std::set<pair<DateTime,string>> orders lexicographically",
        ],
        "assumptions": [
            "events at exactly MAX_DT (the engine's 'never' sentinel) are outside the Armed guarantee: the code does not arm them",
        ],
        "not_decided": [],
    },
    "C02": {
        "modules": ["contracts.c02_graph_sched", "contracts.c14_lifecycle", "contracts.c17_executor",
                    "contracts.c18_node_scheduler", "contracts.c03_node", "contracts.c09_nested", "contracts.c12_switch", "contracts.c10_map"],
        "level": "proof",
        "design_ref": "DESIGN.md section 8, C02",
        "trusted_base": [
            "rely R for node callbacks: NodeView::evaluate/start/stop change this graph's schedule only through "
            "schedule_node_impl (any number of calls, each with when >= T); R is proved reflexive/transitive and "
            "implied by one call",
            "call-site obligations of schedule_node_impl (Honourable, NoOvertake) are assumed for callers not under contract",
            "GraphView::start/evaluate/next_scheduled_time dispatch to start_impl/evaluate_impl/the header field "
            "through the graph ops table (function-pointer wiring not verified)",
            "run_executor_phase runs its action exactly once on the calling thread",
        ],
        "assumptions": ["requests made from other threads while a simulation runs are outside the contracts"],
        "not_decided": ["wake-ups inside mesh / tsl_map children and reduce_ combiners (their own queues and re-arm rules; map_ is under contract)", "nested delegation beyond the C09 kernels"],
    },
    "C14": {
        "modules": ["contracts.c14_lifecycle", "contracts.c02_graph_sched", "contracts.c17_executor",
                    "contracts.c03_node", "contracts.c09_nested", "contracts.c10_map", "contracts.c14_mesh"],
        "level": "proof",
        "design_ref": "DESIGN.md section 8, C14",
        "trusted_base": [
            "scope.h guards (scope_exit, UnwindCleanupGuard, FirstExceptionRecorder, annotate_on_exception) follow the "
            "summaries in cxxvc/models.py (mirrors of the 15-line bodies)",
            "NodeView::start/stop rely: a start that throws did not start the node; a stop attempt always ends with "
            "the node stopped (node.cpp start_impl/stop_impl, dispatch through the node ops table)",
            "lifecycle observers do not throw",
            "stop_storage stops the graph (contract used by run_storage)",
        ],
        "assumptions": [],
        "not_decided": ["dynamically created children alive at an arbitrary fault point inside map_/reduce reconciliation",
                        "node.cpp start/stop, executor destructors and nested-node stop functions are not yet under contract"],
    },
    "C17": {
        "modules": ["contracts.c17_executor", "contracts.c18_node_scheduler", "contracts.c03_node"],
        "level": "proof",
        "design_ref": "DESIGN.md section 8, C17",
        "trusted_base": [
            "std::mutex / lock_guard / unique_lock / condition_variable semantics (held flag; wait_for releases and "
            "re-acquires; other threads only set the flags)",
            "atomic loads of stop_requested are re-havocked monotonically at every load",
            "GraphView::evaluate/next_scheduled_time contracts as proved on graph.cpp",
        ],
        "assumptions": ["a node scheduled at exactly prev + MIN_TD may run up to one tick before the wall clock when a "
                        "wake arrives in the same microsecond (documented floor; DESIGN section 10 F2)"],
        "not_decided": ["'always stops' as liveness", "actual timing"],
    },
    "C04": {
        "modules": ["contracts.c04_tracking", "contracts.c05_collections", "contracts.c13_reference", "contracts.c03_observers"],
        "level": "proof",
        "design_ref": "DESIGN.md section 8, C04",
        "trusted_base": [
            "the ops-table function pointers (tracking_impl, mutable_tracking_impl, record_child_modified_impl) return / "
            "update the tracking record of the storage they are called on (dispatch not verified)",
            "the chain of TSData parents is finite (induction on its height for notify_child_modified)",
            "callers pass a concrete mutation time (validate_mutation_view) and time only moves forward "
            "(no tracking record is newer than the mutation time)",
        ],
        "assumptions": [],
        "not_decided": ["alternatives/proxies (ts_data/proxy.cpp) and TSW", "container `valid` beyond has_current_value_impl",
                        "that consumers bound to an output read the producer's record (input cursor functions, C13)",
                        "fixed-shape parents 'only then' (no other writer records on the parent)",
                        "copy_value_from / move_value_from bodies (mark_modified and invalidate are under contract)"],
    },
    "C09": {
        "modules": ["contracts.c09_nested", "contracts.c02_graph_sched"],
        "level": "proof",
        "design_ref": "DESIGN.md section 8, C09",
        "trusted_base": [
            "contract of the parent's GraphValue::schedule_node (C02) and of schedule_node_impl<Nested> as used by nested_schedule_node_impl",
            "a child's clock is never ahead of its parent's (it is only evaluated at the parent's time: proved for "
            "single_nested_graph_evaluate / try_except; assumed for map_/mesh/switch children not under contract)",
            "boundary binding helpers (single_nested_graph_bind_inputs/_output, schedule_sampled_input_consumers) do not touch the schedule",
        ],
        "assumptions": [],
        "not_decided": ["equality of output streams between the inlined and the nested form (a relation between two programs): not proved, "
                        "only the bounded catalogue native:c09_nested (7 bodies x 864 timings x 3 modes)",
                        "boundary binding correctness (nested_bindings.h) beyond bind_sampled_input_to_source"],
    },
    "C03": {
        "modules": ["contracts.c03_node", "contracts.c06_wiring", "contracts.c03_input_valid", "contracts.c03_observers"],
        "level": "proof",
        "design_ref": "DESIGN.md section 8, C03",
        "trusted_base": [
            "the graph evaluates a node only when its slot equals the cycle time, and the slot gets that value from an "
            "active-input notification, a start-time request, or a scheduler arming (possibly cancelled since)",
            "C18 contracts of NodeScheduler::advance / is_scheduled / next_scheduled_time; C02 contract of schedule_node",
            "TSInputView::valid/all_valid/make_active/make_passive are opaque per-slot operations",
            "selectors were range-checked at wiring for activate/deactivate",
        ],
        "assumptions": [],
        "not_decided": ["reads the latest value written by the producer (C04 + link resolution)", "the user function itself",
                        "TSDataObserverSet::replace / invalidate / clear (subscribe, unsubscribe, compact_many, notify_many are under contract; "
                        "Notifiable::notify is opaque and re-entrant: it may tombstone or append entries, never move them during a pass)"],
    },
    "C15": {
        "modules": ["contracts.c03_node", "contracts.c09_nested", "contracts.c02_graph_sched", "contracts.c10_map"],
        "level": "proof",
        "design_ref": "DESIGN.md section 8, C15",
        "trusted_base": [
            "scope.h fallback_on_exception / annotate_on_exception summaries (cxxvc/models.py)",
            "write_node_error / write_try_except_error perform one move_value_from on the error output (their bodies are not under contract)",
            "GraphView::evaluate / failed_node of the child follow evaluate_impl<Nested> / failed_node_impl",
        ],
        "assumptions": [],
        "not_decided": ["streams of unrelated nodes identical to a fault-free run (relational)",
                        "map_ per-key error attribution (map_node.cpp not under contract)"],
    },
    "C16": {
        "modules": ["contracts.c16_push_queue", "contracts.c17_executor", "contracts.c02_graph_sched"],
        "level": "proof",
        "design_ref": "DESIGN.md section 8, C16",
        "trusted_base": [
            "std::mutex / condition_variable semantics; while a sender waits other threads only push within capacity, pop, or stop",
            "std::deque<Value> as a window acc[head..tail) of an append-only history",
            "Value identity is an opaque payload id; apply_delta applies exactly the value it is given (C20)",
            "PushSourcePolicyAccess::emit_next dispatches to queue_policy_emit_next; MemoryUtils::cast returns the policy storage",
        ],
        "assumptions": ["the wake-flag protocol across threads (Owicki-Gries argument of DESIGN section 8) is carried by the "
                        "verified atomic steps, not by a concurrent proof"],
        "not_decided": ["liveness (every accepted value is delivered if the run continues)", "the C++ memory model",
                        "conflating and burst policies", "PushSourceSenderControl"],
    },
    "C08": {
        "modules": ["contracts.c08_feedback", "contracts.c20_delta"],
        "level": "proof",
        "design_ref": "DESIGN.md section 8, C08",
        "trusted_base": [
            "try_copy_feedback_state overwrites the state with its source when it returns true; capture_delta(ts) is this cycle's delta of ts (C20)",
            "the source ranks before the sink (rank edge on ts_self, C01 wiring) and C02 honours the T + MIN_TD request at exactly that time",
            "NodeBuilder::native keeps the schema it is given; C03 activation honours active_inputs/valid_inputs",
        ],
        "assumptions": [],
        "not_decided": ["equality of values for collection shapes (C20 capture/apply)", "feedback inside nested graphs beyond C09 delegation",
                        "quiescence with a passive reader as a whole-run statement (only the selectors are proved)"],
    },
    "C01": {
        "modules": ["contracts.c02_graph_sched", "contracts.c06_wiring", "contracts.c01_rank"],
        "level": "exploration",
        "design_ref": "DESIGN.md section 0.2 / section 8, C01",
        "trusted_base": [
            "the oracle of the bounded ranking check (native/bounded/c01_ranking.cpp): dependency digraph computed from the program text",
            "GraphView dispatch to evaluate_impl / schedule_node_impl through the ops table",
            "node evaluation callbacks change the schedule only through schedule_node_impl (rely R, lemma in c02_graph_sched)",
        ],
        "assumptions": ["the ranking pass is checked on bounded wiring programs only (stated bound); nothing is claimed for larger graphs, "
                        "nested sub-graph boundaries, services, delayed bindings or push sources in the ranking pass"],
        "not_decided": ["build_ranked_graph as a proof (Kahn sort: pending-edge counting is outside the VC generator)",
                        "ranking of nested sub-graph boundary nodes, captured outer ports, delayed bindings, push-source priority",
                        "reads through references retargeted at run time (C13)"],
    },
    "C10": {
        "modules": ["contracts.c10_map"],
        "level": "proof",
        "design_ref": "DESIGN.md section 0.2 / section 8, C10",
        "trusted_base": [
            "map_reconcile_keys preserves EntryInv (schedule_context.storage == this, .slot == slot; established by "
            "create_entry_at_slot, proved) and PW (a remembered pulled deadline is in the heap; preserved by "
            "prepare_map_evaluation_slots and push_pulled_child_schedule, proved)",
            "child GraphView::evaluate/stop follow the graph.cpp contracts (C02/C14): evaluate leaves the cached next time MAX_DT or "
            "strictly future, may push out-of-band schedules (the heap only grows), touches no other child",
            "std::push_heap/pop_heap/front with std::greater<> implement a bag with a minimum (library model)",
            "bind_mapped_child_inputs/_output, finalize_mapped_child_output only touch bindings and outputs",
            "capture_node_error / make_node_error_value carry the node, time and message they are given (node_error.cpp)",
        ],
        "assumptions": [],
        "not_decided": ["map_reconcile_keys as a whole (source re-pointing, incompatible key-source replacement, retired generations); "
                        "reconcile_compatible_key_source, create_entry_at_slot and remove_entry_at_slot are under contract",
                        "each key's stream equals the mapped function run alone; fresh state after re-add; isolation of state (relational): "
                        "not proved, only the bounded enumeration native:c10_map",
                        "materialize_map_evaluation_slots (countr_zero / word &= word - 1 bit scan): bounded enumeration only",
                        "schedule coverage across a pause/resume of the evaluation loop (only the positions visited by one call)",
                        "tsl_map_node.cpp, mesh_node.cpp"],
    },
    "C12": {
        "modules": ["contracts.c12_switch"],
        "level": "proof",
        "design_ref": "DESIGN.md section 8, C12",
        "trusted_base": [
            "GraphBuilder::make_nested_graph returns a new graph instance (fresh generation); GraphValue assignment destroys the old occupant",
            "child GraphView::start/stop/evaluate follow the graph.cpp contracts (C14/C02)",
            "bind_branch_inputs/_output, clear_branch_output, reset_switch_output only touch bindings and the switch output",
            "Value::equals is an equivalence on keys",
        ],
        "assumptions": [],
        "not_decided": ["the output stream equals what the branch alone would produce (relational)", "output forwarding correctness (bind_branch_output)"],
    },
    "C11": {
        "modules": ["contracts.c11_reduce"],
        "level": "proof",
        "design_ref": "DESIGN.md section 8, C11",
        "trusted_base": [
            "std::bit_floor(x) returns the power of two p with p <= x < 2p; for that p, capacity >> (bit_width(p) - 1) == capacity / p "
            "(leaf_capacity is a power of two: maintained by the growth code, not verified here)",
            "live leaves occupy the dense prefix [0, dense_to_key.size()) (remove_leaf_at / reconcile_leaf_state, not verified here)",
            "the combiner instances are wired to the aggregates these functions name (bind_combiner_inputs / rebuild_structure: ops-table heavy, not verified)",
            "append_leaf_path / record_removed_leaf_paths: the implicit heap (parent of p is (p-1)/2) with depth/ancestor ghost "
            "functions; rebuild_structure and reduce_evaluate consume the recorded paths as the contracts say (not verified)",
        ],
        "assumptions": [],
        "not_decided": ["that the published value is the fold (combiner wiring and publication): only bounded (native:c11_fold), not proved",
                        "order-independence of the result value beyond the bounded enumeration (needs a commutative user combiner)",
                        "reduce_layout (wiring-time tree for fixed TSL) is not under contract; exercised by the bounded enumeration only"],
    },
    "C05": {
        "modules": ["contracts.c05_collections", "contracts.c05_tsd", "contracts.c05_keystore", "contracts.c05_slotstate", "contracts.c05_window"],
        "level": "proof",
        "design_ref": "DESIGN.md section 8, C05",
        "trusted_base": [
            "contract of KeySlotStore as used by the set / dictionary kernels: now PROVED on key_slot_store.h (c05_keystore: insert x3, "
            "remove_slot, erase_pending, find_slot, reserve_to under the representation invariant KInv; lemma: proved post => the three "
            "outcomes the callers assume).  The slot-state transitions that layer uses (constructed / live / mark_staged / mark_live / "
            "mark_pending / mark_free) are proved in turn on BOTH physical representations of impl/stable_slot_store_impl.h (bitmap and "
            "tagged pointer, c05_slotstate), the bitmap one on top of SlotBitmap::set / reset / test proved against the bit view "
            "(slot_bitmap.h).  Still trusted: StableSlotStore's dispatch on the representation tag (a switch forwarding to the "
            "implementation), SlotPointer::set_tag / has_enum, bit_mask(b) = the one-hot word for b mod 64, the ankerl hash "
            "index (find(k) returns a member slot with an equal key or end(); insert/reserve may throw), StoragePlan / ValueOps key "
            "construction (may throw; writes the payload), slot observers (do not re-enter the store, do not throw)",
            "dictionary kernels: the element ops table (has_current_value_impl / tracking_impl) reads the child's state; "
            "KeyMirroredValueSlotStore gives a newly constructed slot a fresh value-less child and keeps the child of a resurrected "
            "slot; stop_owned_ts_data_tree keeps the child's value and modification state; invalidate_owned_ts_data_tree resets them",
            "sul::dynamic_bitset model (test/set/reset/resize/size)",
            "keys are opaque ids with equality (so the result is generic in the element type)",
            "window ring buffer: value_slot/time_slot/time_at_physical/element_at/copy_construct_slot/copy_assign_*_slot/clear/"
            "deallocate are one-line members used through their contracts (element_at's index test, slot = bytes + k*stride); "
            "byte pointers are (buffer, slot) pairs, any other pointer arithmetic is a gap",
        ],
        "assumptions": ["element and time copy/move construction, assignment and destruction do not throw and copy the element identity "
                        "(window kernels); operator new does not fail (except where the key store kernels model it: index growth)",
                        "KeySlotStore: size <= capacity (pigeonhole consequence of the live-slot bijection, not derivable by the solver; "
                        "used only for the no-overflow side conditions of acquire_free_slot)"],
        "not_decided": ["TSL/TSB delta bits (not yet under contract; bounded native stand-in only)",
                        "that a dictionary child reports every gain / loss of its value to record_child_modified (the ops-table "
                        "notification path; the kernel proves what the storage does with each report)",
                        "nested TSD-of-TSD coherence", "stable_slot_store growth (slot identity)"],
    },
    "C19": {
        "modules": ["contracts.c19_resolution"],
        "level": "proof",
        "design_ref": "DESIGN.md section 8, C19",
        "trusted_base": [
            "normalize_call and try_match are deterministic per candidate (their verdict and rank adjustment do not depend on the order of candidates)",
            "std::stable_sort yields a stable sorted permutation, std::min_element the first minimum, std::iter_swap a swap "
            "(library models; the comparator is taken to be 'by rank'); fmt formatting is message text only",
            "try_match: input_ts_pattern_match / scalar_value_matches_ts_pattern / scalar_pattern_match are the matchers (their "
            "verdicts are arbitrary; what is proved is that each supplied argument goes through one against its own parameter, "
            "under the shared ResolutionMap or a copy of it); a variadic candidate has at least one parameter",
            "verified configuration of resolve: no wiring observers (diagnostic-only code dead), no caller-pinned size hints, winner without keyword arguments",
            "rank functions: induction over the (finite) pattern tree; sub-pattern ranks are the spec ranks",
        ],
        "assumptions": [],
        "not_decided": ["try_match: the **kwargs pack block (assumed not entered), default resolvers and requires predicates (opaque callbacks)", "the output pattern substitution used by wire (template code outside clang 14's reach)",
                        "pattern match/resolve round trip (ts_pattern_match / _resolve)"],
    },
    "C20": {
        "modules": ["contracts.c20_delta", "contracts.c05_collections", "contracts.c05_window"],
        "level": "proof",
        "design_ref": "DESIGN.md section 8, C20",
        "trusted_base": [
            "value-layer builders (SetBuilder, BundleBuilder) as library models: a set of element ids / a field -> value map",
            "general contract of capture_delta / apply_delta assumed for recursive calls on children (structural induction on a well-founded schema)",
            "canonical set deltas are disjoint (ruling quoted in apply_delta_tss; for captured deltas this is SLInv of C05)",
            "set.added()/removed() enumerate the delta bits of the current window; mutation.add/remove are set insert/erase (C05)",
        ],
        "assumptions": [],
        "not_decided": ["TSL, TSD and TSW capture/apply pairs are not proved: only the bounded round trip (native:c20_roundtrip) and the bounded delta coherence (native:c05_deltas) exercise them",
                        "the record/replay nodes (memory_impl) beyond the dense index arithmetic (clang 14 cannot parse their translation unit): bounded round trip only",
                        "nested shapes (TSD of TSS etc.) in the round trip; sparse (:memory:) recordings"],
    },
    "C06": {
        "modules": ["contracts.c06_wiring"],
        "level": "proof",
        "design_ref": "DESIGN.md section 8, C06",
        "trusted_base": [
            "defaulted operator== of SourceKey / InputKey / WiringNodeSchema is member-wise (the language rule; that they ARE defaulted is checked on the AST each run)",
            "make_key / source_key_for copy the components they are given (their bodies are not under contract; add_node is checked to pass exactly this call's definition, schema, inputs and scalars)",
            "unordered_map::find returns an entry only for an equal key (by the verified operator==); the hash is not a correctness obligation",
            "verified configuration of add_node: no pending diagnostic label, no wiring observers",
        ],
        "assumptions": [],
        "not_decided": ["sharing does not change any output; any admissible statement order yields identical streams (relations between two programs' runs)"],
    },
    "C13": {
        "modules": ["contracts.c13_reference", "contracts.c09_nested", "contracts.c12_switch"],
        "level": "proof",
        "design_ref": "DESIGN.md section 8, C13",
        "trusted_base": [
            "C04 contracts of TSDataView (modified(T) <=> lmt == T; a delta has a payload only in its cycle)",
            "resolved_value_data() returns the data view of the currently bound target; link_storage() the link of this position",
            "a sampled structural transition records the link at the transition time (target_link.cpp bind_sampled, not under contract)",
            "E2 shims for In<>/Out<>/TSInputView/TSOutputView/ValueView are signature-only; their behaviour is the contract used here",
        ],
        "assumptions": [],
        "not_decided": ["alternative.cpp bind_target_link_at and target_link.cpp bind_* (re-binding and subscription moves)",
                        "keyed shapes' old-only/new-only delta (target_link_ops.cpp)", "several consumers below one reference"],
    },
}
