"""C14 (and the start tail of C02): graph.cpp start_impl / stop_impl <Root|Nested>

Lifecycle ghost (gs.GS.lc): phase[i] (0 idle / 1 started / 2 stopped), starts[i], stops[i] (attempts),
start_stamp[i], stop_stamp[i] drawn from one clock that ticks at every NodeView::start/stop call.
"in order" / "in reverse" are stamp comparisons, "exactly once" is a counter equation.
"""
import z3

from cxxvc.kernel import Kernel, LoopSpec, Lemma
from cxxvc.interp import Obj, Ptr, Loc, ArrLoc, Gap, MAX_DT, ExcVal, VOID
from contracts.gs import GS, GraphKernel, cache_le, rely_R, qj, qi, qk, INVALID_CURSOR, NodeViewObj

qa, qb = z3.Ints("qa qb")


class LifecycleKernel(GraphKernel):
    """shared rely contracts of NodeView::start / stop"""
    stop_may_throw = True
    start_may_throw = True
    bounded_fallback = 3

    def bound_sizes(self, I, n):
        I.ctx.assume(self.gs.n <= n)

    def lc(self, ctx, nm):
        return self.gs.lcget(ctx, nm)

    def havoc_sched_R(self, I):
        ctx = I.ctx
        gs = self.gs
        s0, nst0 = gs.sched(ctx), gs.get(ctx, "next_scheduled_time")
        s1 = ctx.fresh("sched_after_hook", s0.sort())
        nst1 = ctx.fresh("nst_after_hook")
        ctx.write(Loc(gs.sched_key), s1)
        ctx.write(gs.loc("next_scheduled_time"), nst1)
        ctx.assume(rely_R(s0, nst0, s1, nst1, gs.get(ctx, "evaluation_time"), gs.n))
        ctx.assume(nst1 <= MAX_DT)

    def nv_start(self, I, o, a, n):
        from cxxvc import extract
        ctx = I.ctx
        gs = self.gs
        i = o.index
        t = ctx.rv(a[0])
        ctx.oblige("callee-pre.start-at-the-graph-time", t == gs.get(ctx, "evaluation_time"), kind="callee-pre",
                   line=extract.line_of(n))
        self.havoc_sched_R(I)
        if self.start_may_throw and ctx.choose(2, "node.start outcome") == 1:
            # a start that throws did not complete: the node is not started (node.cpp:start_impl contract)
            ctx.write(Loc((self.g.oid, "throw_index")), i)
            ctx.write(Loc((self.g.oid, "throw_phase")), z3.IntVal(1))
            I.throw_from_callee("NodeView::start", tags={"node_index": i})
        c = gs.tick(I)
        gs.lcset(I, "phase", z3.Store(self.lc(ctx, "phase"), i, 1))
        gs.lcset(I, "starts", z3.Store(self.lc(ctx, "starts"), i, self.lc(ctx, "starts")[i] + 1))
        gs.lcset(I, "start_stamp", z3.Store(self.lc(ctx, "start_stamp"), i, c))
        return VOID

    def nv_stop(self, I, o, a, n):
        ctx = I.ctx
        gs = self.gs
        i = o.index
        # an attempt counts whether or not the user stop throws (node.cpp:stop_impl always ends stopped)
        c = gs.tick(I)
        gs.lcset(I, "phase", z3.Store(self.lc(ctx, "phase"), i, 2))
        gs.lcset(I, "stops", z3.Store(self.lc(ctx, "stops"), i, self.lc(ctx, "stops")[i] + 1))
        gs.lcset(I, "stop_stamp", z3.Store(self.lc(ctx, "stop_stamp"), i, c))
        self.havoc_sched_R(I)
        if self.stop_may_throw and ctx.choose(2, "node.stop outcome") == 1:
            ctx.write(Loc((self.g.oid, "stop_throws")), ctx.store[(self.g.oid, "stop_throws")] + 1)
            ctx.write(Loc((self.g.oid, "first_stop_throw")),
                      z3.If(ctx.store[(self.g.oid, "first_stop_throw")] < 0, i, ctx.store[(self.g.oid, "first_stop_throw")]))
            I.throw_from_callee("NodeView::stop", tags={"node_index": i, "stop": True})
        return VOID

    def make_ghost(self, I):
        ctx = I.ctx
        g = Obj("lifecycle_call_ghost", "lg")
        self.g = g
        ctx.store[(g.oid, "throw_index")] = z3.IntVal(-1)
        ctx.store[(g.oid, "throw_phase")] = z3.IntVal(0)
        ctx.store[(g.oid, "stop_throws")] = z3.IntVal(0)
        ctx.store[(g.oid, "first_stop_throw")] = z3.IntVal(-1)
        ctx.store[(g.oid, "unbound")] = z3.IntVal(0)
        gs = self.gs
        self.lc0 = {nm: gs.lcget(ctx, nm) for nm in ("phase", "starts", "stops", "evals", "start_stamp", "stop_stamp",
                                                     "clock")}

    def gg(self, ctx, nm):
        return ctx.store[(self.g.oid, nm)]

    def lc_frame(self):
        gs = self.gs
        return [Loc((gs.lc.oid, nm)) for nm in ("phase", "starts", "stops", "start_stamp", "stop_stamp", "clock")]


    # -- predicates over the lifecycle ghost
    def untouched(self, ctx, lo, hi=None):
        """nodes in [lo, hi) have had no start/stop call in this kernel"""
        rng = qj >= lo if hi is None else z3.And(qj >= lo, qj < hi)
        return z3.ForAll([qj], z3.Implies(rng, z3.And(*[self.lc(ctx, nm)[qj] == self.lc0[nm][qj] for nm in (
            "phase", "starts", "stops", "start_stamp", "stop_stamp")])))

    def stopped_once_in_reverse(self, ctx, lo, hi):
        """every node in [lo, hi) got exactly one stop attempt, higher indices first"""
        st, ss = self.lc(ctx, "stops"), self.lc(ctx, "stop_stamp")
        return z3.And(
            z3.ForAll([qj], z3.Implies(z3.And(qj >= lo, qj < hi), z3.And(st[qj] == self.lc0["stops"][qj] + 1,
                                                                         self.lc(ctx, "phase")[qj] == 2,
                                                                         ss[qj] >= self.lc0["clock"]))),
            z3.ForAll([qa, qb], z3.Implies(z3.And(lo <= qa, qa < qb, qb < hi), ss[qa] > ss[qb])))


class StartImpl(LifecycleKernel):
    fn_name = "start_impl"
    filter = "start_impl"
    sig = "void (const void *, const hgraph::GraphView &, hgraph::DateTime)"
    property_ids = ("C14", "C02")
    title = "graph start_impl: start in index order, roll back in reverse on failure, seed the schedule cache"
    max_paths = 20000

    def setup(self, I):
        ctx = I.ctx
        gs = self.make_gs(I)
        self.make_ghost(I)
        self.ts = z3.Int("start_time")
        ctx.assume(z3.And(self.ts >= 0, self.ts < MAX_DT))
        ctx.assume(z3.And(z3.Not(gs.starting0), z3.Not(gs.evaluating0)))
        return None, {"context": self.ctx_token, "graph": gs.view, "start_time": self.ts}

    # loop ordinals (source order): 0 = rollback loop (in the guard lambda), 1 = start loop, 2 = cache fold
    def inv_rollback(self, I, ctx):
        gs = self.gs
        e = ctx.loop_entry[0]
        K = self.local(I, "started_nodes")
        idx = self.local(I, "index")
        st_e, ss = e[(gs.lc.oid, "stops")], self.lc(ctx, "stop_stamp")
        st = self.lc(ctx, "stops")
        yield "index-range", z3.And(0 <= idx, idx <= K, K <= gs.n)
        yield "stopped-suffix-once-in-reverse[C14]", z3.And(
            z3.ForAll([qj], z3.Implies(z3.And(qj >= idx, qj < K), z3.And(st[qj] == st_e[qj] + 1,
                                                                         self.lc(ctx, "phase")[qj] == 2,
                                                                         ss[qj] >= e[(gs.lc.oid, "clock")]))),
            z3.ForAll([qa, qb], z3.Implies(z3.And(idx <= qa, qa < qb, qb < K), ss[qa] > ss[qb])),
            z3.ForAll([qj], z3.Implies(z3.And(qj >= idx, qj < K), ss[qj] < self.lc(ctx, "clock"))))
        yield "rest-untouched", z3.ForAll([qj], z3.Implies(z3.Or(qj < idx, qj >= K), z3.And(
            st[qj] == st_e[qj], self.lc(ctx, "phase")[qj] == e[(gs.lc.oid, "phase")][qj])))
        yield "starts-untouched", z3.And(self.lc(ctx, "starts") == e[(gs.lc.oid, "starts")],
                                         self.lc(ctx, "start_stamp") == e[(gs.lc.oid, "start_stamp")])
        yield "clock-monotone", self.lc(ctx, "clock") >= e[(gs.lc.oid, "clock")]
        yield "header", z3.And(gs.get(ctx, "evaluation_time") == self.ts, z3.Not(gs.get(ctx, "started")))

    def frame_rollback(self, I, ctx):
        gs = self.gs
        return self.lc_frame() + [Loc(gs.sched_key), gs.loc("next_scheduled_time"),
                                  Loc((self.g.oid, "stop_throws")), Loc((self.g.oid, "first_stop_throw")),
                                  self.local_obj(I, "stop_failures").loc("has"),
                                  self.local_obj(I, "stop_failures").loc("first_ann")]

    def inv_start(self, I, ctx):
        gs = self.gs
        idx = self.local(I, "index")
        K = self.local(I, "started_nodes")
        ph, sts, stamp = self.lc(ctx, "phase"), self.lc(ctx, "starts"), self.lc(ctx, "start_stamp")
        yield "index-range", z3.And(0 <= idx, idx <= gs.n, K == idx)
        yield "started-prefix-in-order[C14 nodes start in evaluation order]", z3.And(
            z3.ForAll([qj], z3.Implies(z3.And(qj >= 0, qj < idx), z3.And(
                ph[qj] == 1, sts[qj] == self.lc0["starts"][qj] + 1, self.lc(ctx, "stops")[qj] == self.lc0["stops"][qj],
                stamp[qj] >= self.lc0["clock"], stamp[qj] < self.lc(ctx, "clock")))),
            z3.ForAll([qa, qb], z3.Implies(z3.And(0 <= qa, qa < qb, qb < idx), stamp[qa] < stamp[qb])))
        yield "rest-untouched", self.untouched(ctx, idx)
        yield "below-zero-untouched", self.untouched(ctx, -1000000000, 0) if False else z3.ForAll(
            [qj], z3.Implies(qj < 0, self.lc(ctx, "stops")[qj] == self.lc0["stops"][qj]))
        yield "stop-stamps-untouched", z3.And(self.lc(ctx, "stops") == self.lc0["stops"],
                                              self.lc(ctx, "stop_stamp") == self.lc0["stop_stamp"])
        yield "clock-monotone", self.lc(ctx, "clock") >= self.lc0["clock"]
        yield "header", z3.And(gs.get(ctx, "evaluation_time") == self.ts, z3.Not(gs.get(ctx, "started")),
                               gs.get(ctx, "starting"))
        yield "sched-in-range", z3.ForAll([qj], z3.And(gs.sched(ctx)[qj] >= 0, gs.sched(ctx)[qj] <= MAX_DT))
        yield "no-failure-yet", z3.And(self.gg(ctx, "throw_index") == -1, self.gg(ctx, "stop_throws") == 0)

    def frame_start(self, I, ctx):
        gs = self.gs
        return self.lc_frame() + [Loc(gs.sched_key), gs.loc("next_scheduled_time"),
                                  Loc((self.g.oid, "throw_index")), Loc((self.g.oid, "throw_phase"))]

    def all_started(self, ctx):
        gs = self.gs
        ph, sts, stamp = self.lc(ctx, "phase"), self.lc(ctx, "starts"), self.lc(ctx, "start_stamp")
        return z3.And(
            z3.ForAll([qj], z3.Implies(z3.And(qj >= 0, qj < gs.n), z3.And(
                ph[qj] == 1, sts[qj] == self.lc0["starts"][qj] + 1, self.lc(ctx, "stops")[qj] == self.lc0["stops"][qj]))),
            z3.ForAll([qa, qb], z3.Implies(z3.And(0 <= qa, qa < qb, qb < gs.n), stamp[qa] < stamp[qb])))

    def inv_fold(self, I, ctx):
        gs = self.gs
        idx = self.local(I, "index")
        s, nst, T = gs.sched(ctx), gs.get(ctx, "next_scheduled_time"), self.ts
        yield "index-range", z3.And(0 <= idx, idx <= gs.n)
        yield "cache<=every-slot-at-or-after-start-in-prefix[C02 start-time requests counted]", z3.ForAll(
            [qj], z3.Implies(z3.And(qj >= 0, qj < idx, s[qj] >= T), nst <= s[qj]))
        yield "cache-range", z3.And(nst <= MAX_DT, z3.Or(nst == MAX_DT, nst >= T))
        yield "all-started", self.all_started(ctx)
        yield "header", z3.And(gs.get(ctx, "evaluation_time") == T, z3.Not(gs.get(ctx, "started")))
        yield "no-failure", z3.And(self.gg(ctx, "throw_index") == -1, self.gg(ctx, "stop_throws") == 0)

    def frame_fold(self, I, ctx):
        return [self.gs.loc("next_scheduled_time")]

    @property
    def loops(self):
        return {0: LoopSpec(self.inv_rollback, self.frame_rollback), 1: LoopSpec(self.inv_start, self.frame_start),
                2: LoopSpec(self.inv_fold, self.frame_fold)}

    def post(self, I, ret):
        ctx = I.ctx
        gs = self.gs
        s, nst, T = gs.sched(ctx), gs.get(ctx, "next_scheduled_time"), self.ts
        was = gs.started0
        ctx.oblige("ensures.already-started:no-op", z3.Implies(was, z3.And(
            gs.sched(ctx) == gs.sched0, gs.header_unchanged(ctx, ctx.pre_store), self.untouched(ctx, -(2 ** 62)))),
            kind="post-normal")
        ctx.oblige("ensures.all-nodes-started-once-in-index-order[C14]", z3.Implies(z3.Not(was), self.all_started(ctx)),
                   kind="post-normal")
        ctx.oblige("ensures.graph-started,time=start_time,not-starting", z3.Implies(z3.Not(was), z3.And(
            gs.get(ctx, "started"), gs.get(ctx, "evaluation_time") == T, z3.Not(gs.get(ctx, "starting")))),
            kind="post-normal")
        ctx.oblige("ensures.cache<=every-request-at-or-after-start[C02 requests made during start are counted]",
                   z3.Implies(z3.Not(was), z3.ForAll([qj], z3.Implies(z3.And(qj >= 0, qj < gs.n, s[qj] >= T),
                                                                      nst <= s[qj]))), kind="post-normal")
        ctx.oblige("ensures.cache-not-before-start[C02 never earlier than the start time]",
                   z3.Implies(z3.Not(was), z3.Or(nst == MAX_DT, nst >= T)), kind="post-normal")

    def post_exc(self, I, exc):
        ctx = I.ctx
        gs = self.gs
        k = self.gg(ctx, "throw_index")
        ctx.oblige("raises.only-from-a-node-start", z3.And(z3.Not(gs.started0), k >= 0, k < gs.n,
                                                         self.gg(ctx, "throw_phase") == 1), kind="post-exceptional")
        ctx.oblige("raises.started-prefix-stopped-exactly-once-in-reverse[C14 a failed start stops exactly the nodes "
                   "already started; a failing stop does not prevent the rest]",
                   self.stopped_once_in_reverse(ctx, 0, k), kind="post-exceptional")
        ctx.oblige("raises.failing-node-and-later-ones-not-stopped[C14 exactly the started ones]",
                   z3.ForAll([qj], z3.Implies(qj >= k, self.lc(ctx, "stops")[qj] == self.lc0["stops"][qj])),
                   kind="post-exceptional")
        ctx.oblige("raises.graph-not-started,cache-cleared,not-starting",
                   z3.And(z3.Not(gs.get(ctx, "started")), gs.get(ctx, "next_scheduled_time") == MAX_DT,
                          z3.Not(gs.get(ctx, "starting"))), kind="post-exceptional")
        self.post_exc_extra(I, exc)

    def post_exc_extra(self, I, exc):
        pass


class StartImplNested(StartImpl):
    name = "graph.cpp:start_impl<Nested>"
    nested = True


class StartImplRoot(StartImpl):
    name = "graph.cpp:start_impl<Root>"
    nested = False

    def post_exc_extra(self, I, exc):
        ctx = I.ctx
        ann = exc.tags.get("annotated_index")
        k = self.gg(ctx, "throw_index")
        ctx.oblige("raises.root:error-names-the-failing-node[C14]",
                   z3.And(z3.BoolVal(ann is not None), (ann == k) if ann is not None else z3.BoolVal(False)),
                   kind="post-exceptional")


KERNELS = [StartImplNested, StartImplRoot]


class StopImpl(LifecycleKernel):
    fn_name = "stop_impl"
    filter = "stop_impl"
    sig = "void (const void *, const hgraph::GraphView &, hgraph::DateTime)"
    property_ids = ("C14",)
    title = "graph stop_impl: every node gets one stop attempt in reverse order; first error rethrown afterwards"
    max_paths = 20000

    def setup(self, I):
        ctx = I.ctx
        gs = self.make_gs(I)
        self.make_ghost(I)
        self.ts = z3.Int("stop_time")
        ctx.assume(z3.And(self.ts >= 0, self.ts <= MAX_DT))
        ctx.assume(z3.Not(gs.stopping0))
        self.schema = Obj("GraphSchema", "schema")
        ctx.store[(self.schema.oid, "edges")] = Obj("edges", "edges")
        self.schema_null = z3.Bool("schema_null")
        return None, {"context": self.ctx_token, "graph": gs.view, "stop_time": self.ts}

    def gv_schema(self, I, o, a, n):
        return Ptr(self.schema, self.schema_null)

    def f_unbind_edges(self, I, args, n):
        I.ctx.write(Loc((self.g.oid, "unbound")), self.gg(I.ctx, "unbound") + 1)
        return VOID

    def f_release_alternative_subscriptions(self, I, args, n):
        return VOID

    def inv(self, I, ctx):
        gs = self.gs
        idx = self.local(I, "index")
        rec = self.local_obj(I, "exceptions")
        st, ss = self.lc(ctx, "stops"), self.lc(ctx, "stop_stamp")
        yield "index-range", z3.And(0 <= idx, idx <= gs.n)
        yield "stopped-suffix-once-in-reverse[C14]", z3.And(
            self.stopped_once_in_reverse(ctx, idx, gs.n),
            z3.ForAll([qj], z3.Implies(z3.And(qj >= idx, qj < gs.n), ss[qj] < self.lc(ctx, "clock"))))
        yield "rest-untouched", z3.ForAll([qj], z3.Implies(z3.Or(qj < idx, qj >= gs.n), z3.And(
            st[qj] == self.lc0["stops"][qj], self.lc(ctx, "phase")[qj] == self.lc0["phase"][qj])))
        yield "starts-untouched", z3.And(self.lc(ctx, "starts") == self.lc0["starts"],
                                         self.lc(ctx, "start_stamp") == self.lc0["start_stamp"])
        yield "clock-monotone", self.lc(ctx, "clock") >= self.lc0["clock"]
        yield "header", z3.And(gs.get(ctx, "evaluation_time") == self.ts, gs.get(ctx, "started"),
                               gs.get(ctx, "stopping"))
        yield "recorder-tracks-failures[C14 first error kept]", z3.And(
            rec.has(ctx) == (self.gg(ctx, "stop_throws") > 0), self.gg(ctx, "stop_throws") >= 0,
            z3.Implies(rec.has(ctx), z3.And(self.gg(ctx, "first_stop_throw") >= idx,
                                            self.gg(ctx, "first_stop_throw") < gs.n)),
            z3.Implies(z3.Not(rec.has(ctx)), self.gg(ctx, "first_stop_throw") == -1))
        for x in self.extra_inv(I, ctx, rec):
            yield x

    def extra_inv(self, I, ctx, rec):
        return []

    def frame(self, I, ctx):
        gs = self.gs
        rec = self.local_obj(I, "exceptions")
        return self.lc_frame() + [Loc(gs.sched_key), gs.loc("next_scheduled_time"), Loc((self.g.oid, "stop_throws")),
                                  Loc((self.g.oid, "first_stop_throw")), rec.loc("has"), rec.loc("first_ann")]

    @property
    def loops(self):
        return {0: LoopSpec(self.inv, self.frame)}

    def post(self, I, ret):
        ctx = I.ctx
        gs = self.gs
        was = gs.started0
        ctx.oblige("ensures.not-started:no-op", z3.Implies(z3.Not(was), z3.And(
            gs.sched(ctx) == gs.sched0, gs.header_unchanged(ctx, ctx.pre_store), self.untouched(ctx, -(2 ** 62)))),
            kind="post-normal")
        ctx.oblige("ensures.every-node-stopped-exactly-once-in-reverse[C14]",
                   z3.Implies(was, self.stopped_once_in_reverse(ctx, 0, gs.n)), kind="post-normal")
        ctx.oblige("ensures.graph-stopped,time=stop_time,not-stopping", z3.Implies(was, z3.And(
            z3.Not(gs.get(ctx, "started")), gs.get(ctx, "evaluation_time") == self.ts,
            z3.Not(gs.get(ctx, "stopping")))), kind="post-normal")
        ctx.oblige("ensures.normal-return-only-if-no-stop-failed[C14 error reaches the caller]",
                   self.gg(ctx, "stop_throws") == 0, kind="post-normal")
        ctx.oblige("ensures.edges-unbound-once-when-schema-present",
                   z3.Implies(was, self.gg(ctx, "unbound") == z3.If(self.schema_null, 0, 1)), kind="post-normal")

    def post_exc(self, I, exc):
        ctx = I.ctx
        gs = self.gs
        past = z3.And(gs.started0, self.ts < gs.T0)
        is_past_error = z3.BoolVal(exc.cls == "std::invalid_argument")
        recorded = z3.BoolVal(bool(exc.tags.get("recorded")))
        ctx.oblige("raises.invalid_argument-iff-stop-in-the-past-else-a-recorded-stop-failure",
                   z3.Or(z3.And(is_past_error, past), z3.And(recorded, gs.started0, z3.Not(past),
                                                            self.gg(ctx, "stop_throws") >= 1)),
                   kind="post-exceptional")
        ctx.oblige("raises.stop-in-the-past:state-unchanged", z3.Implies(past, z3.And(
            gs.sched(ctx) == gs.sched0, gs.header_unchanged(ctx, ctx.pre_store), self.untouched(ctx, -(2 ** 62)))),
            kind="post-exceptional")
        ctx.oblige("raises.stop-failure:every-node-still-stopped-exactly-once-in-reverse[C14 a failing stop does not "
                   "prevent the remaining nodes from stopping]",
                   z3.Implies(z3.Not(past), self.stopped_once_in_reverse(ctx, 0, gs.n)), kind="post-exceptional")
        ctx.oblige("raises.stop-failure:graph-stopped,not-stopping", z3.Implies(z3.Not(past), z3.And(
            z3.Not(gs.get(ctx, "started")), z3.Not(gs.get(ctx, "stopping")))), kind="post-exceptional")
        self.post_exc_extra(I, exc, past)

    def post_exc_extra(self, I, exc, past):
        pass


class StopImplNested(StopImpl):
    name = "graph.cpp:stop_impl<Nested>"
    nested = True


class StopImplRoot(StopImpl):
    name = "graph.cpp:stop_impl<Root>"
    nested = False

    def extra_inv(self, I, ctx, rec):
        yield "first-error-names-first-failing-node[C14]", z3.Implies(
            rec.has(ctx), ctx.store[(rec.oid, "first_ann")] == self.gg(ctx, "first_stop_throw"))

    def post_exc_extra(self, I, exc, past):
        ctx = I.ctx
        ann = exc.tags.get("annotated_index")
        ctx.oblige("raises.root:error-names-the-first-failing-node[C14 original error reaches the caller naming the node]",
                   z3.Implies(z3.Not(past), z3.And(z3.BoolVal(ann is not None),
                                                   (ann == self.gg(ctx, "first_stop_throw")) if ann is not None
                                                   else z3.BoolVal(False))), kind="post-exceptional")


KERNELS += [StopImplNested, StopImplRoot]
