"""C16 -- push_source_node.cpp: QueuePolicyStorage as a monitor.

Protected state (all accessed only under `mutex`):  values: deque<Value>, accepting, max_pending, consumer_thread.
Abstract view: one ghost array acc[] of every value ever pushed since start, with head <= tail:
  values = acc[head .. tail),  a push appends at tail, a pop takes acc[head] (so delivery order, exactly-once and
  'prefix of the accepted values' are index facts), clear() drops acc[head..tail).
MonInv:  0 <= head <= tail  and  (max_pending = 0 or tail - head <= max_pending).
"""
import z3

from cxxvc.kernel import Kernel, LoopSpec, Lemma
from cxxvc.interp import Obj, Ptr, Loc, ArrLoc, Opt, Gap, MAX_DT, ExcVal, VOID, ThrowEx
from cxxvc import extract, models
from contracts.c17_executor import Mutex, LockObj

TU = "src/hgraph/runtime/push_source_node.cpp"
I_ = z3.IntSort()
qk = z3.Int("qk")

NULLOPT = Opt(z3.BoolVal(False), None)


class ValueObj(Obj):
    """hgraph::Value identified by an opaque payload id"""
    cls = "Value"

    def __init__(self, vid, k):
        Obj.__init__(self, name="value")
        self.vid = vid
        self.k = k

    def m_has_value(self, I, args, n):
        return self.k.value_live(self.vid)

    def m_schema(self, I, args, n):
        return Ptr(SchemaObj(self.k.value_schema(self.vid)), z3.BoolVal(False))

    def m_view(self, I, args, n):
        return self


class SchemaObj(Obj):
    cls = "ValueTypeMetaData"

    def __init__(self, sid):
        Obj.__init__(self, name="schema")
        self.sid = sid

    def same_as(self, other):
        return self.sid == other.sid if isinstance(other, SchemaObj) else z3.BoolVal(False)


class Deque(Obj):
    """std::deque<Value> over the ghost array acc[head..tail)"""
    cls = "std::deque<Value>"

    def __init__(self, k):
        Obj.__init__(self, name="values")
        self.k = k

    def g(self, ctx, nm):
        return ctx.store[(self.k.g.oid, nm)]

    def touch(self, I, n):
        I.ctx.oblige("lock-discipline.values-accessed-under-the-mutex[C16]", self.k.mutex.held(I.ctx), kind="lock",
                     line=extract.line_of(n))

    def m_empty(self, I, args, n):
        self.touch(I, n)
        return self.g(I.ctx, "head") == self.g(I.ctx, "tail")

    def m_size(self, I, args, n):
        self.touch(I, n)
        return self.g(I.ctx, "tail") - self.g(I.ctx, "head")

    def m_push_back(self, I, args, n):
        ctx = I.ctx
        self.touch(I, n)
        v = ctx.rv(args[0])
        t = self.g(ctx, "tail")
        ctx.write(Loc((self.k.g.oid, "acc")), z3.Store(self.g(ctx, "acc"), t, v.vid))
        ctx.write(Loc((self.k.g.oid, "tail")), t + 1)
        return VOID

    def m_front(self, I, args, n):
        ctx = I.ctx
        self.touch(I, n)
        ctx.oblige("deque-front-nonempty@%s" % extract.line_of(n), self.g(ctx, "head") < self.g(ctx, "tail"), kind="bounds")
        return ValueObj(self.g(ctx, "acc")[self.g(ctx, "head")], self.k)

    def m_pop_front(self, I, args, n):
        ctx = I.ctx
        self.touch(I, n)
        ctx.oblige("deque-pop_front-nonempty@%s" % extract.line_of(n), self.g(ctx, "head") < self.g(ctx, "tail"), kind="bounds")
        ctx.write(Loc((self.k.g.oid, "head")), self.g(ctx, "head") + 1)
        ctx.write(Loc((self.k.g.oid, "popped")), self.g(ctx, "popped") + 1)
        return VOID

    def m_clear(self, I, args, n):
        ctx = I.ctx
        self.touch(I, n)
        ctx.write(Loc((self.k.g.oid, "dropped")), self.g(ctx, "dropped") + self.g(ctx, "tail") - self.g(ctx, "head"))
        ctx.write(Loc((self.k.g.oid, "head")), self.g(ctx, "tail"))
        return VOID

    def m_swap(self, I, args, n):
        """result.swap(values) with an empty local result: the whole window moves out"""
        ctx = I.ctx
        self.touch(I, n)
        other = ctx.rv(args[0])
        raise Gap("deque::swap")


class CapCond(Obj):
    cls = "std::condition_variable"

    def __init__(self, k):
        Obj.__init__(self, name="capacity_available")
        self.k = k

    def m_notify_all(self, I, args, n):
        ctx = I.ctx
        ctx.write(Loc((self.k.g.oid, "notifies")), ctx.store[(self.k.g.oid, "notifies")] + 1)
        return VOID

    m_notify_one = m_notify_all

    def m_wait(self, I, args, n):
        """wait(lock, pred): releases the mutex while blocked; the consumer may pop, anyone may stop the source;
        returns with pred() true under the re-acquired mutex"""
        ctx = I.ctx
        k = self.k
        ctx.oblige("wait.holds-the-mutex[C16]", k.mutex.held(ctx), kind="lock", line=extract.line_of(n))
        g = k.g
        h0, t0 = ctx.store[(g.oid, "head")], ctx.store[(g.oid, "tail")]
        h1, t1 = ctx.fresh("head_after_wait"), ctx.fresh("tail_after_wait")
        acc1 = ctx.fresh("acc_after_wait", ctx.store[(g.oid, "acc")].sort())
        acc0 = ctx.store[(g.oid, "acc")]
        acp1 = ctx.fresh("accepting_after_wait", "bool")
        # other producers may push (within capacity), the consumer may pop, stop() clears; history is append-only
        ctx.assume(z3.And(h1 >= h0, t1 >= t0, h1 <= t1,
                          z3.ForAll([qk], z3.Implies(z3.And(qk >= 0, qk < t0), acc1[qk] == acc0[qk])),
                          z3.Or(k.maxp == 0, t1 - h1 <= k.maxp, z3.Not(acp1)),
                          z3.Implies(z3.Not(ctx.store[(k.th.oid, "accepting")]), z3.Not(acp1))))
        ctx.write(Loc((g.oid, "head")), h1)
        ctx.write(Loc((g.oid, "tail")), t1)
        ctx.write(Loc((g.oid, "acc")), acc1)
        ctx.write(Loc((k.th.oid, "accepting")), acp1)
        ctx.write(Loc((g.oid, "waited")), z3.BoolVal(True))
        p = I.truth(I.call_value(ctx.rv(args[1]), [], n))
        ctx.assume(p)
        return VOID


class QueueStorage(Obj):
    cls = "QueuePolicyStorage"
    PROTECTED = ("accepting", "max_pending", "consumer_thread")

    def member(self, ctx, name, node):
        if name in self.PROTECTED:
            ctx.oblige("lock-discipline.%s-accessed-under-the-mutex[C16]" % name, self.k.mutex.held(ctx), kind="lock",
                       line=extract.line_of(node))
        return Obj.member(self, ctx, name, node)


class QueueKernel(Kernel):
    tu = TU
    filter = "QueuePolicyStorage"
    cls = "QueuePolicyStorage"
    property_ids = ("C16",)
    inline = ("full", "validate", "push_value_schema_acceptable")
    scope = {"lo": 0, "hi": 3}
    extra_dumps = ((TU, "push_value_schema_acceptable"),)

    def locate(self, dumps):
        fn = Kernel.locate(self, dumps)
        self.index(dumps[(TU, "push_value_schema_acceptable")])
        return fn

    def value_live(self, vid):
        return z3.Function("value_live", I_, z3.BoolSort())(vid)

    def value_schema(self, vid):
        return z3.Function("value_schema", I_, I_)(vid)

    def setup(self, I):
        ctx = I.ctx
        th = QueueStorage(name="this_queue")
        th.k = self
        self.th = th
        g = Obj("ghost", "qg")
        self.g = g
        self.head0, self.tail0 = z3.Int("head0"), z3.Int("tail0")
        self.acc0 = z3.Array("acc0", I_, I_)
        ctx.store[(g.oid, "head")] = self.head0
        ctx.store[(g.oid, "tail")] = self.tail0
        ctx.store[(g.oid, "acc")] = self.acc0
        for nm in ("popped", "dropped", "notifies"):
            ctx.store[(g.oid, nm)] = z3.IntVal(0)
        ctx.store[(g.oid, "waited")] = z3.BoolVal(False)
        self.mutex = Mutex(ctx)
        ctx.store[(th.oid, "mutex")] = self.mutex
        ctx.store[(th.oid, "capacity_available")] = CapCond(self)
        ctx.store[(th.oid, "values")] = Deque(self)
        self.accepting0 = z3.Bool("accepting0")
        self.maxp = z3.Int("max_pending")
        ctx.store[(th.oid, "accepting")] = self.accepting0
        ctx.store[(th.oid, "max_pending")] = self.maxp
        self.consumer = z3.Int("consumer_thread")
        ctx.store[(th.oid, "consumer_thread")] = self.consumer
        self.this_thread = z3.Int("this_thread")
        ctx.store[(th.oid, "burst_element_binding")] = Obj("binding", "burst_element_binding")
        ctx.store[(th.oid, "burst_value_binding")] = Obj("binding", "burst_value_binding")
        # MonInv
        ctx.assume(z3.And(self.head0 >= 0, self.head0 <= self.tail0, self.maxp >= 0,
                          z3.Or(self.maxp == 0, self.tail0 - self.head0 <= self.maxp)))
        # the policy context
        pc = Obj("PushSourcePolicyContext", "policy_context")
        self.pc = pc
        self.sender_schema = z3.Int("sender_schema")
        self.authored_schema = z3.Int("authored_schema")
        self.sender_schema_null = z3.Bool("sender_schema_null")
        ctx.store[(pc.oid, "sender_schema")] = Ptr(SchemaObj(self.sender_schema), self.sender_schema_null)
        ctx.store[(pc.oid, "authored_schema")] = Ptr(SchemaObj(self.authored_schema), z3.BoolVal(False))
        ctx.store[(pc.oid, "max_pending")] = z3.Int("context_max_pending")
        self.vid = z3.Int("value_id")
        return th, self.params(I)

    def params(self, I):
        return {}

    def gg(self, ctx, nm):
        return ctx.store[(self.g.oid, nm)]

    def mon_inv(self, ctx):
        h, t = self.gg(ctx, "head"), self.gg(ctx, "tail")
        return z3.And(h >= 0, h <= t, z3.Or(self.maxp == 0, t - h <= self.maxp))

    def valid(self):
        v = self.vid
        return z3.And(self.value_live(v), z3.Not(self.sender_schema_null),
                      z3.Or(self.value_schema(v) == self.sender_schema, self.value_schema(v) == self.authored_schema))

    def full0(self):
        return z3.And(self.maxp != 0, self.tail0 - self.head0 >= self.maxp)

    def ctor_handler(self, qt, node):
        if qt.startswith("std::unique_lock") or qt.startswith("std::lock_guard"):
            def h(I, args, n):
                m = I.ctx.rv(args[0])
                if isinstance(m, LockObj):
                    return m
                return LockObj(I, m, n)
            return h
        if qt.endswith("PushSourceSendResult"):
            def h2(I, args, n):
                o = Obj("PushSourceSendResult", "send_result")
                from cxxvc.interp import DEFAULT_ARG
                a = [I.ctx.rv(x) for x in args]
                if len(a) == 1 and isinstance(a[0], Obj) and a[0].cls == "PushSourceSendResult":
                    return a[0]
                # struct PushSourceSendResult { bool accepted{false}; bool wake_required{false}; }
                a = [z3.BoolVal(False) if x is DEFAULT_ARG else x for x in a]
                I.ctx.store[(o.oid, "accepted")] = a[0] if len(a) > 0 else z3.BoolVal(False)
                I.ctx.store[(o.oid, "wake_required")] = a[1] if len(a) > 1 else z3.BoolVal(False)
                return o
            return h2
        if qt.endswith("PushSourceQueuePop"):
            def h3(I, args, n):
                a = [I.ctx.rv(x) for x in args]
                if len(a) == 1 and isinstance(a[0], Obj) and a[0].cls == "PushSourceQueuePop":
                    return a[0]
                o = Obj("PushSourceQueuePop", "pop_result")
                I.ctx.store[(o.oid, "value")] = a[0] if a else None
                I.ctx.store[(o.oid, "more_pending")] = a[1] if len(a) > 1 else z3.BoolVal(False)
                return o
            return h3
        if qt.endswith("ValueTypeRef"):
            return lambda I, args, n: Obj("ValueTypeRef", "type_ref")
        if qt.endswith("thread::id"):
            return lambda I, args, n: I.ctx.rv(args[0]) if args else z3.IntVal(-1)
        if qt in ("Value", "hgraph::Value"):
            return lambda I, args, n: I.ctx.rv(args[0]) if args else ValueObj(I.ctx.fresh("empty_value"), self)
        return Kernel.ctor_handler(self, qt, node)

    def global_var(self, I, ref, node):
        if ref.get("name") == "nullopt":
            return NULLOPT
        return None

    def function_handler(self, name, node, callee_node):
        if name == "get_id":
            return lambda I, a, n: self.this_thread
        return Kernel.function_handler(self, name, node, callee_node)


models.install_guards(QueueKernel)


class TrySend(QueueKernel):
    name = "push_source_node.cpp:QueuePolicyStorage::try_send"
    fn_name = "try_send"
    title = "try_send: accepted iff accepting and not full; appends; wake iff the queue was empty"

    def params(self, I):
        return {"context": self.pc, "value": ValueObj(self.vid, self)}

    def post(self, I, ret):
        ctx = I.ctx
        acc_ = ctx.store[(ret.oid, "accepted")]
        wake = ctx.store[(ret.oid, "wake_required")]
        h, t, acc = self.gg(ctx, "head"), self.gg(ctx, "tail"), self.gg(ctx, "acc")
        want = z3.And(self.accepting0, z3.Not(self.full0()))
        ctx.oblige("ensures.accepted<=>accepting-and-not-full[C16 refused only when full or stopped]", acc_ == want,
                   kind="post-normal")
        ctx.oblige("ensures.accepted=>appended-at-the-tail,order-kept[C16 delivered in order, prefix of accepted]",
                   z3.Implies(acc_, z3.And(t == self.tail0 + 1, h == self.head0, acc[self.tail0] == self.vid,
                                           z3.ForAll([qk], z3.Implies(qk != self.tail0, acc[qk] == self.acc0[qk])))),
                   kind="post-normal")
        ctx.oblige("ensures.refused=>no-change", z3.Implies(z3.Not(acc_), z3.And(t == self.tail0, h == self.head0,
                                                                               acc == self.acc0)), kind="post-normal")
        ctx.oblige("ensures.wake_required<=>queue-was-empty[C16 wake only when the queue was empty]",
                   wake == z3.And(acc_, self.head0 == self.tail0), kind="post-normal")
        ctx.oblige("ensures.MonInv[C16 never more than the capacity pending]", self.mon_inv(ctx), kind="post-normal")
        ctx.oblige("ensures.mutex-released", z3.Not(self.mutex.held(ctx)), kind="post-normal")
        ctx.oblige("ensures.accepted=>valid-payload", z3.Implies(acc_, self.valid()), kind="post-normal")

    def post_exc(self, I, exc):
        ctx = I.ctx
        ctx.oblige("raises.invalid_argument-iff-accepting-and-invalid-payload",
                   z3.And(z3.BoolVal(exc.cls == "std::invalid_argument"), self.accepting0, z3.Not(self.valid())),
                   kind="post-exceptional")
        ctx.oblige("raises.state-unchanged,mutex-released", z3.And(
            self.gg(ctx, "tail") == self.tail0, self.gg(ctx, "head") == self.head0, self.gg(ctx, "acc") == self.acc0,
            z3.Not(self.mutex.held(ctx))), kind="post-exceptional")


class SendBlocking(TrySend):
    name = "push_source_node.cpp:QueuePolicyStorage::send_blocking"
    fn_name = "send_blocking"
    title = "send_blocking: waits for capacity under the mutex; fails only if the source stops first"

    def post(self, I, ret):
        ctx = I.ctx
        acc_ = ctx.store[(ret.oid, "accepted")]
        wake = ctx.store[(ret.oid, "wake_required")]
        h, t, acc = self.gg(ctx, "head"), self.gg(ctx, "tail"), self.gg(ctx, "acc")
        accepting_now = ctx.store[(self.th.oid, "accepting")]
        ctx.oblige("ensures.fails-only-if-the-source-stopped[C16 a blocking send fails only if the source stops first]",
                   z3.Implies(z3.Not(acc_), z3.Not(accepting_now)), kind="post-normal")
        ctx.oblige("ensures.accepted=>pushed-while-accepting-and-within-capacity[C16]",
                   z3.Implies(acc_, z3.And(accepting_now, acc[t - 1] == self.vid, t >= self.tail0 + 1,
                                           z3.Or(self.maxp == 0, t - h <= self.maxp))), kind="post-normal")
        ctx.oblige("ensures.history-append-only", z3.ForAll([qk], z3.Implies(z3.And(qk >= 0, qk < self.tail0),
                                                                            acc[qk] == self.acc0[qk])), kind="post-normal")
        ctx.oblige("ensures.wake_required<=>queue-was-empty-at-the-push", z3.Implies(acc_, wake == (t - 1 == h)),
                   kind="post-normal")
        ctx.oblige("ensures.MonInv[C16 never more than the capacity pending]",
                   z3.And(h >= 0, h <= t, z3.Or(self.maxp == 0, t - h <= self.maxp, z3.Not(accepting_now))), kind="post-normal")
        ctx.oblige("ensures.mutex-released", z3.Not(self.mutex.held(ctx)), kind="post-normal")

    def post_exc(self, I, exc):
        ctx = I.ctx
        on_consumer = z3.And(self.full0(), self.consumer == self.this_thread)
        ctx.oblige("raises.invalid_argument-for-an-invalid-payload,logic_error-for-waiting-on-the-evaluation-thread",
                   z3.And(self.accepting0, z3.Or(z3.And(z3.BoolVal(exc.cls == "std::invalid_argument"), z3.Not(self.valid())),
                                                 z3.And(z3.BoolVal(exc.cls == "std::logic_error"), self.valid(), on_consumer))),
                   kind="post-exceptional")
        ctx.oblige("raises.state-unchanged,mutex-released", z3.And(
            self.gg(ctx, "tail") == self.tail0, self.gg(ctx, "head") == self.head0, self.gg(ctx, "acc") == self.acc0,
            z3.Not(self.mutex.held(ctx))), kind="post-exceptional")


class TryPop(QueueKernel):
    name = "push_source_node.cpp:QueuePolicyStorage::try_pop"
    fn_name = "try_pop"
    title = "try_pop: returns the oldest accepted value exactly once; more_pending iff something is left"

    def post(self, I, ret):
        ctx = I.ctx
        h, t, acc = self.gg(ctx, "head"), self.gg(ctx, "tail"), self.gg(ctx, "acc")
        empty = self.head0 == self.tail0
        if not isinstance(ret, Opt):
            raise Gap("try_pop returned %r" % (ret,))
        ctx.oblige("ensures.empty=>nullopt,no-change", z3.Implies(empty, z3.And(z3.Not(ret.has), h == self.head0)),
                   kind="post-normal")
        ctx.oblige("ensures.nonempty=>engaged", z3.Implies(z3.Not(empty), ret.has), kind="post-normal")
        if ret.value is not None:
            v = ctx.store[(ret.value.oid, "value")]
            mp = ctx.store[(ret.value.oid, "more_pending")]
            ctx.oblige("ensures.returns-the-oldest-pending-value,once[C16 delivered exactly once, in order]",
                       z3.Implies(ret.has, z3.And(v.vid == self.acc0[self.head0], h == self.head0 + 1)), kind="post-normal")
            ctx.oblige("ensures.more_pending<=>queue-still-nonempty[C16 consumer re-arms when more is pending]",
                       z3.Implies(ret.has, mp == (self.head0 + 1 < self.tail0)), kind="post-normal")
            ctx.oblige("ensures.a-blocked-sender-is-notified-after-the-pop", z3.Implies(ret.has, self.gg(ctx, "notifies") == 1),
                       kind="post-normal")
        ctx.oblige("ensures.history-and-tail-unchanged", z3.And(t == self.tail0, acc == self.acc0), kind="post-normal")
        ctx.oblige("ensures.MonInv", self.mon_inv(ctx), kind="post-normal")
        ctx.oblige("ensures.mutex-released", z3.Not(self.mutex.held(ctx)), kind="post-normal")

    def post_exc(self, I, exc):
        I.ctx.oblige("no-exception", False, kind="post-exceptional")


class Stop(QueueKernel):
    name = "push_source_node.cpp:QueuePolicyStorage::stop"
    fn_name = "stop"
    title = "stop: accepting := false, queue cleared, blocked senders woken"

    def post(self, I, ret):
        ctx = I.ctx
        ctx.oblige("ensures.not-accepting[C16 nothing is accepted after stop]", z3.Not(ctx.store[(self.th.oid, "accepting")]),
                   kind="post-normal")
        ctx.oblige("ensures.queue-cleared", self.gg(ctx, "head") == self.gg(ctx, "tail"), kind="post-normal")
        ctx.oblige("ensures.blocked-senders-woken-after-the-critical-section",
                   z3.And(self.gg(ctx, "notifies") == 1, z3.Not(self.mutex.held(ctx))), kind="post-normal")
        ctx.oblige("ensures.history-unchanged", z3.And(self.gg(ctx, "tail") == self.tail0, self.gg(ctx, "acc") == self.acc0),
                   kind="post-normal")

    def post_exc(self, I, exc):
        I.ctx.oblige("no-exception", False, kind="post-exceptional")


class PendingItems(QueueKernel):
    name = "push_source_node.cpp:QueuePolicyStorage::pending_items"
    fn_name = "pending_items"
    title = "pending_items == accepted but undelivered"

    def post(self, I, ret):
        ctx = I.ctx
        ctx.oblige("ensures.result=tail-head", ret == self.tail0 - self.head0, kind="post-normal")
        ctx.oblige("ensures.pure,mutex-released", z3.And(self.gg(ctx, "head") == self.head0, self.gg(ctx, "tail") == self.tail0,
                                                         z3.Not(self.mutex.held(ctx))), kind="post-normal")


KERNELS = [TrySend, SendBlocking, TryPop, Stop, PendingItems]


# ------------------------------------------------------------------ consumer side: emit_next / push_source_eval


class QueueFacade(Obj):
    """QueuePolicyStorage through the contract proved on try_pop"""
    cls = "QueuePolicyStorage(contract)"

    def __init__(self, k):
        Obj.__init__(self, name="queue")
        self.k = k

    def m_try_pop(self, I, args, n):
        ctx = I.ctx
        k = self.k
        empty = k.head0 == k.tail0
        ctx.write(Loc((k.g.oid, "pops")), ctx.store[(k.g.oid, "pops")] + 1)
        if ctx.decide(empty, "try_pop.empty"):
            return Opt(z3.BoolVal(False), None)
        o = Obj("PushSourceQueuePop", "pop_result")
        ctx.store[(o.oid, "value")] = ValueObj(k.acc0[k.head0], k)
        ctx.store[(o.oid, "more_pending")] = k.head0 + 1 < k.tail0
        ctx.write(Loc((k.g.oid, "head")), k.head0 + 1)
        return Opt(z3.BoolVal(True), o)


class ConsumerKernel(Kernel):
    tu = TU
    property_ids = ("C16",)
    scope = {"lo": 0, "hi": 3}

    def setup(self, I):
        ctx = I.ctx
        g = Obj("ghost", "cg")
        self.g = g
        self.head0, self.tail0 = z3.Int("head0"), z3.Int("tail0")
        self.acc0 = z3.Array("acc0", I_, I_)
        ctx.store[(g.oid, "head")] = self.head0
        for nm in ("pops", "applied", "marks", "emits"):
            ctx.store[(g.oid, nm)] = z3.IntVal(0)
        ctx.store[(g.oid, "applied_vid")] = z3.Int("applied_vid0")
        ctx.assume(z3.And(self.head0 >= 0, self.head0 <= self.tail0))
        self.queue = QueueFacade(self)
        self.output = Obj("TSOutputView", "output")
        return None, self.params(I)

    def value_live(self, vid):
        return z3.BoolVal(True)

    def value_schema(self, vid):
        return z3.IntVal(0)

    def gg(self, ctx, nm):
        return ctx.store[(self.g.oid, nm)]

    def function_handler(self, name, node, callee_node):
        h = getattr(self, "f_" + name, None)
        if h is not None:
            return h
        return Kernel.function_handler(self, name, node, callee_node)


class QueuePolicyEmitNext(ConsumerKernel):
    name = "push_source_node.cpp:queue_policy_emit_next"
    fn_name = "queue_policy_emit_next"
    filter = "queue_policy_emit_next"
    title = "emit_next: exactly the popped value is applied to the output; returns more_pending"

    def params(self, I):
        return {"storage": Ptr(Obj("mem", "storage"), z3.BoolVal(False)), "output": self.output}

    def f_cast(self, I, args, n):
        return Ptr(self.queue, z3.BoolVal(False))

    def f_apply_delta(self, I, args, n):
        ctx = I.ctx
        v = ctx.rv(args[1])
        ctx.oblige("callee-pre.apply_delta:on-this-node's-output", z3.BoolVal(ctx.rv(args[0]) is self.output), kind="callee-pre")
        ctx.write(Loc((self.g.oid, "applied")), self.gg(ctx, "applied") + 1)
        ctx.write(Loc((self.g.oid, "applied_vid")), v.vid)
        return VOID

    def post(self, I, ret):
        ctx = I.ctx
        empty = self.head0 == self.tail0
        ctx.oblige("ensures.one-pop-per-evaluation[C16 each delivery is its own engine cycle]", self.gg(ctx, "pops") == 1,
                   kind="post-normal")
        ctx.oblige("ensures.empty=>nothing-applied,false", z3.Implies(empty, z3.And(self.gg(ctx, "applied") == 0, z3.Not(ret))),
                   kind="post-normal")
        ctx.oblige("ensures.nonempty=>exactly-the-oldest-accepted-value-applied-once[C16 delivered once, in order]",
                   z3.Implies(z3.Not(empty), z3.And(self.gg(ctx, "applied") == 1,
                                                    self.gg(ctx, "applied_vid") == self.acc0[self.head0])), kind="post-normal")
        ctx.oblige("ensures.returns-more_pending[C16 consumer re-arms when more is pending]",
                   z3.Implies(z3.Not(empty), ret == (self.head0 + 1 < self.tail0)), kind="post-normal")


class PushSourceEval(ConsumerKernel):
    name = "push_source_node.cpp:push_source_eval"
    fn_name = "push_source_eval"
    filter = "push_source_eval"
    title = "push_source_eval: one emit per evaluation; the pending flag is re-marked iff more is pending"

    def params(self, I):
        ctx = I.ctx
        self.T = z3.Int("evaluation_time")
        self.view = Obj("NodeView", "view")
        self.pctx = Obj("PushSourceNodeContext", "context")
        ctx.store[(self.pctx.oid, "policy")] = Obj("policy", "policy")
        self.more = z3.Bool("emit_next_more_pending")
        return {"context": self.pctx, "view": self.view, "evaluation_time": self.T}

    def f_policy_storage(self, I, args, n):
        return Ptr(Obj("mem", "storage"), z3.BoolVal(False))

    def f_emit_next(self, I, args, n):
        ctx = I.ctx
        ctx.write(Loc((self.g.oid, "emits")), self.gg(ctx, "emits") + 1)
        return self.more

    def method_handler(self, obj, name, node):
        k = self
        if obj is self.view:
            if name == "data":
                return lambda I, o, a, n: Ptr(Obj("mem", "node_memory"), z3.BoolVal(False))
            if name == "output":
                return lambda I, o, a, n: k.output
            if name == "graph":
                return lambda I, o, a, n: Nav("graph", k)
        if isinstance(obj, Nav):
            if name == "mark_push_update_pending":
                def mark(I, o, a, n):
                    I.ctx.write(Loc((k.g.oid, "marks")), k.gg(I.ctx, "marks") + 1)
                    return VOID
                return mark
            return lambda I, o, a, n: Nav(name, k)
        return Kernel.method_handler(self, obj, name, node)

    def post(self, I, ret):
        ctx = I.ctx
        ctx.oblige("ensures.one-emit-per-evaluation[C16 each delivered in its own cycle]", self.gg(ctx, "emits") == 1,
                   kind="post-normal")
        ctx.oblige("ensures.flag-re-marked-iff-more-pending[C16 no accepted value is left without a wake-up]",
                   self.gg(ctx, "marks") == z3.If(self.more, 1, 0), kind="post-normal")


class Nav(Obj):
    cls = "nav"

    def __init__(self, name, k):
        Obj.__init__(self, name=name)


KERNELS += [QueuePolicyEmitNext, PushSourceEval]
