"""GS -- the abstract scheduling / lifecycle state of one graph instance (graph.cpp),
shared by the kernels of C01, C02, C09, C14, C15, C16.

  n                      runtime.layout.node_count
  T, nst, cur            state.evaluation_time / next_scheduled_time / evaluation_cursor
  started, starting, stopping, evaluating, failed
  sched[0..n)            graph_schedule(runtime, memory, i)
Lifecycle ghost (written only by the contracts of NodeView::start/stop/evaluate):
  phase[i] in {0 idle, 1 started, 2 stopped}, starts[i], stops[i], evals[i],
  start_stamp[i], stop_stamp[i], clock
"""
import z3

from cxxvc.kernel import Kernel, LoopSpec
from cxxvc.interp import Obj, Ptr, Loc, ArrLoc, Pair, Opt, Gap, MAX_DT, ExcVal, VOID, ThrowEx
from cxxvc import models

I_ = z3.IntSort()
B_ = z3.BoolSort()
INVALID_CURSOR = z3.Int("INVALID_CURSOR")  # std::numeric_limits<size_t>::max()

qj, qi, qk = z3.Ints("qj qi qk")


class Header(Obj):
    cls = "GraphRuntimeStorage"


class NodeViewObj(Obj):
    """NodeView for node `index` of graph `gs`"""
    cls = "NodeView"

    def __init__(self, gs, index):
        Obj.__init__(self, name="node_view")
        self.gs = gs
        self.index = index


class GraphViewObj(Obj):
    cls = "GraphView"


class Observers(Obj):
    cls = "LifecycleObserverList"


class GS:
    def __init__(self, I, nested, prefix="g"):
        ctx = I.ctx
        self.nested = nested
        self.p = prefix
        st = Header(name=prefix + "_state")
        self.st = st

        def f(name, sort="int"):
            v = z3.Int("%s_%s" % (prefix, name)) if sort == "int" else z3.Bool("%s_%s" % (prefix, name))
            ctx.store[(st.oid, name)] = v
            return v

        self.T0 = f("evaluation_time")
        self.nst0 = f("next_scheduled_time")
        self.cur0 = f("evaluation_cursor")
        self.started0 = f("started", "bool")
        self.starting0 = f("starting", "bool")
        self.stopping0 = f("stopping", "bool")
        self.evaluating0 = f("evaluating", "bool")
        self.failed0 = f("evaluation_failed", "bool")
        self.cws0 = f("cycle_wall_start")
        self.obs = Observers(name=prefix + "_observers")
        ctx.store[(st.oid, "lifecycle_observers")] = Ptr(self.obs, z3.BoolVal(False))
        self.rt = Obj("GraphRuntimeContext", prefix + "_runtime")
        lay = Obj("GraphRuntimeStorageLayout", prefix + "_layout")
        self.n = z3.Int(prefix + "_n")
        ctx.store[(lay.oid, "node_count")] = self.n
        ctx.store[(self.rt.oid, "layout")] = lay
        self.mem = Obj("graph_memory", prefix + "_memory")
        self.sched_key = (self.mem.oid, "sched")
        self.sched0 = z3.Array(prefix + "_sched", I_, I_)
        ctx.store[self.sched_key] = self.sched0
        self.view = GraphViewObj(name=prefix + "_graph")
        # lifecycle ghost
        self.lc = Obj("lifecycle_ghost", prefix + "_lc")
        for nm in ("phase", "starts", "stops", "evals", "start_stamp", "stop_stamp"):
            ctx.store[(self.lc.oid, nm)] = z3.Array("%s_%s0" % (prefix, nm), I_, I_)
        ctx.store[(self.lc.oid, "clock")] = z3.Int(prefix + "_clock0")
        ctx.assume(z3.And(self.n >= 0, self.T0 >= 0, self.T0 <= MAX_DT, self.nst0 >= 0, self.nst0 <= MAX_DT,
                          self.cur0 >= 0, INVALID_CURSOR > self.n))
        ctx.assume(z3.ForAll([qj], z3.And(self.sched0[qj] >= 0, self.sched0[qj] <= MAX_DT)))

    # -- accessors on the current store
    def get(self, ctx, name):
        return ctx.store[(self.st.oid, name)]

    def loc(self, name):
        return Loc((self.st.oid, name))

    def sched(self, ctx):
        return ctx.store[self.sched_key]

    def lcget(self, ctx, nm):
        return ctx.store[(self.lc.oid, nm)]

    def lcset(self, I, nm, v):
        I.ctx.write(Loc((self.lc.oid, nm)), v)

    def tick(self, I):
        c = self.lcget(I.ctx, "clock")
        self.lcset(I, "clock", c + 1)
        return c

    def header_unchanged(self, ctx, pre, fields=("evaluation_time", "next_scheduled_time", "evaluation_cursor", "started",
                                                 "evaluating", "evaluation_failed")):
        return z3.And(*[ctx.store[(self.st.oid, f)] == pre[(self.st.oid, f)] for f in fields])


def cache_le(sched, nst, T, n, upto=None):
    """the cache never exceeds a pending future slot (of the nodes below `upto`, all when None)"""
    rng = z3.And(qj >= 0, qj < (n if upto is None else upto))
    return z3.ForAll([qj], z3.Implies(z3.And(rng, sched[qj] > T), nst <= sched[qj]))


def rely_R(s0, nst0, s1, nst1, T, n):
    """what any number of schedule_node_impl calls (each with when >= T) can do to (sched, nst):
    proved reflexive, transitive and implied by one call in contracts/c02_simulation.py (lemmas)"""
    return z3.And(
        z3.ForAll([qj], z3.Implies(z3.And(qj >= 0, qj < n), z3.Or(s1[qj] == s0[qj], s1[qj] >= T))),
        z3.ForAll([qj], z3.Implies(z3.Or(qj < 0, qj >= n), s1[qj] == s0[qj])),
        nst1 <= nst0,
        z3.Or(nst1 == nst0, nst1 > T),
        z3.ForAll([qj], z3.Implies(z3.And(qj >= 0, qj < n, s1[qj] != s0[qj], s1[qj] > T), nst1 <= s1[qj])),
        z3.ForAll([qj], z3.And(s1[qj] >= 0, s1[qj] <= MAX_DT)), nst1 >= 0)


class GraphKernel(Kernel):
    """common callee table for graph.cpp kernels"""
    tu = "src/hgraph/runtime/graph.cpp"
    nested = False
    observers_may_throw = False
    scope = {"lo": 0, "hi": 3}

    @property
    def targs(self):
        return ["NestedGraphRuntimeStorage" if self.nested else "RootGraphRuntimeStorage"]

    def make_gs(self, I):
        self.gs = GS(I, self.nested)
        self.ctx_token = Obj("context", "context")
        return self.gs

    # ---- free functions of graph.cpp
    def f_graph_context(self, I, args, n):
        return self.gs.rt

    def f_graph_header(self, I, args, n):
        return self.gs.st

    def f_graph_schedule(self, I, args, n):
        from cxxvc import extract
        i = I.ctx.rv(args[2])
        I.ctx.oblige("bounds.graph_schedule@%s" % extract.line_of(n), z3.And(i >= 0, i < self.gs.n), kind="bounds",
                     line=extract.line_of(n))
        return ArrLoc(self.gs.sched_key, i)

    def f_graph_node_view(self, I, args, n):
        from cxxvc import extract
        i = I.ctx.rv(args[2])
        I.ctx.oblige("bounds.graph_node_view@%s" % extract.line_of(n), z3.And(i >= 0, i < self.gs.n), kind="bounds",
                     line=extract.line_of(n))
        return NodeViewObj(self.gs, i)

    def f_current_wall_time(self, I, args, n):
        w = I.ctx.fresh("wall")
        I.ctx.assume(z3.And(w >= 0, w <= MAX_DT))
        return w

    def f_rethrow_with_node_identity(self, I, args, n):
        """[[noreturn]]: rethrows the exception being handled as runtime_error naming the node"""
        ctx = I.ctx
        if not ctx.handler_stack:
            raise Gap("rethrow_with_node_identity outside a handler")
        orig = ctx.handler_stack[-1]
        nv = ctx.rv(args[0])
        idx = ctx.rv(args[1])
        e = ExcVal("std::runtime_error", origin="rethrow_with_node_identity",
                   tags={"annotated_index": idx, "annotated_node": nv, "phase": ctx.rv(args[2]), "original": orig})
        ctx.uncaught += 1
        raise ThrowEx(e)

    def observer_call(self, I, obj, args, n, name):
        if self.observers_may_throw:
            if I.ctx.decide(I.ctx.fresh("observer_throws", "bool"), "observer %s throws" % name):
                I.throw_from_callee("observer." + name)
        return VOID

    def method_handler(self, obj, name, node):
        if isinstance(obj, Observers) and name.startswith("notify_"):
            return lambda I, o, a, n, nm=name: self.observer_call(I, o, a, n, nm)
        if isinstance(obj, GraphViewObj):
            h = getattr(self, "gv_" + name, None)
            if h is not None:
                return lambda I, o, a, n: h(I, o, a, n)
        if isinstance(obj, NodeViewObj):
            h = getattr(self, "nv_" + name, None)
            if h is not None:
                return lambda I, o, a, n: h(I, o, a, n)
        return Kernel.method_handler(self, obj, name, node)

    def function_handler(self, name, node, callee_node):
        h = getattr(self, "f_" + name, None)
        if h is not None:
            return h
        return Kernel.function_handler(self, name, node, callee_node)

    def gv_data(self, I, o, a, n):
        return self.gs.mem

    def global_var(self, I, ref, node):
        if ref.get("name") == "invalid_cursor":
            return INVALID_CURSOR
        return None


models.install_guards(GraphKernel)
